"""C14  Untrusted paths and filenames cannot escape the trusted directory."""
from __future__ import annotations

import ast
import itertools
import os
import posixpath
import re
import shutil
import tempfile
import types
import unicodedata

from . import pyextract as px
from .vlib import COQ, Check, ImplTimeout, cps, uncps, with_timeout

PID = "C14"
CLAIM = dict(
    text="Coq theorems over an executable model of posixpath.normpath/join/isabs, security.safe_join and utils.secure_filename: "
         "containment (safe_join d cs = Some p implies normpath p keeps the leading-slash kind and the normalised segments of d as a "
         "prefix, with no '..' in the remainder, for absolute, relative, empty and root bases and every component tuple) and the "
         "filename laws (result over [A-Za-z0-9_.-], never starts with '.' or '_', no separator/blank/NUL, idempotent; NFKD as a "
         "section variable with contract identity-on-ASCII); on top of containment, send_from_directory's refusal logic and "
         "SharedDataMiddleware's export loop (exact match, prefix match at a '/' boundary, then safe_join) with the file system as a "
         "section variable: the file that is opened exists and lies inside the exported directory; the same for every kind of export "
         "(a single-file export serves exactly that file, a package export a resource inside package_path); and secure_filename "
         "with os.name as an input: on Windows the result is never a device name (table regenerated). safe_join's rejection disjunction, its normalisation guard and default "
         "directory, secure_filename's character class and constants, and the three tests of SharedDataMiddleware's export loop are "
         "regenerated from the source on every run (send_from_directory and get_directory_loader are pinned); the model is "
         "compared with werkzeug and with the interpreter's posixpath on ~290k cases per quick run (every 1- and 2-component tuple "
         "over the property's atoms and assembled components, every 3-component tuple over the atoms, x 16 bases of all four kinds), "
         "and exercised end to end through send_from_directory and SharedDataMiddleware (directory, package and file exports) over a "
         "temporary tree with sentinels outside the root (~40k requests).",
    note="Trusted: Coq kernel; translator tools/c14.py; extraction + driver; hand-written posixpath model (validated differentially "
         "against the interpreter); POSIX path semantics (os.sep '/', no altsep, os.name != 'nt') as in the property's quantifier; "
         "unicodedata.normalize('NFKD') is a section variable (identity on ASCII, checked over all 128 ASCII characters at run time); "
         "file-system resolution (symlinks, os.path.isfile) is runtime and only exercised by the harness.",
    design="6/C14")


# ====================================================================== translator

def _codes(s: str) -> str:
    return px.coq_string_codes(s)


def _is_name(n, ident):
    return isinstance(n, ast.Name) and n.id == ident


def bool_expr(node: ast.expr, var: str) -> str:
    """T2: a boolean expression over the single string variable `var` -> Gallina (fail closed)."""
    if isinstance(node, ast.BoolOp):
        op = " || " if isinstance(node.op, ast.Or) else " && "
        return "(" + op.join(bool_expr(v, var) for v in node.values) + ")"
    if isinstance(node, ast.UnaryOp) and isinstance(node.op, ast.Not):
        return f"negb {bool_expr(node.operand, var)}"
    if (isinstance(node, ast.Compare) and len(node.ops) == 1 and isinstance(node.ops[0], (ast.Eq, ast.NotEq))
            and isinstance(node.left, ast.Constant) and _is_name(node.comparators[0], var)):
        # == and != are symmetric on str: normalise `"x" == filename` to `filename == "x"`
        node = ast.Compare(left=node.comparators[0], ops=node.ops, comparators=[node.left])
    if isinstance(node, ast.Compare) and len(node.ops) == 1 and _is_name(node.left, var):
        rhs = node.comparators[0]
        if isinstance(rhs, ast.Constant) and isinstance(rhs.value, str):
            if isinstance(node.ops[0], ast.Eq):
                return f"list_eqb {var} {_codes(rhs.value)}"
            if isinstance(node.ops[0], ast.NotEq):
                return f"negb (list_eqb {var} {_codes(rhs.value)})"
    if isinstance(node, ast.Call):
        f = node.func
        # filename.startswith("...")
        if (isinstance(f, ast.Attribute) and _is_name(f.value, var) and f.attr == "startswith"
                and len(node.args) == 1 and not node.keywords
                and isinstance(node.args[0], ast.Constant) and isinstance(node.args[0].value, str)):
            return f"starts_with {_codes(node.args[0].value)} {var}"
        # os.path.isabs(filename): posixpath.isabs under the property's POSIX assumption
        if ast.unparse(f) == "os.path.isabs" and len(node.args) == 1 and _is_name(node.args[0], var) and not node.keywords:
            return f"isabs {var}"
        # any(sep in filename for sep in _os_alt_seps)
        if _is_name(f, "any") and len(node.args) == 1 and isinstance(node.args[0], ast.GeneratorExp) and not node.keywords:
            g = node.args[0]
            if (len(g.generators) == 1 and not g.generators[0].ifs and not g.generators[0].is_async
                    and isinstance(g.generators[0].target, ast.Name) and _is_name(g.generators[0].iter, "_os_alt_seps")
                    and isinstance(g.elt, ast.Compare) and len(g.elt.ops) == 1 and isinstance(g.elt.ops[0], ast.In)
                    and _is_name(g.elt.left, g.generators[0].target.id) and _is_name(g.elt.comparators[0], var)):
                return f"existsb (fun sep => contains sep {var}) os_alt_seps"
    raise px.Unsupported(f"safe_join condition not recognised: {ast.unparse(node)}")


def bool_expr2(node: ast.expr, names: tuple[str, ...]) -> str:
    """T2: a boolean expression over the string variables `names` (SharedDataMiddleware's prefix tests) -> Gallina"""
    if isinstance(node, ast.UnaryOp) and isinstance(node.op, ast.Not):
        return f"negb ({bool_expr2(node.operand, names)})"
    if isinstance(node, ast.BoolOp):
        op = " || " if isinstance(node.op, ast.Or) else " && "
        return "(" + op.join(bool_expr2(v, names) for v in node.values) + ")"
    if (isinstance(node, ast.Compare) and len(node.ops) == 1 and isinstance(node.ops[0], ast.Eq)
            and isinstance(node.left, ast.Name) and isinstance(node.comparators[0], ast.Name)
            and node.left.id in names and node.comparators[0].id in names):
        return f"list_eqb {node.left.id} {node.comparators[0].id}"
    if (isinstance(node, ast.Call) and isinstance(node.func, ast.Attribute) and isinstance(node.func.value, ast.Name)
            and node.func.value.id in names and len(node.args) == 1 and not node.keywords):
        a = node.args[0]
        arg = a.id if isinstance(a, ast.Name) and a.id in names else (
            _codes(a.value) if isinstance(a, ast.Constant) and isinstance(a.value, str) else None)
        if arg is not None and node.func.attr == "startswith":
            return f"starts_with {arg} {node.func.value.id}"
        if arg is not None and node.func.attr == "endswith":
            return f"ends_with {arg} {node.func.value.id}"
    raise px.Unsupported(f"SharedDataMiddleware condition not recognised: {ast.unparse(node)}")


def _strip_doc(body):
    if body and isinstance(body[0], ast.Expr) and isinstance(body[0].value, ast.Constant) and isinstance(body[0].value.value, str):
        return body[1:]
    return body


def _expect(stmt: ast.stmt, text: str, what: str):
    got = ast.unparse(stmt)
    if got != text:
        raise px.Unsupported(f"{what}: expected `{text}`, found `{got}`")


def gen() -> None:
    """T1/T2: regenerate coq/C14/Gen.v from security.py and utils.py."""
    sec = px.load("security.py")
    utl = px.load("utils.py")

    # ---- _os_alt_seps under POSIX (os.sep = "/", os.path.altsep = None)
    alt = px.find_assign(sec, "_os_alt_seps")
    for n in ast.walk(alt):
        if isinstance(n, ast.Name) and n.id not in {"list", "sep", "os"}:
            raise px.Unsupported(f"_os_alt_seps uses unknown name {n.id}")
        if isinstance(n, (ast.Lambda, ast.Call)) and not (isinstance(n, ast.Call) and _is_name(n.func, "list")):
            raise px.Unsupported("_os_alt_seps construction not recognised")
    fake_os = types.SimpleNamespace(sep="/", path=types.SimpleNamespace(altsep=None))
    alt_seps = eval(compile(ast.Expression(alt), "<_os_alt_seps>", "eval"),  # noqa: S307
                    {"__builtins__": {"list": list}, "os": fake_os})
    if not (isinstance(alt_seps, list) and all(isinstance(s, str) for s in alt_seps)):
        raise px.Unsupported("_os_alt_seps is not a list of str")

    # ---- safe_join: statement skeleton pinned, the three expressions translated
    fn = px.find_def(sec, "safe_join")
    a = fn.args
    if [x.arg for x in a.args] != ["directory"] or a.vararg is None or a.vararg.arg != "pathnames" or a.kwonlyargs or a.kwarg:
        raise px.Unsupported("safe_join signature changed")
    body = _strip_doc(fn.body)
    if len(body) != 4:
        raise px.Unsupported(f"safe_join has {len(body)} top-level statements, expected 4")
    s_if, s_parts, s_for, s_ret = body
    if not (isinstance(s_if, ast.If) and ast.unparse(s_if.test) == "not directory" and not s_if.orelse and len(s_if.body) == 1
            and isinstance(s_if.body[0], ast.Assign) and ast.unparse(s_if.body[0].targets[0]) == "directory"
            and isinstance(s_if.body[0].value, ast.Constant) and isinstance(s_if.body[0].value.value, str)):
        raise px.Unsupported("safe_join: `if not directory: directory = <const>` not found")
    default_dir = s_if.body[0].value.value
    _expect(s_parts, "parts = [directory]", "safe_join")
    if not (isinstance(s_for, ast.For) and ast.unparse(s_for.target) == "filename" and ast.unparse(s_for.iter) == "pathnames"
            and not s_for.orelse and len(s_for.body) == 3):
        raise px.Unsupported("safe_join: loop over pathnames not recognised")
    f_norm, f_rej, f_app = s_for.body
    if not (isinstance(f_norm, ast.If) and not f_norm.orelse and len(f_norm.body) == 1):
        raise px.Unsupported("safe_join: normalisation statement not recognised")
    _expect(f_norm.body[0], "filename = posixpath.normpath(filename)", "safe_join")
    norm_guard = bool_expr(f_norm.test, "filename")
    if not (isinstance(f_rej, ast.If) and not f_rej.orelse and len(f_rej.body) == 1):
        raise px.Unsupported("safe_join: rejection statement not recognised")
    _expect(f_rej.body[0], "return None", "safe_join")
    reject = bool_expr(f_rej.test, "filename")
    _expect(f_app, "parts.append(filename)", "safe_join")
    _expect(s_ret, "return posixpath.join(*parts)", "safe_join")

    # ---- secure_filename: statement skeleton pinned, constants and the class extracted
    pat, flags = px.regex_of(px.find_assign(utl, "_filename_ascii_strip_re"))
    if not isinstance(pat, str):
        raise px.Unsupported("_filename_ascii_strip_re is not a str pattern")
    px.single_class_pattern(pat, star=False)
    rx = re.compile(pat, flags)
    # the model applies the class after the ASCII filter; refuse if a non-ASCII code point would be kept
    for cp in list(range(128, 0x3000)) + [0xFF0E, 0xFF0F, 0xFF21, 0x1F600, 0x10FFFF]:
        if not rx.fullmatch(chr(cp)):
            raise px.Unsupported("_filename_ascii_strip_re keeps a non-ASCII code point")
    stripped = set(px.class_table(pat, flags, range(128)))
    keep = [c for c in range(128) if c not in stripped]

    sf = px.find_def(utl, "secure_filename")
    sb = _strip_doc(sf.body)
    if len(sb) != 6:
        raise px.Unsupported(f"secure_filename has {len(sb)} statements, expected 6")
    _expect(sb[0], "filename = unicodedata.normalize('NFKD', filename)", "secure_filename")
    _expect(sb[1], "filename = filename.encode('ascii', 'ignore').decode('ascii')", "secure_filename")
    lp = sb[2]
    if not (isinstance(lp, ast.For) and ast.unparse(lp.target) == "sep" and ast.unparse(lp.iter) == "(os.sep, os.path.altsep)"
            and len(lp.body) == 1 and isinstance(lp.body[0], ast.If) and ast.unparse(lp.body[0].test) == "sep"
            and len(lp.body[0].body) == 1 and not lp.body[0].orelse and not lp.orelse):
        raise px.Unsupported("secure_filename: separator loop not recognised")
    rep = lp.body[0].body[0]
    if not (isinstance(rep, ast.Assign) and ast.unparse(rep.targets[0]) == "filename" and isinstance(rep.value, ast.Call)
            and ast.unparse(rep.value.func) == "filename.replace" and len(rep.value.args) == 2
            and _is_name(rep.value.args[0], "sep") and isinstance(rep.value.args[1], ast.Constant)
            and isinstance(rep.value.args[1].value, str) and len(rep.value.args[1].value) == 1):
        raise px.Unsupported("secure_filename: filename.replace(sep, <one char>) not recognised")
    sep_repl = rep.value.args[1].value
    st = sb[3]
    m = re.fullmatch(r"filename = str\(_filename_ascii_strip_re\.sub\('', (?P<j>'(?:[^'\\]|\\.)*')\.join\(filename\.split\(\)\)\)\)"
                     r"\.strip\((?P<s>'(?:[^'\\]|\\.)*')\)", ast.unparse(st))
    if not m:
        raise px.Unsupported(f"secure_filename: strip/join statement not recognised: {ast.unparse(st)}")
    joiner = ast.literal_eval(m.group("j"))
    strip_chars = ast.literal_eval(m.group("s"))
    if len(joiner) != 1:
        raise px.Unsupported("secure_filename: joiner is not one character")
    nt = sb[4]
    if not (isinstance(nt, ast.If) and ast.unparse(nt.test).startswith("os.name == 'nt' and ") and not nt.orelse):
        raise px.Unsupported("secure_filename: the Windows-only branch is no longer guarded by os.name == 'nt'")
    # the Windows branch itself (modelled with os.name as an input): pinned, device names and constants extracted
    m_nt = re.fullmatch(r"if os\.name == 'nt' and filename and \(filename\.split\((?P<d>'(?:[^'\\]|\\.)')\)\[0\]\.upper\(\) in _windows_device_files\):\n"
                        r"    filename = f'(?P<p>[^'{}]*)\{filename\}'", ast.unparse(nt))
    if not m_nt:
        raise px.Unsupported(f"secure_filename: Windows device-name branch not recognised: {ast.unparse(nt)}")
    nt_dot = ast.literal_eval(m_nt.group("d"))
    nt_prefix = m_nt.group("p")
    if len(nt_prefix) != 1:
        raise px.Unsupported("secure_filename: the device-name prefix is not one character")
    dev = px.find_assign(utl, "_windows_device_files")
    for n in ast.walk(dev):
        if isinstance(n, ast.Name) and n.id not in {"i", "range"}:
            raise px.Unsupported(f"_windows_device_files uses unknown name {n.id}")
        if isinstance(n, (ast.Lambda, ast.Attribute)) or (isinstance(n, ast.Call) and not (isinstance(n.func, ast.Name) and n.func.id == "range")):
            raise px.Unsupported("_windows_device_files construction not recognised")
    devices = eval(compile(ast.Expression(dev), "<_windows_device_files>", "eval"), {"__builtins__": {"range": range}})  # noqa: S307
    if not (isinstance(devices, set) and all(isinstance(x, str) and x.isascii() for x in devices)):
        raise px.Unsupported("_windows_device_files is not a set of ASCII str")
    _expect(sb[5], "return filename", "secure_filename")

    # ---- send_from_directory: refusal logic pinned
    sfd = px.find_def(utl, "send_from_directory")
    want = ["path_str = safe_join(os.fspath(directory), os.fspath(path))", "if path_str is None:\n    raise NotFound()",
            "if '_root_path' in kwargs:\n    path_str = os.path.join(kwargs['_root_path'], path_str)",
            "if not os.path.isfile(path_str):\n    raise NotFound()", "return send_file(path_str, environ, **kwargs)"]
    got = [ast.unparse(x) for x in _strip_doc(sfd.body)]
    if got != want:
        raise px.Unsupported(f"send_from_directory: body changed: {got}")

    # ---- SharedDataMiddleware: directory loader pinned, the export loop's three tests translated
    sdm = px.find_class(px.load("middleware/shared_data.py"), "SharedDataMiddleware")
    gl = [ast.unparse(x) for x in _strip_doc(px.find_def(sdm, "get_directory_loader").body)]
    want_gl = ["def loader(path: str | None) -> tuple[str | None, _TOpener | None]:\n    if path is not None:\n"
               "        path = safe_join(directory, path)\n        if path is None:\n            return (None, None)\n"
               "    else:\n        path = directory\n    if os.path.isfile(path):\n"
               "        return (os.path.basename(path), self._opener(path))\n    return (None, None)", "return loader"]
    if gl != want_gl:
        raise px.Unsupported(f"get_directory_loader: body changed: {gl}")
    # package and single-file exports: loaders and the choice between them pinned
    gp = [ast.unparse(x) for x in _strip_doc(px.find_def(sdm, "get_package_loader").body)]
    head = ("def loader(path: str | None) -> tuple[str | None, _TOpener | None]:\n    if path is None:\n        return (None, None)\n"
            "    path = safe_join(package_path, path)\n    if path is None:\n        return (None, None)\n"
            "    basename = posixpath.basename(path)\n    try:\n        resource = reader.open_resource(path)\n"
            "    except (OSError, ValueError):\n        return (None, None)\n")
    if not (len(gp) == 5 and gp[2] == "reader = spec.loader.get_resource_reader(package)" and gp[3].startswith(head) and gp[4] == "return loader"):
        raise px.Unsupported("get_package_loader: the path handling of the loader changed")
    gf = [ast.unparse(x) for x in _strip_doc(px.find_def(sdm, "get_file_loader").body)]
    if gf != ["return lambda x: (os.path.basename(filename), self._opener(filename))"]:
        raise px.Unsupported(f"get_file_loader: body changed: {gf}")
    init_loop = [ast.unparse(x) for x in _strip_doc(px.find_def(sdm, "__init__").body) if isinstance(x, ast.For)]
    if init_loop != ["for key, value in exports:\n    if isinstance(value, tuple):\n        loader = self.get_package_loader(*value)\n"
                     "    elif isinstance(value, str):\n        if os.path.isfile(value):\n            loader = self.get_file_loader(value)\n"
                     "        else:\n            loader = self.get_directory_loader(value)\n    else:\n"
                     "        raise TypeError(f'unknown def {value!r}')\n    self.exports.append((key, loader))"]:
        raise px.Unsupported("SharedDataMiddleware.__init__: the choice of loader per export changed")
    call = _strip_doc(px.find_def(sdm, "__call__").body)
    if len(call) < 4 or ast.unparse(call[0]) != "path = get_path_info(environ)" or ast.unparse(call[1]) != "file_loader = None":
        raise px.Unsupported("SharedDataMiddleware.__call__: prologue changed")
    loop = call[2]
    if not (isinstance(loop, ast.For) and ast.unparse(loop.target) == "(search_path, loader)" and ast.unparse(loop.iter) == "self.exports"
            and not loop.orelse and len(loop.body) == 3 and all(isinstance(x, ast.If) and not x.orelse for x in loop.body)):
        raise px.Unsupported("SharedDataMiddleware.__call__: export loop not recognised")
    if ast.unparse(call[3]) != "if file_loader is None or not self.is_allowed(real_filename):\n    return self.app(environ, start_response)":
        raise px.Unsupported("SharedDataMiddleware.__call__: fallback statement changed")
    l_exact, l_slash, l_prefix = loop.body
    hit = "if file_loader is not None:\n    break"
    if [ast.unparse(x) for x in l_exact.body] != ["real_filename, file_loader = loader(None)", hit]:
        raise px.Unsupported(f"SharedDataMiddleware.__call__: exact-match branch changed: {[ast.unparse(x) for x in l_exact.body]}")
    if not (len(l_slash.body) == 1 and isinstance(l_slash.body[0], ast.AugAssign) and isinstance(l_slash.body[0].op, ast.Add)
            and ast.unparse(l_slash.body[0].target) == "search_path" and isinstance(l_slash.body[0].value, ast.Constant)
            and isinstance(l_slash.body[0].value.value, str)):
        raise px.Unsupported("SharedDataMiddleware.__call__: `search_path += <const>` not recognised")
    sdm_slash = l_slash.body[0].value.value
    if [ast.unparse(x) for x in l_prefix.body] != ["real_filename, file_loader = loader(path[len(search_path):])", hit]:
        raise px.Unsupported(f"SharedDataMiddleware.__call__: prefix branch changed: {[ast.unparse(x) for x in l_prefix.body]}")
    sdm_exact = bool_expr2(l_exact.test, ("search_path", "path"))
    sdm_append = bool_expr2(l_slash.test, ("search_path",))
    sdm_prefix = bool_expr2(l_prefix.test, ("search_path", "path"))

    text = ("(* GENERATED by tools/c14.py from security.py, utils.py, middleware/shared_data.py on every run - do not edit *)\n"
            "From Wz Require Import lib.Bytes C14.LibPath.\nOpen Scope N_scope.\n\n")
    text += "(* security._os_alt_seps evaluated with os.sep = '/', os.path.altsep = None (POSIX) *)\n"
    text += "Definition os_alt_seps : list (list N) := [" + "; ".join(_codes(s) for s in alt_seps) + "].\n"
    text += f"(* safe_join: `if not directory: directory = ...` *)\nDefinition safe_join_default_dir : list N := {_codes(default_dir)}.\n"
    text += f"(* safe_join: guard of `filename = posixpath.normpath(filename)` *)\n"
    text += f"Definition safe_join_normalise_guard (filename : list N) : bool :=\n  {norm_guard}.\n"
    text += f"(* safe_join: condition of `return None` *)\n"
    text += f"Definition safe_join_reject (filename : list N) : bool :=\n  {reject}.\n\n"
    text += "(* secure_filename: os.sep, os.path.altsep that are truthy (POSIX) and their replacement *)\n"
    text += "Definition filename_seps : list N := [47]%N.\n"
    text += f"Definition filename_sep_replacement : N := {ord(sep_repl)}.\n"
    text += f"Definition filename_joiner : N := {ord(joiner)}.\n"
    text += f"Definition filename_strip_re_text : list N := {_codes(pat)}.\n"
    text += "(* complement, within ASCII, of the class above; every non-ASCII code point is stripped *)\n"
    text += f"Definition filename_keep_class : list (N * N) := {px.coq_ranges(keep)}.\n"
    text += f"Definition filename_strip_chars : list N := {_codes(strip_chars)}.\n"
    text += "(* secure_filename on Windows (os.name == 'nt'): os.sep and os.path.altsep there, the device names, the field separator and the prefix *)\n"
    text += "Definition filename_seps_nt : list N := [92; 47]%N.\n"
    text += "Definition windows_device_files : list (list N) := [" + "; ".join(_codes(x) for x in sorted(devices)) + "].\n"
    text += f"Definition device_field_sep : N := {ord(nt_dot)}.\nDefinition device_prefix : N := {ord(nt_prefix)}.\n"
    text += "\n(* SharedDataMiddleware.__call__: the tests of the export loop and the separator appended to the export key *)\n"
    text += f"Definition sdm_exact (search_path path : list N) : bool :=\n  {sdm_exact}.\n"
    text += f"Definition sdm_append_slash (search_path : list N) : bool :=\n  {sdm_append}.\n"
    text += f"Definition sdm_slash : list N := {_codes(sdm_slash)}.\n"
    text += f"Definition sdm_prefix (search_path path : list N) : bool :=\n  {sdm_prefix}.\n"
    # ---- statement skeletons: everything the model / the oracles stand for that is not translated above is pinned as
    # normalised source text (ast.unparse; layout, comments and docstrings do not matter), with holes where the translated
    # expressions sit.  tools/pins/c14_paths.txt is the source coq/C14/Model.v was written against.
    sdm_mod = px.load("middleware/shared_data.py")
    wsgi_mod = px.load("wsgi.py")
    holes_sj = {ast.unparse(f_rej.test): "<REJECT-CONDITION>", ast.unparse(f_norm.test): "<NORMALISE-GUARD>"}
    holes_sdm = {ast.unparse(l_exact.test): "<EXACT-TEST>", ast.unparse(l_slash.test): "<APPEND-SEPARATOR-TEST>",
                 ast.unparse(l_prefix.test): "<PREFIX-TEST>", ast.unparse(l_slash.body[0]): "search_path += <SEPARATOR>"}
    send_file = px.find_def(utl, "send_file")
    sf_path = [x for x in send_file.body if isinstance(x, ast.If) and "isinstance(path_or_file" in ast.unparse(x.test)]
    sf_open = [x for x in ast.walk(send_file) if isinstance(x, ast.Assign) and ast.unparse(x.value).startswith("open(")]
    if len(sf_path) != 1 or len(sf_open) != 1:
        raise px.Unsupported("send_file: the path handling block or the open() call was not found")
    sections = [
        ("security.safe_join", px.skeleton(fn, holes_sj)),
        ("utils.secure_filename", px.skeleton(sf)),
        ("utils.send_from_directory", px.skeleton(sfd)),
        ("utils.send_file: signature", ast.unparse(send_file.args)),
        ("utils.send_file: path handling", ast.unparse(sf_path[0])),
        ("utils.send_file: open", ast.unparse(sf_open[0])),
        ("wsgi.get_path_info", px.skeleton(px.find_def(wsgi_mod, "get_path_info"))),
        ("middleware.shared_data.SharedDataMiddleware", px.skeleton(px.find_class(sdm_mod, "SharedDataMiddleware"), holes_sdm)),
    ]
    px.check_pin("C14", "c14_paths.txt", "".join(f"## {n}\n{t}\n" for n, t in sections),
                 "the source the C14 model stands for (safe_join / secure_filename / send_from_directory / send_file path handling / SharedDataMiddleware)")
    px.write_if_changed(os.path.join(COQ, "C14", "Gen.v"), text)


# ====================================================================== harness

# the property's atoms
ATOMS = ["..", ".", "", "/", "//", "\\", "C:", "C:\\", "c:/", "~", "%2e%2e", "%2e", "\x00", "a", "index.txt", "sub",
         "..a", "a..", "...", ".hidden", "a.b.c", "\n"]
# line breaks and other control / separator characters are legal in POSIX file names: as names, after a parent
# reference, and inside absolute paths (a regex `.` or `$` treats some of them specially)
CONTROL = ["\n", "\r", "\x0b", "\x0c", "\x1c", "\x1d", "\x1e", "\x85", "\u2028", "\u2029", "\x00"]
CONTROL_SHAPES = ([c for c in CONTROL if c not in ("\n", "\x00")]
                  + ["../" + c for c in CONTROL] + ["../out" + c + "side/secret.txt" for c in ("\n", "\r", "\u2028")]
                  + ["..\n", "..\n/x", "\n/..", "../..\n", "a/../../\n", "/\n", "/etc\n/passwd", "//\n", "..\x00/..", "a\nb/../..",
                     "in\nside/ok.txt", "sub/../../out\nside/secret.txt", "\n../x", "..\r\n"])
# compatibility characters that NFKC / NFKD fold into dots and separators (two dot leader, one dot leader, fullwidth full stop,
# small full stop, fullwidth solidus / reverse solidus, horizontal ellipsis, ideographic full stop, a ligature): harmless names
# for safe_join, dangerous only if something normalises the path after the vetting
COMPAT_SHAPES = ["\u2025", "\u2024\u2024", "\uff0e\uff0e", "\ufe52\ufe52", "\u2026", "\u3002\u3002", "\uff0f", "\uff3c", "\ufb01le",
                 "\u2025/outside_sentinel.txt", "\uff0e\uff0e/outside_sentinel.txt", "\u2024\u2024/outside_sentinel.txt",
                 "..\uff0foutside_sentinel.txt", "\uff0e\uff0e\uff0foutside_sentinel.txt", "\ufe52\ufe52/outside_sentinel.txt",
                 "sub/\u2025/\u2025/outside_sentinel.txt", "\u2025/\u2025", "\uff0e/\u2025", "\u2025\uff3c\u2025", "\uff0fetc\uff0fpasswd"]
# components assembled from them (each is a concatenation of atoms)
ASSEMBLED = ["../", "../a", "a/..", "a/../..", "a/../../", "sub/../..", "./..", "..//", "../..", "/..", "/../a", "//..",
             "a/b", "a//b", "a/./b", "a/", "./a", "sub/inner.txt", "sub/../index.txt", "../outside_sentinel.txt",
             "sub/../../outside_sentinel.txt", "/etc/passwd", "//etc/passwd", "..\\", "\\..\\", "..\\..\\a", "~root", "~/a",
             "C:\\a", "c:/..", "%2e%2e/", "..%2f", "a\x00b", "..\x00", "\x00/..", "../\x00", ".../..", "..a/..", "a../..",
             "..a/../..", ".../../..", "./", ".//.", "a/b/../../..", "a/b/../..", "/", "///"]
COMPONENTS = list(dict.fromkeys(ATOMS + ASSEMBLED + CONTROL_SHAPES + COMPAT_SHAPES))
BASES = {
    "absolute": ["/srv/www", "/srv/www/", "/srv/../www", "//srv", "///srv/www//"],
    "relative": ["static", "static/", "./static", "../up", "a/../..", "..", "."],
    "empty": [""],
    "root": ["/", "//", "///"],
}


def _lead(s: str) -> int:
    if not s.startswith("/"):
        return 0
    return 2 if s.startswith("//") and not s.startswith("///") else 1


def _segments(s: str) -> list[str]:
    return [x for x in s.split("/") if x not in ("", ".")]


def contained(base: str, p: str) -> str | None:
    """impl-level oracle (property clause 1) on the interpreter's own posixpath: None = fine."""
    nb = posixpath.normpath(base or ".")
    np_ = posixpath.normpath(p)
    if _lead(nb) != _lead(np_):
        return f"normalised result {np_!r} and base {nb!r} differ in absoluteness"
    sb, sp = _segments(nb), _segments(np_)
    if sp[:len(sb)] != sb:
        return f"normalised result {np_!r} does not lie under the normalised base {nb!r}"
    if ".." in sp[len(sb):]:
        return f"normalised result {np_!r} climbs out of the base {nb!r}"
    return None


def _corpus() -> dict:
    import json
    path = os.path.join(os.path.dirname(COQ), "corpus", "C14", "cases.json")
    try:
        with open(path, encoding="utf-8") as f:
            return json.load(f)
    except (OSError, ValueError):
        return {}


def _sj_line(d: str, cs) -> str:
    return "sj " + cps(d) + "".join(" " + cps(c) for c in cs)


SF_ALPHA = ([".", "..", "/", "\\", " ", "_", "-", "\x00", "\t", "\n", "\x1c", "\x1f", "\x85", "\xa0", "\u2028", "\u3000",
             "\uff0e", "\uff0f", "\uff3c", "\u2024", "\u2215", "\u2044", "\ufb01", "\u00fc", "\u00e4", "e\u0301", "\u212b",
             "a", "b", "Z", "0", "9", "txt", "CON", "NUL", ".", "~", "%2e", ":", "\ud800", "\U0001f600", "\uff21", "\uff10"])
SF_CORPUS = ["My cool movie.mov", "../../../etc/passwd", "i contain cool \xfcml\xe4uts.txt", "", ".", "..", "._.", "__a__",
             "\uff0e\uff0e\uff0f\uff45\uff54\uff43\uff0f\uff50\uff41\uff53\uff53\uff57\uff44", "\u2024\u2024/x", "a\x1cb", "a\xa0b",
             "\ud800abc", "a\x00b", "\uff3c..\uff3c", " .bashrc", "\t_x_\n", "a  b", "con.txt", "\u2025/\u2026", "-.-", "._a_."]


def _gen_sf(rng) -> str:
    return "".join(rng.choice(SF_ALPHA) for _ in range(rng.randint(0, 8)))


def _mk_tree():
    """temporary tree: <T>/root is served; sentinels live outside it.  Every file's content names it."""
    top = tempfile.mkdtemp(prefix="c14_")
    T = os.path.join(top, "deep", "er")          # so that relative bases with .. stay inside the scratch area
    os.makedirs(T)
    inside, outside = {}, set()

    def put(rel, is_inside):
        path = os.path.join(T, rel)
        os.makedirs(os.path.dirname(path), exist_ok=True)
        content = ("INSIDE:" if is_inside else "SENTINEL-OUTSIDE:") + rel
        with open(path, "w", encoding="utf-8") as f:
            f.write(content)
        if is_inside:
            inside[content.encode()] = rel
        else:
            outside.add(content.encode())
    for rel in ["index.txt", "sub/inner.txt", "..a", "a..", ".../x.txt", ".hidden", "a.b.c", "~", "C:", "%2e%2e", "a/b",
                "\\", "..\\", "a", "...x"][:]:
        if rel == "a":      # "a" is a directory (a/b exists)
            continue
        put("root/" + rel, True)
    put("outside_sentinel.txt", False)
    put("out\nside/secret.txt", False)            # a line feed in a directory name next to the root ...
    put("out\rside/secret.txt", False)
    put("root/in\nside/ok.txt", True)              # ... and one inside it (must be served)
    put("rootx/index.txt", False)                # prefix-confusable sibling
    put("index.txt", False)
    put("pkgs/outside_sentinel.txt", False)
    put("pkgs/c14pkg/outside_sentinel.txt", False)
    with open(os.path.join(T, "pkgs", "c14pkg", "__init__.py"), "w") as f:
        f.write("")
    for rel in ["index.txt", "sub/inner.txt", "..a"]:
        path = os.path.join(T, "pkgs", "c14pkg", "data", rel)
        os.makedirs(os.path.dirname(path), exist_ok=True)
        content = "INSIDE:pkg/" + rel
        with open(path, "w") as f:
            f.write(content)
        inside[content.encode()] = "pkg/" + rel
    # a package exported as a whole (empty package_path), with a sentinel module next to it
    for rel, content in [("__init__.py", '"""INSIDE:whole/__init__.py"""\n'), ("a.txt", "INSIDE:whole/a.txt"),
                         ("sub/b.txt", "INSIDE:whole/sub/b.txt"), ("..a", "INSIDE:whole/..a")]:
        path = os.path.join(T, "pkgs", "c14whole", rel)
        os.makedirs(os.path.dirname(path), exist_ok=True)
        with open(path, "w") as f:
            f.write(content)
        inside[content.encode()] = "whole/" + rel
    put("pkgs/c14secret.py", False)
    with open(os.path.join(top, "outside_sentinel.txt"), "w") as f:
        f.write("SENTINEL-OUTSIDE:top")
    outside.add(b"SENTINEL-OUTSIDE:top")
    return top, T, inside, outside


def _body(resp_iter) -> bytes:
    try:
        return b"".join(resp_iter)
    finally:
        close = getattr(resp_iter, "close", None)
        if close:
            close()


def run(chk: Check) -> None:
    import werkzeug.security as wsec
    import werkzeug.utils as wutils
    from werkzeug.exceptions import NotFound
    from werkzeug.middleware.shared_data import SharedDataMiddleware
    from werkzeug.test import EnvironBuilder

    rng = chk.rng
    quick = chk.tier == "quick"
    if os.sep != "/" or os.path.altsep is not None or os.name == "nt":
        chk.broken("environment", "POSIX path semantics", "the check assumes a POSIX host as the property does")
        return

    lines: list[str] = []
    impl_out: list[str] = []

    # ------------------------------------------------ posixpath model vs the interpreter
    np_cases = list(COMPONENTS) + [b for bs in BASES.values() for b in bs]
    np_alpha = ["/", "/", ".", "..", "a", "b.c", "", "\x00", "\\", "//", "...", "..a", "~", "\n", "\r", "\x85"]
    for _ in range(3000 if quick else 60000):
        np_cases.append("".join(rng.choice(np_alpha) + rng.choice(["", "/", "/", "//"]) for _ in range(rng.randint(0, 7))))
    for s in np_cases:
        lines.append("np " + cps(s))
        impl_out.append(cps(posixpath.normpath(s)))
        lines.append("abs " + cps(s))
        impl_out.append("1" if posixpath.isabs(s) else "0")
        chk.case(("np", s), nontrivial=len(s) > 0)
    chk.count("posixpath.normpath/isabs", len(np_cases))
    jn_pool = COMPONENTS + ["/srv", "static/", ""]
    for _ in range(3000 if quick else 60000):
        parts = [rng.choice(jn_pool) for _ in range(rng.randint(1, 4))]
        lines.append("jn " + " ".join(cps(p) for p in parts))
        impl_out.append(cps(posixpath.join(*parts)))
        chk.case(("jn", tuple(parts)), nontrivial=True)
    chk.count("posixpath.join", 3000 if quick else 60000)

    # ------------------------------------------------ safe_join: tuples of components x base kinds
    def sj_case(kind, d, cs):
        try:
            got = with_timeout(wsec.safe_join, 5, d, *cs)
        except ImplTimeout:
            chk.fail("safe_join-hangs", "safe_join did not return", {"op": "safe_join", "directory": d, "components": list(cs)})
            got = "timeout"
        except Exception as e:  # noqa: BLE001
            chk.fail("safe_join-raises", f"safe_join raised {type(e).__name__}: {e}",
                     {"op": "safe_join", "directory": d, "components": list(cs)})
            got = "exn"
        lines.append(_sj_line(d, cs))
        if got is None:
            impl_out.append("none")
            chk.count(f"safe_join:{kind}:refused")
        elif isinstance(got, str) and got not in ("timeout", "exn"):
            bad = contained(d, got)
            impl_out.append("ok " + cps(got) + " " + ("0" if bad else "1"))
            chk.count(f"safe_join:{kind}:joined")
            if bad:
                chk.fail("safe_join-escapes", bad, {"op": "safe_join", "directory": d, "components": list(cs), "result": got})
        else:
            impl_out.append(str(got))
        chk.case(("sj", d, tuple(cs)), nontrivial=True,
                 sample={"op": "safe_join", "directory": d, "components": list(cs), "impl": got})

    # corpus first (replays of past probes and of the mutants this check was validated against)
    corpus = _corpus()
    if not corpus.get("safe_join"):
        chk.notes.append("corpus/C14/cases.json missing or empty")
    for d, cs in corpus.get("safe_join", []):
        sj_case("corpus", d, cs)
    n3 = 0
    for kind, bases in BASES.items():
        for d in bases:
            for c in COMPONENTS:
                sj_case(kind, d, (c,))
            for c1 in COMPONENTS:
                for c2 in COMPONENTS:
                    sj_case(kind, d, (c1, c2))
            # 3 components: exhaustive over the property's atoms
            for cs in itertools.product(ATOMS, repeat=3):
                sj_case(kind, d, cs)
                n3 += 1
    # ... and sampled over the assembled components
    allb = [(k, d) for k, bs in BASES.items() for d in bs]
    for _ in range(30000 if quick else 600000):
        kind, d = rng.choice(allb)
        sj_case(kind, d, tuple(rng.choice(COMPONENTS) for _ in range(3)))
        n3 += 1
    chk.count("safe_join:3-component tuples", n3)

    # ------------------------------------------------ secure_filename
    try:
        for c in range(128):
            if unicodedata.normalize("NFKD", chr(c)) != chr(c):
                chk.broken("contract", "NFKD identity on ASCII", f"fails on code point {c}")
        for _ in range(300):
            s = "".join(chr(rng.randrange(128)) for _ in range(rng.randint(0, 12)))
            if unicodedata.normalize("NFKD", s) != s:
                chk.broken("contract", "NFKD identity on ASCII", f"fails on {s!r}")
    except Exception as e:  # noqa: BLE001
        chk.broken("contract", "NFKD identity on ASCII", repr(e))
    sf_cases = list(corpus.get("secure_filename", [])) + list(SF_CORPUS) + COMPONENTS
    hi = 0x3100 if quick else 0x30000
    sf_cases += [chr(c) for c in range(hi)] + ["a" + chr(c) + "b" for c in range(0, hi, 1 if not quick else 7)]
    sf_cases += [chr(c) for c in (0xFF0E, 0xFF0F, 0xFF3C, 0xFE52, 0xFE68, 0x1F600, 0x10FFFF, 0xE0020, 0xDFFF)]
    # long names: around the usual 255 limit of file systems and far beyond it, with strippable characters at the positions a
    # length cut would expose, and names whose length changes under NFKD / the ASCII filter / blank joining
    for L in range(250, 301, 1 if not quick else 3):
        sf_cases.append("a" * L)
        sf_cases.append("a" * (L - 4) + ".txt")
    for pos in range(250, 260):
        for run in (".", "_", "-", "..", "._", "_.", "...", "-.", ".-"):
            sf_cases.append("a" * pos + run + "b" * (300 - pos))
            sf_cases.append("a" * pos + run + "b")
    sf_cases += ["a" * 1000, "a" * 254 + "." + "b" * 1000, ("ab." * 400), ("x_" * 700), "." * 300 + "a" * 300 + "." * 300,
                 "\u00e9" * 300, "\ufb01" * 150, "\uff41" * 254 + "\uff0e" + "\uff42" * 50, "a " * 150, ("a\t.\t") * 90,
                 "\u00e9" * 254 + "." + "\u00e9" * 10, "\U0001f600" * 300 + "a" * 254 + "_" + "b", "a" * 253 + "\u2024\u2024" + "b" * 10]
    for _ in range(150 if quick else 3000):
        n = rng.randint(240, 320) if rng.random() < 0.8 else rng.randint(900, 1400)
        sf_cases.append("".join(rng.choice(["a", "b", "Z", "0", ".", "_", "-", " ", "\u00e9", "\uff0e", "/", "\ufb01"]) for _ in range(n)))
    for _ in range(6000 if quick else 120000):
        sf_cases.append(_gen_sf(rng))
    allowed = re.compile(r"[A-Za-z0-9_.-]*\Z")
    for s in sf_cases:
        inp = {"op": "secure_filename", "filename": s}
        try:
            r = with_timeout(wutils.secure_filename, 5, s)
        except Exception as e:  # noqa: BLE001
            chk.fail("secure_filename-raises", f"secure_filename raised {type(e).__name__}", inp)
            lines.append("sf " + cps(unicodedata.normalize("NFKD", s)))
            impl_out.append("exn")
            continue
        if not r.isascii() or not allowed.match(r):
            chk.fail("secure_filename-alphabet", f"result {r!r} has a character outside [A-Za-z0-9_.-]", inp)
        elif r.startswith("."):
            chk.fail("secure_filename-leading-dot", f"result {r!r} starts with a dot", inp)
        elif any(ch in r for ch in "/\\\x00") or any(ch.isspace() for ch in r):
            chk.fail("secure_filename-separator", f"result {r!r} has a separator, blank or NUL", inp)
        else:
            r2 = wutils.secure_filename(r)
            if r2 != r:
                chk.fail("secure_filename-not-idempotent", f"secure_filename({r!r}) = {r2!r}", inp)
        lines.append("sf " + cps(unicodedata.normalize("NFKD", s)))
        impl_out.append(cps(r))
        chk.count("secure_filename:empty-result" if not r else "secure_filename:non-empty")
        chk.case(("sf", s), nontrivial=len(s) > 0, sample={"op": "secure_filename", "filename": s, "impl": r} if len(s) > 3 else None)

    # ------------------------------------------------ secure_filename as on Windows (os.name / os.sep / os.path.altsep patched)
    devices = {"CON", "PRN", "AUX", "NUL"} | {f"COM{i}" for i in range(10)} | {f"LPT{i}" for i in range(10)}
    nt_cases = (["CON", "con", "con.txt", "nul", "NUL.tar.gz", "aux", "LPT9", "lpt1.x", "COM0", "com10", "CONX", ".CON", "_CON", "C\\ON",
                 "a/b\\c", "..\\..\\con", "con .txt", "prn.", "  nul  ", "\uff23\uff2f\uff2e", "c\u00f6n", "", "a\\", "\\con", "x/CON"]
                + list(corpus.get("secure_filename_nt", [])))
    nt_alpha = ["CON", "con", "nul", "aux", "prn", "COM1", "lpt9", ".", "..", "\\", "/", " ", "_", "-", "txt", "a", "1", "\uff0e", "\xe9", ":", "\x00"]
    for _ in range(2500 if quick else 40000):
        nt_cases.append("".join(rng.choice(nt_alpha) for _ in range(rng.randint(1, 5))))
    real_os = wutils.os
    fake_os = types.SimpleNamespace(sep="\\", name="nt", path=types.SimpleNamespace(altsep="/"))
    try:
        wutils.os = fake_os
        for s_ in nt_cases:
            inp = {"op": "secure_filename", "os.name": "nt", "filename": s_}
            try:
                r = with_timeout(wutils.secure_filename, 5, s_)
            except Exception as e:  # noqa: BLE001
                chk.fail("secure_filename-nt-raises", f"secure_filename raised {type(e).__name__} with os.name == 'nt'", inp)
                continue
            if r and r.split(".")[0].upper() in devices:
                chk.fail("secure_filename-nt-device-name", f"result {r!r} is a Windows device name", inp)
            if not r.isascii() or not allowed.match(r) or any(ch in r for ch in "/\\\x00"):
                chk.fail("secure_filename-nt-alphabet", f"result {r!r} has a separator or a character outside [A-Za-z0-9_.-]", inp)
            lines.append("sfos 1 " + cps(unicodedata.normalize("NFKD", s_)))
            impl_out.append(cps(r))
            chk.count("secure_filename:nt:prefixed" if r.startswith("_") else "secure_filename:nt:plain")
            chk.case(("sfnt", s_), nontrivial=len(s_) > 0)
    finally:
        wutils.os = real_os

    # ------------------------------------------------ end to end over a temporary tree
    _e2e(chk, wutils, SharedDataMiddleware, EnvironBuilder, NotFound, corpus)

    # ------------------------------------------------ model side
    exe = chk.build_modelrun("C14")
    if exe:
        res = chk.run_model(exe, lines)
        if res is not None:
            mism = 0
            for ln, a, b in zip(lines, impl_out, res):
                if a != b:
                    mism += 1
                    if mism <= 5:
                        chk.broken("correspondence", "C14 model vs werkzeug/posixpath", f"case {ln!r}: impl {a!r} model {b!r}",
                                   case={"line": ln, "impl": a, "model": b})
            chk.count("model:compared", len(lines))
            chk.count("model:mismatches", mism)


def _e2e(chk, wutils, SharedDataMiddleware, EnvironBuilder, NotFound, corpus) -> None:
    import importlib
    import sys
    quick = chk.tier == "quick"
    rng = chk.rng
    top, T, inside, outside = _mk_tree()
    cwd0 = os.getcwd()
    root = os.path.join(T, "root")
    sys.path.insert(0, os.path.join(T, "pkgs"))
    importlib.invalidate_caches()
    try:
        environ = EnvironBuilder(path="/").get_environ()
        # paths that really reach a sentinel if containment breaks
        reach = ["../outside_sentinel.txt", "sub/../../outside_sentinel.txt", os.path.join(T, "outside_sentinel.txt"),
                 "/" + os.path.join(T, "outside_sentinel.txt"), "../rootx/index.txt", "../index.txt", "..", "../",
                 "../../../outside_sentinel.txt", "..a/../../outside_sentinel.txt", "./../outside_sentinel.txt",
                 "a/../../outside_sentinel.txt", ".../../../outside_sentinel.txt", "sub/../..//outside_sentinel.txt",
                 "../root/index.txt", "sub/../../root/index.txt", "\\/../../outside_sentinel.txt",
                 "../out\nside/secret.txt", "sub/../../out\nside/secret.txt", "../out\rside/secret.txt",
                 os.path.join(T, "out\nside", "secret.txt"), "in\nside/ok.txt", "in\nside/../../out\nside/secret.txt",
                 "\u2025/rootx/index.txt", "\uff0e\uff0e/rootx/index.txt", "sub/\u2025/\u2025/index.txt", "\u2024\u2024/index.txt",
                 "\uff0e\uff0e\uff0frootx\uff0findex.txt", "..\uff0frootx/index.txt", "\u2026/\u2025/\u2025/outside_sentinel.txt"]
        tails = ["outside_sentinel.txt", "index.txt", "rootx/index.txt", "root/index.txt", "inner.txt", "x.txt", "b"]
        paths: list[tuple[str, ...]] = [tuple(p) for p in corpus.get("request_paths", [])] + [(p,) for p in reach + COMPONENTS]
        paths += [(a, b) for a in COMPONENTS for b in tails] if not quick else []
        paths += [(a, b) for a in ["..", "../", "a/..", "sub/../..", "", ".", "/", "//", "sub", "...", "..a", "a..", "\\", "~", "\x00", "%2e%2e"]
                  for b in reach[:6] + tails + ["..", "../outside_sentinel.txt"]]
        for _ in range(2500 if quick else 20000):
            paths.append(tuple(rng.choice(COMPONENTS + tails + reach) for _ in range(rng.randint(1, 3))))

        def judge(where, status, body, inp):
            if body in outside or body.startswith(b"SENTINEL-OUTSIDE"):
                chk.fail(f"{where}-serves-outside", f"{where} served a file outside its root: {body[:60]!r}", inp)
                return
            if status == 200:
                if body not in inside:
                    chk.fail(f"{where}-serves-unknown", f"{where} answered 200 with content that is no file under the root: {body[:60]!r}", inp)
                chk.count(f"e2e:{where}:200")
            else:
                chk.count(f"e2e:{where}:{status}")

        # send_from_directory with every base kind that denotes <T>/root
        bases = [("absolute", root, T), ("absolute", root + "/", T), ("absolute", os.path.join(T, "rootx", "..", "root"), T),
                 ("relative", "root", T), ("relative", "./root/", T), ("relative", "../root", os.path.join(T, "rootx")),
                 ("relative", "..", os.path.join(root, "sub")), ("empty", "", root), ("relative", ".", root)]
        for kind, base, cwd in bases:
            os.chdir(cwd)
            for cs in paths:
                path = "/".join(cs)
                inp = {"op": "send_from_directory", "directory": base.replace(T, "<T>"), "cwd": cwd.replace(T, "<T>"),
                       "path": path.replace(T, "<T>")}
                try:
                    resp = with_timeout(wutils.send_from_directory, 5, base, path, environ)
                    status, body = resp.status_code, _body(resp.response)
                    resp.close()
                except NotFound:
                    status, body = 404, b""
                except ImplTimeout:
                    chk.fail("send_from_directory-hangs", "send_from_directory did not return", inp)
                    continue
                except Exception as e:  # noqa: BLE001
                    chk.fail("send_from_directory-raises", f"send_from_directory raised {type(e).__name__}: {e} (neither a file nor a 404)", inp)
                    continue
                judge("send_from_directory", status, body, inp)
                chk.case(("sfd", base, cwd.replace(T, ""), path), nontrivial=True)
        # the root base: everything is inside "/" by definition; one sanity pair
        os.chdir(T)
        for path, want in [(root[1:] + "/index.txt", 200), ("../" + root[1:] + "/index.txt", 404)]:
            try:
                st = wutils.send_from_directory("/", path, environ).status_code
            except NotFound:
                st = 404
            if st != want:
                chk.fail("send_from_directory-root-base", f"base '/' path {path!r}: status {st}, expected {want}", {"path": path})
            chk.case(("sfd-root", path), nontrivial=True)

        # SharedDataMiddleware: directory, directory with trailing slash in the export key, package, single file
        def fallback(environ, start_response):
            start_response("404 NOT FOUND", [("Content-Type", "text/plain")])
            return [b"FALLBACK"]
        os.chdir(T)
        mw = SharedDataMiddleware(fallback, {"/static": root, "/s2/": root, "/pkg": ("c14pkg", "data"),
                                             "/file": os.path.join(root, "index.txt"), "/rel": "root", "/whole": ("c14whole", "")})
        whole_reach = [("../c14secret.py",), ("../outside_sentinel.txt",), ("sub/../../c14secret.py",), ("..", "c14secret.py"),
                       (os.path.join(T, "pkgs", "c14secret.py"),), ("/" + os.path.join(T, "pkgs", "c14secret.py"),),
                       ("a.txt",), ("sub/b.txt",), ("__init__.py",), ("./a.txt",), ("sub/../a.txt",), ("..a",), ("../c14whole/a.txt",)]
        for prefix in ["/static", "/s2", "/pkg", "/file", "/rel", "", "/static/..", "/pkg/../static", "/whole"]:
            for cs in (paths + whole_reach if prefix == "/whole" else paths):
                url_path = prefix + "/" + "/".join(cs)
                inp = {"op": "SharedDataMiddleware", "PATH_INFO": url_path.replace(T, "<T>")}
                env = dict(environ)
                # the server hands over the percent-decoded path, as latin-1 text
                env["PATH_INFO"] = url_path.encode("utf-8", "surrogatepass").decode("latin-1")
                seen = {}

                def start_response(status, headers, exc_info=None, seen=seen):
                    seen["status"] = int(status.split()[0])
                try:
                    body = with_timeout(lambda: _body(mw(env, start_response)), 5)
                except ImplTimeout:
                    chk.fail("shared_data-hangs", "SharedDataMiddleware did not return", inp)
                    continue
                except Exception as e:  # noqa: BLE001
                    chk.fail("shared_data-raises", f"SharedDataMiddleware raised {type(e).__name__}: {e}", inp)
                    continue
                if body == b"FALLBACK":
                    chk.count("e2e:shared_data:fallback")
                else:
                    judge("shared_data", seen.get("status"), body, inp)
                chk.case(("sdm", url_path), nontrivial=True)

        # the model of the export loop (directory exports): it lists the paths whose isfile test decides, in order;
        # the file system answers here, and the first existing candidate must be the file the middleware serves
        dir_exports = {"/static": root, "/s2/": root, "/rel": "root", "/static/sub": os.path.join(root, "sub"), "/a": root,
                       "/ab/": root + "/"}
        mw2 = SharedDataMiddleware(fallback, dict(dir_exports))
        sdm_lines, sdm_impl = [], []
        for prefix in ["/static", "/s2", "/rel", "/static/sub", "/a", "/ab", "/abc", "", "/static/..", "/s2/.."]:
            for cs in paths[:: (1 if not quick else 2)]:
                for url_path in (prefix + "/" + "/".join(cs), prefix + "/".join(cs)):
                    if "\ud800" in url_path or " " in url_path:
                        continue
                    env = dict(environ)
                    env["PATH_INFO"] = url_path.encode("utf-8").decode("latin-1")
                    try:
                        body = with_timeout(lambda: _body(mw2(env, lambda *a, **k: None)), 5)
                    except Exception as e:  # noqa: BLE001
                        body = ("<raised %s>" % type(e).__name__).encode()
                    sdm_lines.append("sdm " + cps(url_path) + "".join(f" {cps(k)}={cps(v)}" for k, v in dir_exports.items()))
                    sdm_impl.append((url_path, body))
        exe = chk.build_modelrun("C14")
        res = chk.run_model(exe, sdm_lines) if exe else None
        if res is not None:
            mism = 0
            for (url_path, body), r in zip(sdm_impl, res):
                cands = [] if r == "none" else [uncps(x) for x in r.split("|")]
                want = b"FALLBACK"
                for c in cands:
                    if os.path.isfile(c):
                        with open(c, "rb") as fh:
                            want = fh.read()
                        break
                if want != body:
                    mism += 1
                    if mism <= 5:
                        chk.broken("correspondence", "C14 model of SharedDataMiddleware's export loop",
                                   f"PATH_INFO {url_path!r}: implementation served {body[:50]!r}, model candidates {cands!r} give {want[:50]!r}",
                                   case={"PATH_INFO": url_path.replace(T, "<T>"), "impl": repr(body[:80]), "model": [c.replace(T, "<T>") for c in cands]})
                chk.case(("sdm-model", url_path), nontrivial=True)
            chk.count("model:shared_data export loop compared", len(sdm_lines))
            chk.count("model:shared_data export loop mismatches", mism)

        # ... and over every kind of export: directory, single file, package (resource reader)
        configs = [
            ("c14pkg", {"/static": ("D", root), "/pkg": ("P", "data"), "/file": ("F", os.path.join(root, "index.txt")),
                        "/pkg2/": ("P", "data/sub"), "/f2/": ("F", os.path.join(root, "sub", "inner.txt")), "/static/pkg": ("P", "data")},
             ["/static", "/pkg", "/file", "/pkg2", "/f2", "/static/pkg", "/pkgx", "/pkg/.."], paths[:: (2 if not quick else 4)]),
            # a package exported as a whole: package_path is the empty string
            ("c14whole", {"/whole": ("P", ""), "/w2/": ("P", ""), "/whole/sub": ("P", "sub")},
             ["/whole", "/w2", "/whole/sub", "/wholex"], paths[:: (2 if not quick else 3)] + whole_reach),
        ]
        for pkgname, all_exports, prefixes, plist in configs:
          pkg_dir = os.path.join(T, "pkgs", pkgname)
          mw3 = SharedDataMiddleware(fallback, {k: ((pkgname, v) if kind == "P" else v) for k, (kind, v) in all_exports.items()})
          a_lines, a_impl = [], []
          for prefix in prefixes:
            for cs in plist:
                for url_path in (prefix + "/" + "/".join(cs), prefix + "/".join(cs)):
                    if "\ud800" in url_path or " " in url_path:
                        continue
                    env = dict(environ)
                    env["PATH_INFO"] = url_path.encode("utf-8").decode("latin-1")
                    try:
                        body = with_timeout(lambda: _body(mw3(env, lambda *a, **k: None)), 5)
                    except Exception as e:  # noqa: BLE001
                        body = ("<raised %s>" % type(e).__name__).encode()
                    a_lines.append("sdma " + cps(url_path) + "".join(f" {cps(k)}={kind}:{cps(v)}" for k, (kind, v) in all_exports.items()))
                    a_impl.append((url_path, body))
          res = chk.run_model(exe, a_lines) if exe else None
          if res is not None:
              mism = 0
              for (url_path, body), r in zip(a_impl, res):
                  cands = [] if r == "none" else [(x[0], uncps(x[2:])) for x in r.split("|")]
                  want = b"FALLBACK"
                  for kind, c in cands:
                      real = os.path.join(pkg_dir, c) if kind == "R" else c
                      try:
                          ok = True if kind == "X" else os.path.isfile(real)
                      except ValueError:
                          ok = False
                      if ok:
                          with open(real, "rb") as fh:
                              want = fh.read()
                          break
                  if want != body:
                      mism += 1
                      if mism <= 5:
                          chk.broken("correspondence", "C14 model of SharedDataMiddleware's export loop (all export kinds)",
                                     f"PATH_INFO {url_path!r}: implementation served {body[:50]!r}, model candidates {cands!r} give {want[:50]!r}",
                                     case={"PATH_INFO": url_path.replace(T, "<T>"), "impl": repr(body[:80])})
                  if body not in (b"FALLBACK",) and (body in outside or body.startswith(b"SENTINEL-OUTSIDE")):
                      chk.fail("shared_data-serves-outside", f"shared_data served a file outside its export: {body[:60]!r}",
                               {"op": "SharedDataMiddleware", "PATH_INFO": url_path.replace(T, "<T>")})
                  chk.case(("sdm-model-all", url_path), nontrivial=True)
              chk.count("model:shared_data all export kinds compared", len(a_lines))
              chk.count("model:shared_data all export kinds mismatches", mism)
    finally:
        os.chdir(cwd0)
        try:
            sys.path.remove(os.path.join(T, "pkgs"))
        except ValueError:
            pass
        sys.modules.pop("c14pkg", None)
        sys.modules.pop("c14whole", None)
        shutil.rmtree(top, ignore_errors=True)


def replay(rep) -> int:
    """re-run a replay file's input on the implementation and print what is observed."""
    import json
    import werkzeug.security as wsec
    import werkzeug.utils as wutils
    inp = rep.get("input") or {}
    print(json.dumps({k: rep.get(k) for k in ("property", "kind", "key", "what")}, indent=1))
    op = inp.get("op") if isinstance(inp, dict) else None
    if op == "safe_join":
        got = wsec.safe_join(inp["directory"], *inp["components"])
        print(f"safe_join({inp['directory']!r}, *{inp['components']!r}) = {got!r}")
        if got is not None:
            bad = contained(inp["directory"], got)
            print("oracle:", bad or "contained")
            return 1 if bad else 0
        return 0
    if op == "secure_filename":
        r = wutils.secure_filename(inp["filename"])
        print(f"secure_filename({inp['filename']!r}) = {r!r}; again = {wutils.secure_filename(r)!r}")
        ok = re.fullmatch(r"[A-Za-z0-9_.-]*", r) and not r.startswith(".") and wutils.secure_filename(r) == r
        return 0 if ok else 1
    if op in ("send_from_directory", "SharedDataMiddleware"):
        from werkzeug.exceptions import NotFound
        from werkzeug.middleware.shared_data import SharedDataMiddleware
        from werkzeug.test import EnvironBuilder
        import importlib
        import sys
        top, T, inside, outside = _mk_tree()
        cwd0 = os.getcwd()
        sys.path.insert(0, os.path.join(T, "pkgs"))
        importlib.invalidate_caches()
        try:
            environ = EnvironBuilder(path="/").get_environ()
            root = os.path.join(T, "root")
            if op == "send_from_directory":
                os.chdir(inp["cwd"].replace("<T>", T))
                try:
                    resp = wutils.send_from_directory(inp["directory"].replace("<T>", T), inp["path"].replace("<T>", T), environ)
                    status, body = resp.status_code, _body(resp.response)
                except NotFound:
                    status, body = 404, b""
            else:
                os.chdir(T)

                def fallback(environ, start_response):
                    start_response("404 NOT FOUND", [])
                    return [b"FALLBACK"]
                mw = SharedDataMiddleware(fallback, {"/static": root, "/s2/": root, "/pkg": ("c14pkg", "data"),
                                                     "/file": os.path.join(root, "index.txt"), "/rel": "root"})
                env = dict(environ)
                env["PATH_INFO"] = inp["PATH_INFO"].replace("<T>", T).encode("utf-8", "surrogatepass").decode("latin-1")
                seen = {}
                body = _body(mw(env, lambda st, h, e=None: seen.update(status=int(st.split()[0]))))
                status = seen.get("status")
            print(f"{op}: status {status}, body {body[:80]!r}")
            bad = body in outside or body.startswith(b"SENTINEL-OUTSIDE") or (status == 200 and body != b"FALLBACK" and body not in inside)
            print("oracle:", "served a file outside the root" if bad else "fine")
            return 1 if bad else 0
        except Exception as e:  # noqa: BLE001
            print(f"{op} raised {type(e).__name__}: {e}")
            return 1
        finally:
            os.chdir(cwd0)
            try:
                sys.path.remove(os.path.join(T, "pkgs"))
            except ValueError:
                pass
            sys.modules.pop("c14pkg", None)
            sys.modules.pop("c14whole", None)
            shutil.rmtree(top, ignore_errors=True)
    print("input:", json.dumps(inp, indent=1, default=repr))
    return 0


def main(chk: Check) -> None:
    try:
        gen()
    except px.Unsupported as e:
        chk.broken("translator", "C14/Gen.v", str(e))
    chk.forbidden_scan()
    if chk.coq_make(["C14/Proofs.vo", "C14/Extract.vo"]):
        chk.audit_props("C14/Props.v")
    else:
        chk.cov["obligations"] += 1
    chk.trusted += [
        "translator tools/c14.py + tools/pyextract.py (safe_join's conditions through a fail-closed expression translator with the atoms "
        "startswith / == / != / os.path.isabs / any(sep in filename for sep in _os_alt_seps); statement skeletons of safe_join and "
        "secure_filename pinned by ast.unparse; _filename_ascii_strip_re -> table via CPython re)",
        "POSIX host: os.sep '/', os.path.altsep None, os.name != 'nt' (the property assumes Windows separators away); os.path = posixpath",
        "hand-written model of posixpath.normpath / join / isabs (coq/C14/LibPath.v), validated by differential execution against the interpreter",
        "section variable nfkd (unicodedata.normalize('NFKD')) with contract: identity on ASCII strings; checked on all 128 ASCII characters and random ASCII strings every run",
        "str.split() white space = the interpreter's 29 code points (lib/Bytes.uni_ws)",
        "extraction ExtrOcamlBasic + tools/conv.ml + coq/C14/driver.ml, OCaml 4.13.1",
        "statement pin tools/pins/c14_paths.txt: safe_join, secure_filename, send_from_directory, send_file's signature / path handling / open, "
        "wsgi.get_path_info and the whole SharedDataMiddleware class as normalised source text, with holes at the translated conditions",
        "validated differentially only (CPython library code, not werkzeug code, no pin): posixpath.normpath/join/isabs/basename, os.path.isfile, "
        "unicodedata.normalize, mimetypes, importlib resource readers",
        "file-system resolution (symlinks, os.path.isfile, importlib resource readers) is runtime: os.path.isfile is a section variable of the "
        "send_from_directory / SharedDataMiddleware theorems; the model lists the candidate paths and the harness asks the real file system; "
        "the package resource reader is the `available` section variable of C14_shared_data_all_exports; the _root_path keyword of "
        "send_from_directory (internal; a relative value is joined twice and ends in FileNotFoundError) and the cache / mimetype options are exercised end to end only",
        "the Windows branch of secure_filename is run on this POSIX host with werkzeug.utils.os replaced by a namespace (sep '\\\\', altsep '/', name 'nt')",
    ]
    try:
        run(chk)
    except Exception:  # noqa: BLE001  (a harness crash must still end in a verdict)
        import traceback
        chk.broken("harness", "tools/c14.py run()", traceback.format_exc())
    chk.finish(rule="safe_join: every 1- and 2-component tuple over the property's atoms and assembled components x every base "
                    "(absolute, relative, empty, root), every 3-component tuple over the atoms, 3-component tuples over assembled components sampled; posixpath model vs "
                    "interpreter on the same components plus random slash/dot strings; secure_filename on every code point below 0x3100 "
                    "(quick) / 0x30000 (thorough), embedded forms and random strings over separators, fullwidth and compatibility forms; "
                    "end to end: send_from_directory (9 base spellings incl. relative with cwd changes and the empty base) and "
                    "SharedDataMiddleware (directory, package, file exports) over a temporary tree with sentinels outside the root. "
                    "A case is non-trivial if its input is non-empty; distinct by hash of the case tuple.",
               level_extra={"exhaustive": "safe_join: 1- and 2-component tuples over atoms and assembled components x all 16 bases; "
                                          "3-component tuples over the 21 atoms x all 16 bases"})
