"""C09  The request body stream never over-reads, truncates or hangs."""
from __future__ import annotations

import ast
import copy
import io
import os
import re

from . import pyextract as px
from .vlib import COQ, Check, ImplTimeout, cps, hexs, with_timeout

PID = "C09"
CLAIM = dict(
    text="Coq theorems over an executable model of wsgi.LimitedStream (readinto on both buffer kinds, read, readall, exhaust, "
         "readline, readlines over an underlying stream given as data plus an arbitrary schedule of short reads and failures) and "
         "of get_input_stream / get_content_length / _plain_int: the _pos invariant (bytes handed out = bytes taken from the "
         "underlying stream, a prefix of the data, never past the limit) for every operation sequence and schedule, exact "
         "conditions for ClientDisconnected / RequestEntityTooLarge and no other error, termination bound of readall, and the "
         "wrapper decision table. The decision functions, the comparisons and constants of readinto/readall and the regex pin are "
         "regenerated from the source on every run (T2); the control flow is compared differentially (extracted OCaml model vs "
         "werkzeug, ~30k cases per quick run) together with impl-level oracles under io.BufferedReader / TextIOWrapper wrapping.",
    note="Trusted: Coq kernel; translator tools/c09.py (atom tables); ExtrOcamlBasic extraction + driver; io.RawIOBase.read / "
         "IOBase.readline / readlines modelled by hand as loops over readinto / read(1) (validated differentially); "
         "io.BufferedReader and TextIOWrapper are exercised by the harness only (they call readinto with sizes of their own choosing, "
         "which the invariant theorem quantifies over); limits are non-negative; CPython's 4300-digit int() limit is outside the domain. "
         "On a limit-is-maximum stream a body of exactly max bytes is reported as too large (the end cannot be seen without reading past the maximum).",
    design="6/C09")


# ====================================================================== T2 translator (shared with c19.py)

class T2:
    """Structural translation of a Python function body made of if / elif / else, return, raise,
    pinned assignments and boolean / integer expressions into one Gallina term.  Leaves are mapped
    through an explicit atom table keyed by the normalised `ast.unparse` text; anything else raises
    px.Unsupported (fail closed)."""

    CMP = {ast.LtE: "<=?", ast.Lt: "<?", ast.GtE: ">=?", ast.Gt: ">?", ast.Eq: "=?"}

    def __init__(self, name, atoms, ret=None, exc=None, fall=None, binds=None, type_error=None, int_scope="Z",
                 raising=None, handlers=None):
        self.name = name
        self.atoms = atoms            # text -> (type, coq); type in bool | pbool | int | val
        self.ret = ret or (lambda c: c)
        self.exc = exc or {}          # text of the raised expression -> coq result
        self.fall = fall              # coq result when control falls off the end (None: Unsupported)
        self.binds = binds or {}      # (target, value text) -> None (pinned, no effect on the decision) | fn(cont_text) -> text
        self.type_error = type_error  # coq result for a pbool test evaluating to None
        self.int_scope = int_scope
        self.raising = raising or {}  # text -> (scrutinee of type res X, binder, value text)   (inside try/except)
        self.handlers = handlers or {}  # exception class name -> exn constructor

    def bad(self, what):
        return px.Unsupported(f"{self.name}: {what}")

    def expr(self, n):
        txt = ast.unparse(n)
        if txt in self.atoms:
            return self.atoms[txt]
        if isinstance(n, ast.Constant) and isinstance(n.value, bool):
            return ("bool", "true" if n.value else "false")
        if isinstance(n, ast.Constant) and isinstance(n.value, int):
            return ("int", f"{n.value}")
        if isinstance(n, ast.BoolOp):
            parts = [self.expr(v) for v in n.values]
            if any(t != "bool" for t, _ in parts):
                raise self.bad(f"non-boolean operand in {txt!r}")
            op = " && " if isinstance(n.op, ast.And) else " || "
            return ("bool", "(" + op.join(c for _, c in parts) + ")")
        if isinstance(n, ast.UnaryOp) and isinstance(n.op, ast.Not):
            t, c = self.expr(n.operand)
            if t != "bool":
                raise self.bad(f"not on a non-boolean in {txt!r}")
            return ("bool", f"(negb {c})")
        if isinstance(n, ast.Compare) and len(n.ops) == 1 and type(n.ops[0]) in self.CMP:
            (ta, a), (tb, b) = self.expr(n.left), self.expr(n.comparators[0])
            if ta != "int" or tb != "int":
                raise self.bad(f"comparison of non-integers in {txt!r}")
            return ("bool", f"({a} {self.CMP[type(n.ops[0])]} {b})%{self.int_scope}")
        if isinstance(n, ast.BinOp) and isinstance(n.op, (ast.Sub, ast.Add, ast.Mult)):
            (ta, a), (tb, b) = self.expr(n.left), self.expr(n.right)
            if ta != "int" or tb != "int":
                raise self.bad(f"arithmetic on non-integers in {txt!r}")
            op = {ast.Sub: "-", ast.Add: "+", ast.Mult: "*"}[type(n.op)]
            return ("int", f"({a} {op} {b})%{self.int_scope}")
        if (isinstance(n, ast.Call) and isinstance(n.func, ast.Name) and n.func.id in ("min", "max")
                and len(n.args) == 2 and not n.keywords):
            (ta, a), (tb, b) = self.expr(n.args[0]), self.expr(n.args[1])
            if ta != "int" or tb != "int":
                raise self.bad(f"min/max of non-integers in {txt!r}")
            return ("int", f"({self.int_scope}.{n.func.id} {a} {b})")
        if isinstance(n, ast.IfExp):
            t, c = self.expr(n.test)
            if t != "bool":
                raise self.bad(f"conditional expression on a non-boolean in {txt!r}")
            (_, a), (_, b) = self.expr(n.body), self.expr(n.orelse)
            return ("val", f"(if {c} then {a} else {b})")
        if (isinstance(n, ast.Call) and ast.unparse(n.func) == "t.cast" and len(n.args) == 2 and not n.keywords):
            return self.expr(n.args[1])      # typing.cast is the identity at run time
        raise self.bad(f"unmapped expression {txt!r}")

    def block(self, stmts, k):
        if not stmts:
            return k()
        s, rest = stmts[0], stmts[1:]

        def cont():
            return self.block(rest, k)
        if isinstance(s, ast.Expr) and isinstance(s.value, ast.Constant) and isinstance(s.value.value, str):
            return cont()                    # docstring
        if isinstance(s, ast.Pass):
            return cont()
        if isinstance(s, ast.Return):
            if s.value is None:
                raise self.bad("bare return")
            _, c = self.expr(s.value)
            return self.ret(c)
        if isinstance(s, ast.Raise):
            txt = ast.unparse(s.exc) if s.exc is not None else "<reraise>"
            if txt not in self.exc:
                raise self.bad(f"unmapped raise {txt!r}")
            return self.exc[txt]
        if isinstance(s, ast.If):
            t, c = self.expr(s.test)
            a = self.block(s.body, cont)
            b = self.block(s.orelse, cont)
            if t == "bool":
                return f"(if {c}\n   then {a}\n   else {b})"
            if t == "pbool" and self.type_error:
                return f"(match {c} with Some true => {a}\n   | Some false => {b}\n   | None => {self.type_error} end)"
            raise self.bad(f"test of type {t}: {ast.unparse(s.test)!r}")
        if isinstance(s, (ast.Assign, ast.AnnAssign)):
            tg = s.targets[0] if isinstance(s, ast.Assign) and len(s.targets) == 1 else getattr(s, "target", None)
            if not isinstance(tg, ast.Name) or s.value is None:
                raise self.bad(f"assignment {ast.unparse(s)!r}")
            key = (tg.id, ast.unparse(s.value))
            if key not in self.binds:
                raise self.bad(f"binding {key!r} changed or unknown")
            b = self.binds[key]
            return cont() if b is None else b(cont())
        if (isinstance(s, ast.Try) and not s.orelse and not s.finalbody and len(s.body) == 1
                and isinstance(s.body[0], ast.Return) and len(s.handlers) == 1):
            h = s.handlers[0]
            txt = ast.unparse(s.body[0].value)
            if txt not in self.raising:
                raise self.bad(f"unmapped expression inside try: {txt!r}")
            if not (isinstance(h.type, ast.Name) and h.type.id in self.handlers and h.name is None):
                raise self.bad("except clause not recognised")
            scrut, binder, val = self.raising[txt]
            hb = self.block(h.body, cont)
            caught = self.handlers[h.type.id]
            return (f"(match {scrut} with\n   | Val {binder} => {self.ret(val)}\n   | Raise {caught} => {hb}\n"
                    f"   | Raise e => Raise e end)")
        raise self.bad(f"statement {type(s).__name__}: {ast.unparse(s)[:80]!r}")

    def function(self, fn: ast.FunctionDef):
        def k():
            if self.fall is None:
                raise self.bad("control can fall off the end")
            return self.fall
        return self.block(fn.body, k)


def find_method(cls: ast.ClassDef, name: str) -> ast.FunctionDef:
    found = [n for n in cls.body if isinstance(n, ast.FunctionDef) and n.name == name]
    if len(found) != 1:
        raise px.Unsupported(f"expected exactly one method {cls.name}.{name}, found {len(found)}")
    return found[0]


def strip_doc(body):
    if body and isinstance(body[0], ast.Expr) and isinstance(body[0].value, ast.Constant) and isinstance(body[0].value.value, str):
        return body[1:]
    return body


class _Holes(ast.NodeTransformer):
    """replace the given nodes (by identity) with Name(HOLE_i) so the rest of a function can be compared as a skeleton"""

    def __init__(self, holes):
        self.holes = {id(n): name for name, n in holes.items()}

    def visit(self, node):
        if id(node) in self.holes:
            return ast.Name(id=self.holes[id(node)], ctx=ast.Load())
        return super().visit(node)


READINTO_SKELETON = '''size = H_size
remaining = H_remaining
if H_exhausted:
    self.on_exhausted()
    return 0
if hasattr(self._stream, 'readinto'):
    if H_fits:
        try:
            out_size: int | None = self._stream.readinto(b)
        except (OSError, ValueError) as e:
            self.on_disconnect(error=e)
            return 0
    else:
        temp_b = bytearray(H_tempsize)
        try:
            out_size = self._stream.readinto(temp_b)
        except (OSError, ValueError) as e:
            self.on_disconnect(error=e)
            return 0
        if out_size:
            b[:out_size] = H_src
else:
    try:
        data = self._stream.read(H_readsize)
    except (OSError, ValueError) as e:
        self.on_disconnect(error=e)
        return 0
    out_size = len(data)
    b[:out_size] = data
if not out_size:
    self.on_disconnect()
    return 0
self._pos += out_size
return out_size'''

READALL_SKELETON = '''if self.is_exhausted:
    self.on_exhausted()
    return b''
out = bytearray()
while not self.is_exhausted:
    data = self.read(H_chunk)
    if not data:
        break
    out.extend(data)
if H_post:
    self.on_exhausted()
return bytes(out)'''

# the loop without the report of a reached maximum (before the repair): recognised so that the model follows the
# source and the theorems, not the translator, say what is wrong
READALL_SKELETON_OLD = '''if self.is_exhausted:
    self.on_exhausted()
    return b''
out = bytearray()
while not self.is_exhausted:
    data = self.read(H_chunk)
    if not data:
        break
    out.extend(data)
return bytes(out)'''

EXHAUST_SKELETON = '''if not self.is_exhausted:
    return self.readall()
return b\'\''''


def _gen_readinto(cls):
    fn = find_method(cls, "readinto")
    body = strip_doc(fn.body)
    if [a.arg for a in fn.args.args] != ["self", "b"]:
        raise px.Unsupported("LimitedStream.readinto signature changed")
    try:
        holes = {
            "H_size": body[0].value,
            "H_remaining": body[1].value,
            "H_exhausted": body[2].test,
            "H_fits": body[3].body[0].test,
            "H_tempsize": body[3].body[0].orelse[0].value.args[0],
            "H_src": body[3].body[0].orelse[2].body[0].value,
            "H_readsize": body[3].orelse[0].body[0].value.args[0],
        }
    except (AttributeError, IndexError) as e:
        raise px.Unsupported(f"LimitedStream.readinto: shape changed ({e})") from e
    src_txt = ast.unparse(holes["H_src"])
    exprs = {k: v for k, v in holes.items()}
    skel = ast.unparse(ast.fix_missing_locations(_Holes(holes).visit(ast.Module(body=body, type_ignores=[]))))
    if skel != READINTO_SKELETON:
        import difflib
        d = "\n".join(difflib.unified_diff(READINTO_SKELETON.split("\n"), skel.split("\n"), lineterm="", n=0))
        raise px.Unsupported("LimitedStream.readinto: statement skeleton changed:\n" + d)
    if src_txt == "temp_b[:out_size]":
        slice_fix = "true"
    elif src_txt == "temp_b":
        slice_fix = "false"
    else:
        raise px.Unsupported(f"LimitedStream.readinto: slice source {src_txt!r} not recognised")
    tr = T2("LimitedStream.readinto", {
        "len(b)": ("int", "size_b"), "self.limit": ("int", "limit"), "self._pos": ("int", "pos"),
        "size": ("int", "size"), "remaining": ("int", "remaining")})

    def ex(k, want):
        t, c = tr.expr(exprs[k])
        if t != want:
            raise px.Unsupported(f"LimitedStream.readinto: {k} has type {t}")
        return c
    out = "(* LimitedStream.readinto: the expressions at the holes of the pinned statement skeleton *)\n"
    out += f"Definition ri_size (size_b : Z) : Z := {ex('H_size', 'int')}.\n"
    out += f"Definition ri_remaining (limit pos : Z) : Z := {ex('H_remaining', 'int')}.\n"
    out += f"Definition ri_exhausted (size remaining : Z) : bool := {ex('H_exhausted', 'bool')}.\n"
    out += f"Definition ri_fits (size remaining : Z) : bool := {ex('H_fits', 'bool')}.\n"
    out += f"Definition ri_tempsize (size remaining : Z) : Z := {ex('H_tempsize', 'int')}.\n"
    out += f"Definition ri_readsize (size remaining : Z) : Z := {ex('H_readsize', 'int')}.\n"
    out += f"(* b[:out_size] = {src_txt} *)\nDefinition ri_slice_fix : bool := {slice_fix}.\n"
    return out


def _gen_readall(cls):
    fn = find_method(cls, "readall")
    body = strip_doc(fn.body)
    try:
        holes = {"H_chunk": body[2].body[0].value.args[0]}
    except (AttributeError, IndexError) as e:
        raise px.Unsupported(f"LimitedStream.readall: shape changed ({e})") from e
    chunk = holes["H_chunk"]
    post = "false"
    if len(body) == 5 and isinstance(body[3], ast.If):
        holes["H_post"] = body[3].test
        t, post = T2("LimitedStream.readall", {"self._limit_is_max": ("bool", "is_max"),
                                               "self.is_exhausted": ("bool", "exhausted")}).expr(body[3].test)
        if t != "bool":
            raise px.Unsupported("readall: test after the loop is not boolean")
        expected = READALL_SKELETON
    else:
        expected = READALL_SKELETON_OLD
    skel = ast.unparse(ast.fix_missing_locations(_Holes(holes).visit(ast.Module(body=body, type_ignores=[]))))
    if skel != expected:
        raise px.Unsupported("LimitedStream.readall: statement skeleton changed:\n" + skel)
    val = px.const(chunk) if not isinstance(chunk, ast.BinOp) else None
    if val is None:
        t, c = T2("readall", {}, int_scope="N").expr(chunk)
        if t != "int":
            raise px.Unsupported("readall chunk size is not an integer expression")
    else:
        if not isinstance(val, int) or val <= 0:
            raise px.Unsupported("readall chunk size is not a positive integer")
        c = str(val)
    fn2 = find_method(cls, "exhaust")
    skel2 = ast.unparse(ast.Module(body=strip_doc(fn2.body), type_ignores=[]))
    if skel2 != EXHAUST_SKELETON:
        raise px.Unsupported("LimitedStream.exhaust: statement skeleton changed:\n" + skel2)
    return ("(* LimitedStream.readall: data = self.read(<chunk>) inside the pinned loop skeleton; after the loop\n"
            "   `if <readall_post>: self.on_exhausted()` (false: the source has no such statement) *)\n"
            f"Definition readall_chunk : N := {c}.\n"
            f"Definition readall_post (is_max exhausted : bool) : bool := {post}.\n")


class T4(T2):
    """Statement-by-statement translation of LimitedStream.readinto into a Gallina term over the primitives at the end of
    C09/Model.v (try_readinto / try_read / slice_assign / do_on_exhausted / do_on_disconnect), threading pos, u and b."""

    RET = "RRet {v} pos u b"

    def test(self, n):
        txt = ast.unparse(n)
        if txt == "hasattr(self._stream, 'readinto')":
            return "(u_has_readinto u)"
        if isinstance(n, ast.Name) and n.id == "out_size":
            return "(truthy out_size)"
        if isinstance(n, ast.UnaryOp) and isinstance(n.op, ast.Not):
            return f"(negb {self.test(n.operand)})"
        t, c = self.expr(n)
        if t != "bool":
            raise self.bad(f"test {txt!r}")
        return c

    def bexpr(self, n):
        """bytes-valued expression"""
        txt = ast.unparse(n)
        if txt in ("b", "temp_b", "data"):
            return txt
        if txt == "temp_b[:out_size]":
            return "(take temp_b out_size)"
        raise self.bad(f"bytes expression {txt!r}")

    def handler(self, h):
        if not (isinstance(h.type, ast.Tuple) and [ast.unparse(e) for e in h.type.elts] == ["OSError", "ValueError"] and h.name == "e"):
            raise self.bad("except clause changed")
        return "(fun u => " + self.stmts(h.body, None) + ")"

    def stmts(self, ss, k):
        if not ss:
            if k is None:
                raise self.bad("control falls off the end")
            return k()
        s, rest = ss[0], ss[1:]

        def cont():
            return self.stmts(rest, k)
        u = ast.unparse(s)
        if isinstance(s, ast.Return):
            t, c = self.expr(s.value)
            if t != "int":
                raise self.bad(f"return of {u!r}")
            return "(" + self.RET.format(v=c) + ")"
        if u == "self.on_exhausted()":
            return f"(do_on_exhausted is_max pos u b (fun _ => {cont()}))"
        if u == "self.on_disconnect(error=e)":
            return f"(do_on_disconnect is_max true pos u b (fun _ => {cont()}))"
        if u == "self.on_disconnect()":
            return f"(do_on_disconnect is_max false pos u b (fun _ => {cont()}))"
        if u == "self._pos += out_size":
            return f"(let pos := (pos + out_size)%Z in {cont()})"
        if isinstance(s, ast.Assign) and len(s.targets) == 1 and isinstance(s.targets[0], ast.Name):
            name, val = s.targets[0].id, ast.unparse(s.value)
            if val == "bytearray(remaining)":
                return f"(let {name} := bytearray remaining in\n   {cont()})"
            if val == "len(data)":
                return f"(let {name} := len_of data in\n   {cont()})"
            if val == "len(b)":
                return f"(let {name} := len_of b in\n   {cont()})"
            t, c = self.expr(s.value)
            if t != "int":
                raise self.bad(f"assignment {u!r}")
            return f"(let {name} := {c} in\n   {cont()})"
        if isinstance(s, ast.Assign) and ast.unparse(s.targets[0]) == "b[:out_size]":
            return f"(slice_assign kind b out_size {self.bexpr(s.value)} pos u (fun b =>\n   {cont()}))"
        if isinstance(s, ast.If):
            a = self.stmts(s.body, cont)
            b = self.stmts(s.orelse, cont)
            return f"(if {self.test(s.test)}\n   then {a}\n   else {b})"
        if isinstance(s, ast.Try) and len(s.body) == 1 and len(s.handlers) == 1 and not s.orelse and not s.finalbody:
            st = s.body[0]
            tgt = st.target if isinstance(st, ast.AnnAssign) else (st.targets[0] if isinstance(st, ast.Assign) else None)
            val = ast.unparse(st.value) if tgt is not None else ""
            h = self.handler(s.handlers[0])
            m = re.fullmatch(r"self\._stream\.readinto\((b|temp_b)\)", val)
            if m and ast.unparse(tgt) == "out_size":
                buf = m.group(1)
                return f"(try_readinto u {buf} (fun out_size u {buf} =>\n   {cont()})\n   {h})"
            if val.startswith("self._stream.read(") and ast.unparse(tgt) == "data" and len(st.value.args) == 1:
                t, c = self.expr(st.value.args[0])
                if t != "int":
                    raise self.bad(f"read size {val!r}")
                return f"(try_read u {c} (fun data u =>\n   {cont()})\n   {h})"
        raise self.bad(f"statement {u[:80]!r}")


def _gen_readinto_full(cls) -> str:
    # on a fresh parse: the skeleton comparison replaced the hole nodes of the first tree in place
    cls = px.find_class(px.load("wsgi.py"), "LimitedStream")
    fn = find_method(cls, "readinto")
    tr = T4("LimitedStream.readinto (statement translation)",
            {"self.limit": ("int", "limit"), "self._pos": ("int", "pos"), "size": ("int", "size"),
             "remaining": ("int", "remaining"), "out_size": ("int", "out_size")})
    body = tr.stmts(strip_doc(fn.body), None)
    return ("(* GENERATED by tools/c09.py from wsgi.py (LimitedStream.readinto, statement by statement) on every run - do not edit *)\n"
            "From Wz Require Import C09.Base C09.Gen C09.Model.\nOpen Scope N_scope.\n\n"
            "Definition readinto_gen (is_max : bool) (limit pos : Z) (kind : bufkind) (u : und) (b : bytes) : rr :=\n  "
            f"{body}.\n")


def gen() -> None:
    """T1/T2: regenerate coq/C09/Gen.v from wsgi.py, sansio/utils.py, _internal.py."""
    wsgi = px.load("wsgi.py")
    sans = px.load("sansio/utils.py")
    internal = px.load("_internal.py")
    text = "(* GENERATED by tools/c09.py from wsgi.py, sansio/utils.py, _internal.py on every run - do not edit *)\n"
    text += "From Wz Require Import C09.Base.\nOpen Scope N_scope.\n\n"

    # ---- _plain_int_re and _plain_int
    pat, flags = px.regex_of(px.find_assign(internal, "_plain_int_re"))
    if not isinstance(pat, str):
        raise px.Unsupported("_plain_int_re is not a str pattern")
    text += f"Definition plain_int_re_text : list N := {px.coq_string_codes(pat)}.\n"
    text += f"Definition plain_int_re_flags : N := {int(flags)}.\n"
    fn = px.find_def(internal, "_plain_int")
    if [a.arg for a in fn.args.args] != ["value"]:
        raise px.Unsupported("_plain_int signature changed")
    tr = T2("_plain_int",
            atoms={"_plain_int_re.fullmatch(value) is None": ("bool", "(negb (plain_int_re_fullmatch value))"),
                   "_plain_int_re.fullmatch(value) is not None": ("bool", "(plain_int_re_fullmatch value)"),
                   "int(value)": ("val", "(py_int value)")},
            ret=lambda c: f"Val {c}", exc={"ValueError": "Raise ValueErrorE", "ValueError()": "Raise ValueErrorE"},
            binds={("value", "value.strip()"): lambda k: f"(let value := py_strip value in\n  {k})"})
    text += f"Definition plain_int_gen (value : str) : res Z :=\n  {tr.function(fn)}.\n\n"

    # ---- sansio.utils.get_content_length
    fn = px.find_def(sans, "get_content_length")
    if [a.arg for a in fn.args.args] != ["http_content_length", "http_transfer_encoding"]:
        raise px.Unsupported("sansio get_content_length signature changed")
    lit = None
    for n in ast.walk(fn):
        if isinstance(n, ast.Compare) and ast.unparse(n.left) == "http_transfer_encoding" and len(n.ops) == 1 \
                and isinstance(n.ops[0], ast.Eq) and isinstance(n.comparators[0], ast.Constant) \
                and isinstance(n.comparators[0].value, str):
            lit = n.comparators[0].value
            lit_txt = ast.unparse(n)
    if lit is None:
        raise px.Unsupported("get_content_length: transfer-encoding comparison not found")
    text += f"Definition te_literal : str := {px.coq_string_codes(lit)}.\n"
    tr = T2("sansio.get_content_length",
            atoms={lit_txt: ("bool", "(opt_str_eqb http_transfer_encoding te_literal)"),
                   "http_content_length is None": ("bool", "(is_none http_content_length)"),
                   "None": ("val", "None"), "0": ("val", "(Some 0%Z)")},
            ret=lambda c: f"Val {c}",
            raising={"max(0, _plain_int(http_content_length))":
                     ("(match http_content_length with Some s => plain_int_gen s | None => Raise TypeErrorE end)", "v",
                      "(Some (Z.max 0 v))")},
            handlers={"ValueError": "ValueErrorE"})
    text += ("Definition get_content_length_gen (http_content_length http_transfer_encoding : option str) : res (option Z) :=\n  "
             f"{tr.function(fn)}.\n\n")

    # ---- wsgi.get_content_length: which environ keys feed it
    fn = px.find_def(wsgi, "get_content_length")
    body = strip_doc(fn.body)
    if not (len(body) == 1 and isinstance(body[0], ast.Return) and isinstance(body[0].value, ast.Call)
            and ast.unparse(body[0].value.func) == "_sansio_utils.get_content_length" and not body[0].value.args):
        raise px.Unsupported("wsgi.get_content_length no longer a single delegating return")
    kws = {k.arg: ast.unparse(k.value) for k in body[0].value.keywords}
    envatoms = {"environ.get('CONTENT_LENGTH')": "(e_cl r)", "environ.get('HTTP_TRANSFER_ENCODING')": "(e_te r)"}
    if set(kws) != {"http_content_length", "http_transfer_encoding"} or any(v not in envatoms for v in kws.values()):
        raise px.Unsupported(f"wsgi.get_content_length: arguments {kws!r} not recognised")
    text += ("Definition wsgi_get_content_length_gen (r : env) : res (option Z) :=\n  get_content_length_gen "
             f"{envatoms[kws['http_content_length']]} {envatoms[kws['http_transfer_encoding']]}.\n\n")

    # ---- wsgi.get_input_stream
    fn = px.find_def(wsgi, "get_input_stream")
    if [a.arg for a in fn.args.args] != ["environ", "safe_fallback", "max_content_length"]:
        raise px.Unsupported("get_input_stream signature changed")
    if [ast.unparse(d) for d in fn.args.defaults] != ["True", "None"]:
        raise px.Unsupported("get_input_stream defaults changed")
    tr = T2("get_input_stream",
            atoms={"content_length is not None": ("bool", "(is_some content_length)"),
                   "content_length is None": ("bool", "(is_none content_length)"),
                   "max_content_length is not None": ("bool", "(is_some (e_mcl r))"),
                   "max_content_length is None": ("bool", "(is_none (e_mcl r))"),
                   "content_length > max_content_length": ("pbool", "(opt_gt content_length (e_mcl r))"),
                   "'wsgi.input_terminated' in environ": ("bool", "(term_present r)"),
                   "environ.get('wsgi.input_terminated')": ("bool", "(term_truthy r)"),
                   "safe_fallback": ("bool", "(e_safe r)"),
                   "stream": ("val", "ChRaw"), "io.BytesIO()": ("val", "ChEmpty"),
                   "LimitedStream(stream, max_content_length, is_max=True)": ("val", "(mk_limited (e_mcl r) true)"),
                   "LimitedStream(stream, content_length)": ("val", "(mk_limited content_length false)"),
                   "LimitedStream(stream, content_length, is_max=False)": ("val", "(mk_limited content_length false)")},
            exc={"RequestEntityTooLarge()": "ChRaise RequestEntityTooLarge"},
            type_error="ChRaise TypeErrorE",
            binds={("stream", "t.cast(t.IO[bytes], environ['wsgi.input'])"): None,
                   ("content_length", "get_content_length(environ)"):
                       lambda k: ("(match wsgi_get_content_length_gen r with\n  | Raise e => ChRaise e\n"
                                  f"  | Val content_length =>\n  {k}\n  end)")})
    text += f"Definition get_input_stream_gen (r : env) : choice :=\n  {tr.function(fn)}.\n\n"

    # ---- LimitedStream hooks and comparisons
    cls = px.find_class(wsgi, "LimitedStream")
    init = find_method(cls, "__init__")
    if [ast.unparse(s) for s in strip_doc(init.body)] != [
            "self._stream = stream", "self._pos = 0", "self.limit = limit", "self._limit_is_max = is_max"]:
        raise px.Unsupported("LimitedStream.__init__ changed")
    hooks = dict(atoms={"self._limit_is_max": ("bool", "is_max"), "error is not None": ("bool", "error_given"),
                        "error is None": ("bool", "(negb error_given)")},
                 exc={"RequestEntityTooLarge()": "Some RequestEntityTooLarge", "ClientDisconnected()": "Some ClientDisconnected"},
                 fall="None")
    text += ("Definition on_exhausted_gen (is_max : bool) : option exn :=\n  "
             f"{T2('LimitedStream.on_exhausted', **hooks).function(find_method(cls, 'on_exhausted'))}.\n")
    fn = find_method(cls, "on_disconnect")
    if [a.arg for a in fn.args.args] != ["self", "error"] or [ast.unparse(d) for d in fn.args.defaults] != ["None"]:
        raise px.Unsupported("LimitedStream.on_disconnect signature changed")
    text += ("Definition on_disconnect_gen (is_max error_given : bool) : option exn :=\n  "
             f"{T2('LimitedStream.on_disconnect', **hooks).function(fn)}.\n")
    tr = T2("LimitedStream.is_exhausted", {"self._pos": ("int", "pos"), "self.limit": ("int", "limit")})
    text += f"Definition is_exhausted_gen (pos limit : Z) : bool :=\n  {tr.function(find_method(cls, 'is_exhausted'))}.\n\n"
    text += _gen_readinto(cls)
    text += _gen_readall(cls)
    # every public name LimitedStream defines itself; everything else is inherited from io.RawIOBase / io.IOBase
    # (read(n), read(-1) / read(None) = readall, readline, readlines, __iter__ / __next__, writable / seekable = False, close, ...)
    own = [n.name for n in cls.body if isinstance(n, ast.FunctionDef)]
    if own != ["__init__", "is_exhausted", "on_exhausted", "on_disconnect", "exhaust", "readinto", "readall", "tell", "readable"]:
        raise px.Unsupported(f"LimitedStream defines {own}: a method the model does not know")
    if [b_.id if isinstance(b_, ast.Name) else ast.unparse(b_) for b_ in cls.bases] != ["io.RawIOBase"]:
        raise px.Unsupported("LimitedStream no longer derives from io.RawIOBase only")
    if [ast.unparse(x) for x in strip_doc(find_method(cls, "readable").body)] != ["return True"]:
        raise px.Unsupported("LimitedStream.readable changed")
    tr = T2("LimitedStream.tell", {"self._pos": ("int", "pos")})
    t_, c_ = tr.expr(strip_doc(find_method(cls, "tell").body)[0].value) if len(strip_doc(find_method(cls, "tell").body)) == 1 \
        and isinstance(strip_doc(find_method(cls, "tell").body)[0], ast.Return) else ("?", "")
    if t_ != "int":
        raise px.Unsupported("LimitedStream.tell changed")
    text += f"Definition tell_gen (pos : Z) : Z := {c_}.\n"
    full = _gen_readinto_full(cls)
    px.write_if_changed(os.path.join(COQ, "C09", "Gen.v"), text)
    px.write_if_changed(os.path.join(COQ, "C09", "GenRI.v"), full)
    _check_pins()


def _last_def(cls, name):
    found = [n for n in cls.body if isinstance(n, ast.FunctionDef) and n.name == name]
    if not found:
        raise px.Unsupported(f"{cls.name}.{name} not found")
    return found[-1]          # @t.overload stubs come first


def _check_pins() -> None:
    """statement pins (after Gen.v / GenRI.v were written, so that an edit both changes the generated definitions and is reported):
    the whole LimitedStream class as the model was written against it, and the request-wrapper glue the end-to-end oracle stands for"""
    wsgi = px.load("wsgi.py")
    req = px.find_class(px.load("wrappers/request.py"), "Request")
    parts = ["## wsgi.LimitedStream\n" + px.skeleton(px.find_class(wsgi, "LimitedStream")),
             "## wsgi.get_content_length\n" + px.skeleton(px.find_def(wsgi, "get_content_length"))]
    for name in ("want_form_data_parsed", "_load_form_data", "_get_stream_for_parsing", "stream", "data", "get_data", "get_json"):
        parts.append(f"## wrappers.Request.{name}\n" + px.skeleton(_last_def(req, name)))
    px.check_pin("C09", "c09_stream_glue.txt", "\n".join(parts) + "\n",
                 "wsgi.LimitedStream / the Request body accessors (stream, get_data, data, form loading, get_json)")


# ====================================================================== harness

class Und:
    """instrumented underlying stream WITHOUT readinto: data + schedule of responses
    (int k = at most k bytes, 'F' = OSError, 'V' = ValueError); counts what is consumed"""

    def __init__(self, data: bytes, sched):
        self.data = data
        self.off = 0
        self.sched = list(sched)
        self.calls = 0
        self.starved = False
        self.events = []      # (requested, returned length | 'fail')

    def _next(self, n):
        self.calls += 1
        asked = n
        if self.sched:
            r = self.sched.pop(0)
            if r in ("F", "V"):
                self.events.append((asked, "fail"))
                raise (OSError if r == "F" else ValueError)("injected")
            n = min(n, r)
            if r == 0 and asked > 0 and self.off < len(self.data):
                self.starved = True          # returned nothing although data remained
        d = self.data[self.off:self.off + n]
        self.off += len(d)
        self.events.append((asked, len(d)))
        return d

    def read(self, n=-1):
        if n is None or n < 0:
            n = len(self.data) + 1
        return self._next(n)


class UndRI(Und):
    def readinto(self, b):
        d = self._next(len(b))
        b[:len(d)] = d
        return len(d)


FILL = 0xEE


def parse_ls_line(line: str):
    _, data, limit, ismax, hasri, sched, ops = line.split(" ")
    data = b"" if data == "-" else bytes.fromhex(data)
    sch = [] if sched == "-" else [t if t in ("F", "V") else int(t) for t in sched.split(",")]
    return data, int(limit), ismax == "1", hasri == "1", sch, ops.split(";")


def ls_line(data, limit, is_max, hasri, sched, ops) -> str:
    # the model has one failure kind: V (ValueError) is sent as F
    sc = ",".join("F" if x in ("F", "V") else str(x) for x in sched) if sched else "-"
    return f"ls {hexs(data)} {limit} {int(is_max)} {int(hasri)} {sc} {';'.join(ops)}"


def _exn_name(e) -> str:
    from werkzeug.exceptions import ClientDisconnected, RequestEntityTooLarge
    if isinstance(e, ClientDisconnected):
        return "CD"
    if isinstance(e, RequestEntityTooLarge):
        return "413"
    if isinstance(e, ImplTimeout):
        return "TIMEOUT"
    return {"ValueError": "VE", "TypeError": "TE"}.get(type(e).__name__, type(e).__name__)


def impl_ls(data, limit, is_max, hasri, sched, ops, fails: list, stream=None, und=None):
    """run ops on the real LimitedStream; returns the canonical result string and appends
    (key, what) pairs for every violation of the property statement to `fails`."""
    from werkzeug.wsgi import LimitedStream
    if und is None:
        und = (UndRI if hasri else Und)(data, sched)
    ls = stream if stream is not None else LimitedStream(und, limit, is_max=is_max)
    res = []
    got = b""
    clean = True

    def bad(key, what):
        fails.append((key, what))
    for o in ops:
        f = o.split(":")
        pos0, off0, ev0 = ls._pos, und.off, len(und.events)
        d = None
        eof = False
        exn = None
        try:
            if f[0] == "i":
                init = bytes.fromhex(f[2]) if f[2] != "-" else b""
                buf = bytearray(init)
                n = ls.readinto(memoryview(buf) if f[1] == "m" else buf)
                r = f"i:{n}:{hexs(buf)}"
                d = bytes(buf[:n])
                if len(buf) != len(init):
                    bad("buffer-resized", f"readinto changed the length of the caller's bytearray from {len(init)} to {len(buf)}")
                elif bytes(buf[n:]) != init[n:]:
                    bad("buffer-clobbered", "readinto wrote past the bytes it reported")
                eof = n == 0 and len(init) > 0
            elif f[0] == "r":
                d = ls.read(int(f[1]))
                r = "b:" + hexs(d)
                eof = d == b""
            elif f[0] == "a":
                # read() / read(-1) / readall(): the same entry point (io.RawIOBase.read(None) is a TypeError of the C type itself)
                d = (ls.read, lambda: ls.read(-1), ls.readall)[(len(data) + limit + len(ops)) % 3]()
                r = "b:" + hexs(d)
                eof = True
            elif f[0] == "e":
                d = ls.exhaust()
                r = "b:" + hexs(d)
                eof = True
            elif f[0] == "l":
                k = -1 if f[1] == "-" else int(f[1])
                d = ls.readline(k)
                r = "b:" + hexs(d)
                eof = d == b"" and k != 0
            elif f[0] == "it":
                lines = list(ls) if (len(data) + limit) % 2 else [x for x in ls]
                d = b"".join(lines)
                r = "l:" + ",".join(hexs(x) for x in lines)
                eof = True
            elif f[0] == "L":
                k = -1 if f[1] == "-" else int(f[1])
                lines = ls.readlines(k)
                d = b"".join(lines)
                r = "l:" + ",".join(hexs(x) for x in lines)
                eof = k < 0 or len(d) <= k
            else:
                raise AssertionError(o)
        except Exception as e:  # noqa: BLE001
            exn = _exn_name(e)
            r = "x:" + exn
        res.append(f"{r}@{ls.tell()}/{und.off}/{und.calls}")
        if ls.tell() != ls._pos or ls.readable() is not True or ls.writable() or ls.seekable():
            bad("stream-interface", f"tell() {ls.tell()} vs _pos {ls._pos}; readable {ls.readable()}, writable {ls.writable()}, "
                                    f"seekable {ls.seekable()}")
        evs = und.events[ev0:]
        # ---------------- the property, transcribed
        if und.off > limit:
            bad("over-read", f"{und.off} bytes consumed from the underlying stream, limit {limit}")
        # what an operation yields is exactly what it took from the client's bytes at the current
        # position (an operation that raises yields nothing; bytes it had already taken are lost with
        # the exception, which is how io.IOBase.readline / readall behave)
        if d and d != data[off0:off0 + len(d)]:
            bad("not-prefix", f"{o} delivered {d!r}, the client sent {data[off0:off0 + len(d)]!r} at offset {off0}")
        if d and clean:
            got += d
            if not data[:limit].startswith(got):
                bad("not-prefix", f"delivered {got!r} is not a prefix of {data[:limit]!r}")
        if exn is not None:
            clean = False
        if ls._pos != und.off:
            bad("pos-desync", f"_pos {ls._pos} != bytes consumed {und.off} after {o} ({r})")
        if exn is None and d is not None and len(d) != und.off - off0:
            bad("lost-bytes", f"{o} returned {len(d)} bytes but consumed {und.off - off0}")
        if exn == "TIMEOUT":
            bad("hang", f"{o} did not return")
        elif exn is not None and exn not in ("CD", "413"):
            bad("unrelated-exception", f"{o} raised {exn}")
        last = evs[-1] if evs else None
        if exn == "413" and not (is_max and ls._pos >= limit):
            bad("413-unjustified", f"RequestEntityTooLarge from {o} with _pos {ls._pos}, limit {limit}, is_max {is_max}")
        if exn == "CD" and not (ls._pos < limit and last is not None
                                and (last[1] == "fail" or (last[1] == 0 and not is_max))):
            bad("disconnect-unjustified", f"ClientDisconnected from {o} without a failed / empty underlying read before the limit")
        if exn != "CD" and any(ev[1] == "fail" or (ev[1] == 0 and ev[0] > 0 and not is_max) for ev in evs):
            bad("disconnect-swallowed", f"{o} returned {r} although the underlying stream failed or ended before the limit")
        if exn != "413" and is_max and pos0 >= limit and f[0] != "e" and not (f[0] == "l" and f[1] == "0"):
            bad("413-missing", f"{o} at the maximum returned {r}")
        if exn is None and eof and not is_max and ls._pos != limit:
            bad("silent-truncation", f"{o} signalled end of stream at {ls._pos} of {limit} declared bytes")
        # (exhaust() called at the limit is a no-op by definition: it returns the nothing that remains)
        if exn is None and eof and is_max and f[0] in ("a", "e", "L", "it") and ls._pos >= limit and und.off < len(data) \
                and (f[0] != "L" or f[1] == "-") and not (f[0] == "e" and pos0 >= limit):
            bad("max-unbounded-read-truncates",
                f"{o} on a limit-is-maximum stream returned {len(d)} bytes of a {len(data)}-byte body without RequestEntityTooLarge")
        if f[0] in ("a", "e") and len(evs) > max(1, limit - pos0):
            bad("too-many-reads", f"{o} made {len(evs)} underlying reads for {limit - pos0} remaining bytes")
    return "|".join(res), und, ls


ALPHA = [0x61, 0x62, 0x0A, 0x0A, 0x0D, 0x00, 0xFF, 0x63]


def gen_ls_case(rng):
    n = rng.choice([0, 1, 2, 3, 3, 4, 5, 6, 8, 10])
    data = bytes(rng.choice(ALPHA) for _ in range(n))
    limit = max(0, n + rng.choice([-3, -2, -1, 0, 0, 0, 1, 2, 4]))
    if rng.random() < 0.08:
        limit = 0
    is_max = rng.random() < 0.35
    hasri = rng.random() < 0.5
    sched = []
    for _ in range(rng.choice([0, 0, 1, 2, 3, 4, 6])):
        r = rng.random()
        sched.append(0 if r < 0.08 else 1 if r < 0.45 else 2 if r < 0.65 else 3 if r < 0.8 else 100 if r < 0.88
                     else "F" if r < 0.96 else "V")
    ops = []
    for _ in range(rng.choice([1, 1, 2, 3, 4, 5])):
        r = rng.random()
        if r < 0.3:
            k = rng.choice([1, 1, 2, 3, 4, 6, 8])
            ops.append(f"i:{rng.choice('bm')}:{hexs(bytes([FILL]) * k)}")
        elif r < 0.55:
            ops.append(f"r:{rng.choice([1, 1, 2, 3, 4, 7, 100])}")
        elif r < 0.68:
            ops.append("a")
        elif r < 0.73:
            ops.append("e")
        elif r < 0.88:
            ops.append("l:" + rng.choice(["-", "-", "-", "1", "2", "4"]))
        elif r < 0.95:
            ops.append("L:" + rng.choice(["-", "-", "1", "3", "6"]))
        else:
            ops.append("it")
    return data, limit, is_max, hasri, sched, ops


def exhaustive_ls_cases(quick: bool):
    ops1 = [f"i:m:{hexs(bytes([FILL]) * 4)}", f"i:b:{hexs(bytes([FILL]) * 2)}", "r:2", "a", "l:-", "it"]
    if not quick:
        ops1 += ["r:1", "e", "l:2", f"i:b:{hexs(bytes([FILL]) * 5)}"]
    opsets = [[a] for a in ops1] + [[a, b] for a in ops1 for b in ops1]
    alpha = [0, 1, "F"] if quick else [0, 1, 2, "F"]
    scheds = [[]] + [[a] for a in alpha] + [[a, b] for a in alpha for b in alpha]
    for n in range(4):
        data = b"a\nb"[:n]
        for limit in range(5):
            for is_max in (False, True):
                for hasri in (False, True):
                    for sc in scheds:
                        for ops in opsets:
                            yield data, limit, is_max, hasri, sc, ops


def wrapped_case(rng, chk, fails_out):
    """io.BufferedReader / TextIOWrapper on top of LimitedStream: impl-level oracles only"""
    from werkzeug.wsgi import LimitedStream
    data, limit, is_max, hasri, sched, _ = gen_ls_case(rng)
    if rng.random() < 0.5:
        data = bytes(rng.choice(ALPHA) for _ in range(rng.randint(5, 40)))
        limit = max(0, len(data) + rng.choice([-7, -1, 0, 0, 1, 5]))
    und = (UndRI if hasri else Und)(data, sched)
    ls = LimitedStream(und, limit, is_max=is_max)
    bs = rng.choice([1, 2, 3, 4, 8, 16, 8192])
    text = rng.random() < 0.3
    w = io.BufferedReader(ls, buffer_size=bs)
    if text:
        w = io.TextIOWrapper(w, encoding="latin-1", newline="")
    got = b""
    ops = []
    exn = None
    clean_eof = False
    for _ in range(rng.choice([1, 2, 3, 5])):
        o = rng.choice(["read", "read", "readn", "readn", "readline", "readlines", "iter", "readinto", "read1", "peek"])
        if text and o in ("readinto", "read1", "peek"):
            o = "readn"
        k = rng.choice([1, 2, 3, 5, 9, 30])
        ops.append(f"{o}:{k}")
        try:
            if o == "read":
                d = w.read()
                clean_eof = True
            elif o == "readn":
                d = w.read(k)
            elif o == "readline":
                d = w.readline()
            elif o == "readlines":
                d = (("" if text else b"").join(w.readlines()))
                clean_eof = True
            elif o == "iter":
                d = (("" if text else b"").join(list(w)))
                clean_eof = True
            elif o == "readinto":
                b = bytearray(k)
                n = w.readinto(b)
                d = bytes(b[:n])
            elif o == "read1":
                d = w.read1(k)
            else:
                w.peek(k)
                d = b""
            got += d.encode("latin-1") if text else d
        except Exception as e:  # noqa: BLE001
            exn = _exn_name(e)
            break
    case = {"kind": "wrapped", "data": data.hex(), "limit": limit, "is_max": is_max, "has_readinto": hasri,
            "sched": sched, "buffer_size": bs, "text": text, "ops": ops}

    def bad(key, what):
        fails_out.append((key, what, case))
    if exn is not None and exn not in ("CD", "413"):
        bad("unrelated-exception" if exn != "VE" else "wrapped-valueerror", f"{ops[-1]} through a buffering wrapper raised {exn}")
    if und.off > limit:
        bad("over-read", f"{und.off} bytes consumed, limit {limit}")
    if not data[:limit].startswith(got):
        bad("not-prefix", f"delivered {got!r} is not a prefix of {data[:limit]!r}")
    if ls._pos != und.off:
        bad("pos-desync", f"_pos {ls._pos} != consumed {und.off}")
    if exn is None and clean_eof and not is_max and got != data[:limit]:
        bad("silent-truncation", f"complete read through the wrapper delivered {len(got)} of {limit} bytes")
    if exn is None and clean_eof and not is_max and len(data) < limit:
        bad("disconnect-swallowed", "body shorter than declared read to the end without ClientDisconnected")
    chk.case(("w", data, limit, is_max, hasri, tuple(sched), bs, text, tuple(ops)), nontrivial=und.calls > 0)
    chk.count("wrapped:" + ("text" if text else "buffered") + (":exn-" + exn if exn else ""))


ACCESSORS = ["get_data", "get_data", "data", "stream.read", "form", "get_json", "parse_form_data"]


def request_case(rng, chk, lines, impl_out, cases):
    """One request through werkzeug.wrappers.Request (or formparser.parse_form_data) on an instrumented input.
    The whole-body accessors must return exactly the declared body however the input fragments its reads, raise
    ClientDisconnected when it ends or fails early, RequestEntityTooLarge over the maximum, and never consume more
    than the declared length / the configured maximum."""
    import json as _json
    from urllib.parse import parse_qsl

    from werkzeug.exceptions import BadRequest
    from werkzeug.formparser import parse_form_data
    from werkzeug.wrappers import Request
    from werkzeug.wsgi import LimitedStream

    acc = rng.choice(ACCESSORS)
    n = rng.choice([0, 1, 2, 3, 5, 8, 13, 40, 200, 700])
    if acc in ("form", "parse_form_data"):
        body = "&".join(f"k{i}={'v' * rng.randint(0, 6)}" for i in range(max(1, n // 6))).encode()
        ctype = "application/x-www-form-urlencoded"
    elif acc == "get_json":
        body = _json.dumps({"a": "x" * n, "b": [1, 2, 3]}).encode()
        ctype = "application/json"
    else:
        body = bytes(rng.choice(ALPHA) for _ in range(n))
        ctype = "application/octet-stream"
    term = rng.random() < 0.3
    # bytes of a following request sit behind the body only on an input the server does not terminate
    trailer = b"" if term else rng.choice([b"", b"", b"GET /next HTTP/1.1\r\n"])
    short = rng.random() < 0.25                      # the client sends less than it declares
    sent = body[:rng.randint(0, max(0, len(body) - 1))] if short and body else body
    data = sent + (trailer if not short else b"")
    declared = rng.choice([len(body)] * 6 + [None, None, len(body) + 3])
    mcl = rng.choice([None, None, None, len(body), len(body) + 10, max(0, len(body) - 1), 4])
    sched = []
    for _ in range(rng.choice([0, 0, 1, 2, 4, 8, 40])):
        r = rng.random()
        sched.append(0 if r < 0.04 else 1 if r < 0.3 else 2 if r < 0.45 else 7 if r < 0.6 else 100 if r < 0.8 else 771 if r < 0.92
                     else "F" if r < 0.97 else "V")
    if rng.random() < 0.3:                           # an input that never returns more than k bytes per call
        k = rng.choice([1, 2, 7, 100])
        sched = [k] * (len(data) // k + 3)
    hasri = rng.random() < 0.5
    und = (UndRI if hasri else Und)(data, sched)
    env = {"wsgi.input": und, "REQUEST_METHOD": "POST", "wsgi.url_scheme": "http", "SERVER_NAME": "h", "SERVER_PORT": "80",
           "CONTENT_TYPE": ctype}
    if declared is not None:
        env["CONTENT_LENGTH"] = str(declared)
    if term:
        env["wsgi.input_terminated"] = True
    case = {"kind": "request", "accessor": acc, "data": data.hex(), "CONTENT_LENGTH": declared, "wsgi.input_terminated": term,
            "max_content_length": mcl, "sched": [str(x) for x in sched], "has_readinto": hasri, "content_type": ctype}
    req = None
    exn = None
    val = None

    def call():
        nonlocal req
        if acc == "parse_form_data":
            _, form, _ = parse_form_data(env, max_content_length=mcl)
            return list(form.items(multi=True))
        req = type("R", (Request,), {"max_content_length": mcl})(env)
        if acc == "get_data":
            return req.get_data()
        if acc == "data":
            return req.data
        if acc == "stream.read":
            return req.stream.read()
        if acc == "form":
            return list(req.form.items(multi=True))
        return req.get_json()
    try:
        val = with_timeout(call, 5)
    except ImplTimeout:
        exn = "TIMEOUT"
    except BadRequest as e:
        exn = _exn_name(e)
        if exn not in ("CD", "413"):
            exn = "BadRequest"
    except Exception as e:  # noqa: BLE001
        exn = _exn_name(e)

    def bad(key, what):
        chk.fail(key, what, case)
    # ---------------- the property
    usable = declared                                  # plain decimal by construction
    limit = None
    is_max = False
    if usable is not None and mcl is not None and usable > mcl:
        want = "413-early"
    elif term:
        want = "raw" if mcl is None else "limited"
        limit, is_max = mcl, True
    elif usable is None:
        want = "empty"
    else:
        want = "limited"
        limit = usable
    evs = und.events
    trouble = any(ev[1] == "fail" or (ev[1] == 0 and ev[0] > 0 and not is_max) for ev in evs)
    if exn == "TIMEOUT":
        bad("hang", f"{acc} did not return")
    elif exn is not None and exn not in ("CD", "413") and not (exn == "BadRequest" and acc == "get_json") and want != "raw":
        bad("unrelated-exception", f"{acc} raised {exn}")   # (a raw terminated input is handed over unwrapped: its errors are its own)
    if want == "413-early":
        if exn != "413" or und.calls:
            bad("too-large-not-refused", f"declared {usable} over the maximum {mcl}: {acc} gave {exn or val!r} after {und.calls} reads")
    elif want == "empty":
        if und.calls or (exn is not None and not (exn == "BadRequest" and acc == "get_json")):
            bad("no-length-not-empty", f"no Content-Length, input not terminated: {acc} touched the input ({und.calls} reads) or raised {exn}")
    elif want == "limited":
        if und.off > limit:
            bad("over-read", f"{acc} consumed {und.off} bytes, {'maximum' if is_max else 'declared length'} {limit}")
        expect_bytes = data[:limit]
        if exn == "413" and not (is_max and und.off >= limit):
            bad("413-unjustified", f"RequestEntityTooLarge from {acc} below the maximum")
        if exn == "CD" and not trouble:
            bad("disconnect-unjustified", f"ClientDisconnected from {acc} although the input delivered everything asked for")
        if exn != "CD" and trouble:
            bad("disconnect-swallowed", f"{acc} returned {exn or 'a value'} although the input failed or ended before the "
                                        f"{'maximum' if is_max else 'declared length'} ({und.off} of {limit} bytes consumed)")
        if is_max and und.starved:
            pass          # below a maximum an empty read is the end of the stream: nothing more can be demanded
        elif exn is None and not trouble:
            if is_max and len(data) > limit:
                bad("max-unbounded-read-truncates", f"{acc} on a terminated input returned {limit} bytes of a {len(data)}-byte body "
                                                    "without RequestEntityTooLarge")
            elif und.off != len(expect_bytes) and not (is_max and any(ev[1] == 0 for ev in evs)):
                bad("silent-truncation", f"{acc} consumed {und.off} of {len(expect_bytes)} body bytes and returned normally")
            if isinstance(val, bytes) and not (is_max and len(data) > limit):
                if val != expect_bytes[:und.off] or (val != expect_bytes and not (is_max and any(ev[1] == 0 for ev in evs))):
                    bad("silent-truncation" if expect_bytes.startswith(val) else "not-prefix",
                        f"{acc} returned {len(val)} bytes {val[:40]!r}, the client sent {len(expect_bytes)} bytes {expect_bytes[:40]!r}")
            if acc in ("form", "parse_form_data") and und.off == len(expect_bytes) and len(data) <= (limit if is_max else len(data)):
                ref = parse_qsl(expect_bytes.decode(), keep_blank_values=True)
                if sorted(val) != sorted(ref):
                    bad("silent-truncation", f"{acc} gave {val!r}, the body carries {ref!r}")
        if exn == "BadRequest" and not trouble and not (is_max and und.starved):
            try:
                _json.loads(expect_bytes)
                bad("silent-truncation", f"get_json could not parse what it read ({und.off} of {len(expect_bytes)} bytes consumed)")
            except ValueError:
                pass                                 # the client itself sent an incomplete document below the maximum
    chk.case(("request", acc, data, declared, term, mcl, tuple(map(str, sched)), hasri), nontrivial=und.calls > 0,
             sample={"case": {k: case[k] for k in ("accessor", "CONTENT_LENGTH", "wsgi.input_terminated", "max_content_length")},
                     "impl": exn or repr(val)[:60]} if und.calls and rng.random() < 0.01 else None)
    chk.count(f"request:{acc}:{want}" + (":" + exn if exn else ""))
    # ---------------- the model: every whole-body accessor is one unbounded read of the chosen LimitedStream
    st = None
    if acc != "parse_form_data" and req is not None and "stream" in req.__dict__:
        st = req.__dict__["stream"]
    # (the urlencoded form parser reads in sized pieces up to max_form_memory_size + 1: oracles only)
    if want == "limited" and isinstance(st, LimitedStream) and exn != "TIMEOUT" and acc != "form":
        lines.append(ls_line(data, st.limit, st._limit_is_max, hasri, sched, ["a"]))
        impl_out.append(f"R{'x:' + exn if exn in ('CD', '413') else 'ok'}@{st._pos}/{und.off}/{und.calls}")
        cases.append(case)


CL_VALUES = [None, "0", "5", "3", "12", " 7 ", "\t4\n", "-3", "-0", "abc", "", " ", "１２", "١", "+5", "1_0", "5.0",
             "0x10", "4 4", "007", "99999999999999999999", " 5 ", "5\x1c", "--5", "5-", "\x00", "1e3"]
TE_VALUES = [None, "chunked", "Chunked", "gzip", "chunked, gzip", " chunked", ""]
TERM_VALUES = ["~", True, False, 0, 1, "", "yes", None]
MCL_VALUES = [None, 0, 3, 4, 5, 100]


def impl_gis(cl, te, term, mcl, safe, fails, case):
    """run get_input_stream; canonical outcome + the property's decision clause as an oracle"""
    from werkzeug.exceptions import RequestEntityTooLarge
    from werkzeug.wsgi import LimitedStream, get_input_stream
    raw = io.BytesIO(b"0123456789")
    env = {"wsgi.input": raw}
    if cl is not None:
        env["CONTENT_LENGTH"] = cl
    if te is not None:
        env["HTTP_TRANSFER_ENCODING"] = te
    if term != "~":
        env["wsgi.input_terminated"] = term
    try:
        s = get_input_stream(env, safe_fallback=safe, max_content_length=mcl)
    except RequestEntityTooLarge:
        out = "raise:413"
        s = None
    except Exception as e:  # noqa: BLE001
        out = "raise:" + _exn_name(e)
        s = None
    if s is not None:
        if s is raw:
            out = "raw"
        elif isinstance(s, LimitedStream):
            out = f"limited:{s.limit}:{int(s._limit_is_max)}"
            if s._stream is not raw:
                out += ":other-stream"
        elif isinstance(s, io.BytesIO) and s.getvalue() == b"":
            out = "empty"
        else:
            out = "other:" + type(s).__name__
    # ---- the property: plain ASCII decimal (after strip) is the only usable length
    usable = None
    if cl is not None and te != "chunked":
        t = cl.strip()
        usable = int(t) if re.fullmatch(r"[0-9]+", t, re.A) and len(t) < 4000 else 0
        if re.fullmatch(r"-[0-9]+", t, re.A):
            usable = 0
    terminated = term != "~" and bool(term)

    def bad(key, what):
        fails.append((key, what, case))
    if out.startswith("raise:") and out != "raise:413":
        bad("unrelated-exception", f"get_input_stream raised {out[6:]}")
    if out.startswith("other"):
        bad("unknown-stream", out)
    if usable is not None and mcl is not None and usable > mcl:
        if out != "raise:413":
            bad("too-large-not-refused", f"declared length {usable} over the maximum {mcl} gave {out}")
    elif out == "raise:413":
        bad("413-unjustified", "RequestEntityTooLarge without a declared length over the maximum")
    elif not terminated:
        if usable is None:
            want = "empty" if safe else "raw"
            if out != want:
                key = "terminated-false-raw-stream" if (term != "~" and out == "raw") else "no-length-not-empty"
                bad(key, f"no usable length, input not terminated by the server (wsgi.input_terminated={term!r}), "
                         f"safe_fallback={safe}: got {out}, expected {want}")
        elif out != f"limited:{usable}:0":
            key = "terminated-false-raw-stream" if (term != "~" and out in ("raw", f"limited:{mcl}:1")) else "length-not-enforced"
            bad(key, f"declared length {usable}, input not terminated (wsgi.input_terminated={term!r}): got {out}")
    else:
        want = "raw" if mcl is None else f"limited:{mcl}:1"
        if out != want:
            bad("terminated-choice", f"terminated input, max {mcl}: got {out}, expected {want}")
    return out


def gis_line(cl, te, term, mcl, safe) -> str:
    o = lambda x: "~" if x is None else cps(x)  # noqa: E731
    t = "~" if term == "~" else str(int(bool(term)))
    return f"gis {o(cl)} {o(te)} {t} {'~' if mcl is None else mcl} {int(safe)}"


def run(chk: Check) -> None:
    from werkzeug.wrappers import Request
    from werkzeug.wsgi import LimitedStream

    rng = chk.rng
    quick = chk.tier == "quick"
    lines: list[str] = []
    impl_out: list[str] = []
    cases: list = []

    def do_ls(data, limit, is_max, hasri, sched, ops, tag):
        fails: list = []
        try:
            r, und, _ = with_timeout(impl_ls, 5, data, limit, is_max, hasri, sched, ops, fails)
        except ImplTimeout:
            r, und = "x:TIMEOUT", None
            fails.append(("hang", "operation sequence did not return within 5 s"))
        except Exception as e:  # noqa: BLE001  (e.g. a changed constructor signature)
            r, und = "x:HARNESS:" + type(e).__name__, None
            fails.append(("interface-changed", f"LimitedStream could not be driven: {type(e).__name__}: {e}"))
        line = ls_line(data, limit, is_max, hasri, sched, ops)
        for key, what in fails[:3]:
            chk.fail(key, what, {"kind": "ls", "line": line, "sched": [str(x) for x in sched]})
        lines.append(line)
        impl_out.append(r)
        cases.append({"kind": "ls", "line": line, "sched": [str(x) for x in sched]})
        chk.case(("ls", line, tuple(map(str, sched))), nontrivial=bool(und and und.calls),
                 sample={"case": line, "impl": r[:120]} if tag == "random" else None)
        chk.count("ls:" + tag)
        for part in r.split("|"):
            chk.count("ls-result:" + part.split("@")[0].split(":")[0] + (":" + part.split("@")[0].split(":")[1] if part.startswith("x:") else ""))

    # ---- corpus: the probed defect (fixed) and the known finding, first
    do_ls(b"abcdef", 4, False, True, [1], [f"i:m:{hexs(bytes([FILL]) * 10)}"], "corpus")
    do_ls(b"abcdef", 4, False, True, [1], [f"i:b:{hexs(bytes([FILL]) * 10)}"], "corpus")
    do_ls(b"abcdef", 4, False, True, [1, 1], ["r:3", f"i:m:{hexs(bytes([FILL]) * 10)}", "a"], "corpus")
    do_ls(b"x" * 20, 10, True, False, [], ["a", "r:1"], "corpus")
    do_ls(b"abc", 5, False, True, [], ["a"], "corpus")
    do_ls(b"abc", 5, True, True, [], ["a", "a"], "corpus")
    do_ls(b"ab\ncd", 5, False, False, [1, "F"], ["l:-", "l:-", "a"], "corpus")
    for name in sorted(os.listdir(os.path.join(os.path.dirname(COQ), "corpus", "C09"))):
        with open(os.path.join(os.path.dirname(COQ), "corpus", "C09", name)) as f:
            for ln in f:
                ln = ln.strip()
                if ln.startswith("ls "):
                    d, l, m, h, sc, ops = parse_ls_line(ln)
                    do_ls(d, l, m, h, sc, ops, "corpus")
    # ---- exhaustive small scope, then random
    for c in exhaustive_ls_cases(quick):
        do_ls(*c, "exhaustive")
    for _ in range(20000 if quick else 350000):
        do_ls(*gen_ls_case(rng), "random")

    # ---- buffering wrappers (oracles only)
    wf: list = []
    for _ in range(6000 if quick else 80000):
        wrapped_case(rng, chk, wf)
    for key, what, case in wf[:20]:
        chk.fail(key, what, case)

    # ---- get_input_stream: full product of the classes, then random CONTENT_LENGTH texts
    gfails: list = []

    def do_gis(cl, te, term, mcl, safe, tag):
        case = {"kind": "gis", "CONTENT_LENGTH": cl, "HTTP_TRANSFER_ENCODING": te,
                "wsgi.input_terminated": term if term == "~" else repr(term), "max_content_length": mcl, "safe_fallback": safe}
        out = impl_gis(cl, te, term, mcl, safe, gfails, case)
        lines.append(gis_line(cl, te, term, mcl, safe))
        impl_out.append(out)
        cases.append(case)
        chk.case(("gis", cl, te, repr(term), mcl, safe), nontrivial=True,
                 sample={"case": case, "impl": out} if tag == "random" and cl else None)
        chk.count("gis:" + out.split(":")[0] + (":413" if out == "raise:413" else ""))
    for cl in CL_VALUES:
        for te in TE_VALUES:
            for term in TERM_VALUES:
                for mcl in MCL_VALUES:
                    for safe in (True, False):
                        do_gis(cl, te, term, mcl, safe, "product")
    atoms = list("0123456789") + ["-", " ", "\t", "+", "_", "３", "٣", "a", ".", "\x1f", "　", "\x85", "\n"]
    for _ in range(3000 if quick else 40000):
        cl = "".join(rng.choice(atoms[:10] if rng.random() < 0.6 else atoms) for _ in range(rng.randint(0, 5)))
        if rng.random() < 0.3:
            cl = rng.choice([" ", "\t", " ", "\x1c"]) + cl + rng.choice(["", " ", "\r\n"])
        do_gis(cl, rng.choice(TE_VALUES[:3] + [None, None]), rng.choice(TERM_VALUES), rng.choice(MCL_VALUES),
               rng.random() < 0.7, "random")
    seen = set()
    for key, what, case in gfails:
        if key not in seen or len(seen) < 3:
            chk.fail(key, what, case)
        seen.add(key)

    # ---- end to end through Request.stream (wrapper choice + LimitedStream on the chosen limit)
    n_e2e = 2500 if quick else 30000
    for _ in range(n_e2e):
        data, limit, is_max, hasri, sched, ops = gen_ls_case(rng)
        und = (UndRI if hasri else Und)(data, sched)
        env = {"wsgi.input": und, "REQUEST_METHOD": "POST", "wsgi.url_scheme": "http", "SERVER_NAME": "h", "SERVER_PORT": "80"}
        mcl = rng.choice([None, None, limit, limit + 1, max(0, limit - 1), 3])
        term = rng.random() < 0.4
        if rng.random() < 0.8:
            env["CONTENT_LENGTH"] = rng.choice(["%d", " %d", "%d "]) % limit
        if term:
            env["wsgi.input_terminated"] = True
        if rng.random() < 0.15:
            env["HTTP_TRANSFER_ENCODING"] = "chunked"
        req = type("R", (Request,), {"max_content_length": mcl})(env)
        try:
            st = req.stream
        except Exception as e:  # noqa: BLE001
            st = None
            if _exn_name(e) != "413":
                chk.fail("unrelated-exception", f"Request.stream raised {_exn_name(e)}", {"kind": "e2e", "environ": repr(env)})
        chk.count("e2e:" + (type(st).__name__ if st is not None else "413"))
        if isinstance(st, LimitedStream):
            fails = []
            try:
                r, _, _ = with_timeout(impl_ls, 5, data, st.limit, st._limit_is_max, hasri, sched, ops, fails, stream=st, und=und)
            except ImplTimeout:
                r = "x:TIMEOUT"
                fails.append(("hang", "did not return"))
            line = ls_line(data, st.limit, st._limit_is_max, hasri, sched, ops)
            for key, what in fails[:3]:
                chk.fail(key, what, {"kind": "ls", "line": line, "via": "Request.stream", "sched": [str(x) for x in sched]})
            lines.append(line)
            impl_out.append(r)
            cases.append({"kind": "ls", "line": line, "via": "Request.stream"})
        elif isinstance(st, io.BytesIO):
            if st.read() != b"" or und.calls:
                chk.fail("no-length-not-empty", "fallback stream is not empty or the input was touched", {"kind": "e2e", "environ": repr(env)})
        chk.case(("e2e", data, limit, is_max, hasri, tuple(map(str, sched)), tuple(ops), mcl, term, env.get("CONTENT_LENGTH")),
                 nontrivial=st is not None)

    # ---- the Request wrapper end to end: get_data / data / stream.read / form / get_json / parse_form_data over
    #      instrumented raw inputs (short reads, early end, faults) x CONTENT_LENGTH / wsgi.input_terminated / max_content_length
    for _ in range(6000 if quick else 80000):
        request_case(rng, chk, lines, impl_out, cases)

    # ---------------------------------------------------------------- model side
    exe = chk.build_modelrun("C09")
    if exe:
        res = chk.run_model(exe, lines)
        if res is not None:
            mism = 0
            for ln, a, b, c in zip(lines, impl_out, res, cases):
                if a.startswith("R"):
                    a = a[1:]
                    b = ("ok" if b.startswith("b:") else b.split("@")[0]) + "@" + b.split("@")[1]
                if a != b:
                    mism += 1
                    if mism <= 5:
                        chk.broken("correspondence", "C09 model vs werkzeug.wsgi", f"case {ln!r}: impl {a!r} model {b!r}",
                                   case={"case": c, "impl": a, "model": b})
            chk.count("model:compared", len(lines))
            chk.count("model:mismatches", mism)


def replay(rep) -> int:
    """re-run the input of a replay file against the implementation and print what is observed"""
    import json
    inp = rep.get("input") or (rep.get("broken") or [{}])[0].get("case", {}).get("case")
    print(json.dumps({"property": rep.get("property"), "key": rep.get("key"), "what": rep.get("what")}, indent=1))
    if not inp:
        print("no input recorded (broken obligation without a failing input):", rep.get("no_longer_checks"))
        return 0
    if inp.get("kind") == "ls":
        d, l, m, h, sc, ops = parse_ls_line(inp["line"])
        if inp.get("sched"):
            sc = [x if x in ("F", "V") else int(x) for x in inp["sched"]]
        fails: list = []
        r, und, ls = impl_ls(d, l, m, h, sc, ops, fails)
        print(f"LimitedStream(data={d!r}, limit={l}, is_max={m}) underlying has_readinto={h} schedule={sc} ops={ops}")
        print("observed:", r)
        for k, w in fails:
            print(f"FAILS [{k}] {w}")
        return 1 if fails else 0
    if inp.get("kind") == "request":
        from werkzeug.formparser import parse_form_data
        from werkzeug.wrappers import Request
        data = bytes.fromhex(inp["data"])
        sc = [x if x in ("F", "V") else int(x) for x in inp["sched"]]
        und = (UndRI if inp["has_readinto"] else Und)(data, sc)
        env = {"wsgi.input": und, "REQUEST_METHOD": "POST", "wsgi.url_scheme": "http", "SERVER_NAME": "h", "SERVER_PORT": "80",
               "CONTENT_TYPE": inp["content_type"]}
        if inp["CONTENT_LENGTH"] is not None:
            env["CONTENT_LENGTH"] = str(inp["CONTENT_LENGTH"])
        if inp["wsgi.input_terminated"]:
            env["wsgi.input_terminated"] = True
        print(f"input of {len(data)} bytes {data[:60]!r}, schedule {sc[:12]}{'...' if len(sc) > 12 else ''}, "
              f"CONTENT_LENGTH={inp['CONTENT_LENGTH']}, terminated={inp['wsgi.input_terminated']}, max_content_length={inp['max_content_length']}")
        try:
            if inp["accessor"] == "parse_form_data":
                out = list(parse_form_data(env, max_content_length=inp["max_content_length"])[1].items(multi=True))
            else:
                req = type("R", (Request,), {"max_content_length": inp["max_content_length"]})(env)
                a = inp["accessor"]
                out = (req.get_data() if a == "get_data" else req.data if a == "data" else req.stream.read() if a == "stream.read"
                       else list(req.form.items(multi=True)) if a == "form" else req.get_json())
            print(f"{inp['accessor']} ->", repr(out)[:200])
        except Exception as e:  # noqa: BLE001
            print(f"{inp['accessor']} raised {type(e).__name__}")
        print(f"consumed {und.off} bytes in {und.calls} reads")
        return 0
    if inp.get("kind") == "gis":
        fails = []
        term = inp["wsgi.input_terminated"]
        term = "~" if term == "~" else ast.literal_eval(term)
        out = impl_gis(inp["CONTENT_LENGTH"], inp["HTTP_TRANSFER_ENCODING"], term, inp["max_content_length"], inp["safe_fallback"], fails, inp)
        print("get_input_stream ->", out)
        for k, w, _ in fails:
            print(f"FAILS [{k}] {w}")
        return 1 if fails else 0
    print("input:", json.dumps(inp, indent=1))
    return 0


def main(chk: Check) -> None:
    try:
        gen()
    except px.Unsupported as e:
        chk.broken("translator", "C09/Gen.v", str(e))
    chk.forbidden_scan()
    if chk.coq_make(["C09/Proofs.vo", "C09/Extract.vo"]):
        chk.audit_props("C09/Props.v")
    else:
        chk.cov["obligations"] += 1
    chk.trusted += [
        "translator tools/c09.py (statement-by-statement translation of LimitedStream.readinto into C09/GenRI.v, tied to the model by theorem; T2 atom tables for get_input_stream, get_content_length, _plain_int, on_exhausted, on_disconnect, "
        "is_exhausted; statement skeletons of LimitedStream.readinto / readall / exhaust with the comparisons, sizes and the slice "
        "source generated at the holes)",
        "extraction ExtrOcamlBasic + tools/conv.ml + coq/C09/driver.ml, OCaml 4.13.1",
        "LimitedStream defines exactly __init__, is_exhausted, on_exhausted, on_disconnect, exhaust, readinto, readall, tell, readable "
        "(pinned; a new method stops the translator); everything else is inherited: "
        "io.RawIOBase.read (read(-1) / read(None) = readall), io.IOBase.readline / readlines / iteration modelled by hand as loops over readinto / read(1) "
        "(CPython _io semantics; validated differentially); io.BufferedReader / io.TextIOWrapper only drive readinto / readall and "
        "are exercised by the harness, not modelled",
        "statement pins: tools/pins/c09_stream_glue.txt (whole wsgi.LimitedStream, wsgi.get_content_length, Request.want_form_data_parsed / "
        "_load_form_data / _get_stream_for_parsing / stream / data / get_data / get_json); validated differentially only, no pin wanted: "
        "formparser.parse_form_data / _parse_urlencoded (pinned and translated by C10: tools/pins/c10_limits_glue.txt), the exception classes "
        "ClientDisconnected / RequestEntityTooLarge (matched by isinstance), io.BufferedReader / io.TextIOWrapper / io.RawIOBase (CPython, not werkzeug code)",
        "the underlying stream honours the io contract: read(n) / readinto(b) deliver at most n / len(b) bytes; failures are OSError or ValueError",
        "str.strip modelled with the interpreter's 29 white-space code points; re pattern -?\\d+ (re.ASCII) by a hand-written matcher "
        "(pattern text and flags pinned by C09/Gen.v); int() on its matches, below CPython's 4300-digit limit",
    ]
    run(chk)
    chk.finish(rule="LimitedStream: exhaustive small scope (data length 0..3, limit 0..4, is_max, readinto present/absent, schedules of "
                    "length <= 2 over {0,1,fail}, every single and pair of 6 operations) + random cases (data 0..10 bytes incl. LF, limits "
                    "around the data length, schedules with short reads / zero reads / OSError / ValueError, 1..5 operations of readinto "
                    "(bytearray, memoryview) / read(n) / read() / exhaust / readline / readlines) compared result-by-result incl. _pos, bytes "
                    "consumed and number of underlying calls; buffering wrappers with oracles; Request.get_data / data / stream.read / form / "
                    "get_json and parse_form_data end to end over the instrumented inputs (fragmenting, short, failing) x CONTENT_LENGTH x "
                    "wsgi.input_terminated x max_content_length; get_input_stream: full product of "
                    "CONTENT_LENGTH x Transfer-Encoding x wsgi.input_terminated x max_content_length x safe_fallback classes + random "
                    "length texts; Request.stream end to end. Non-trivial: the underlying stream was called at least once; distinct by hash.")
