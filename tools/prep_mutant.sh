#!/bin/sh
# tools/prep_mutant.sh CNN : scratch worktree /tmp/mut-CNN of /repo HEAD + /tmp/mut-CNN-out/PROPERTY.txt (nothing from /verif's machinery)
P="$1"
git -C /repo worktree add -q /tmp/mut-$P HEAD && mkdir -p /tmp/mut-$P-out
python3 - "$P" <<'PY'
import json,sys
for l in open('/verif/properties.jsonl'):
    p=json.loads(l)
    if p['id']==sys.argv[1]:
        open(f"/tmp/mut-{p['id']}-out/PROPERTY.txt","w").write(f"{p['id']}: {p['title']}\n\nSTATEMENT: {p['statement']}\n\nQUANTIFIER: {p['quantifier']['text']}\n\nANCHORS (files): {', '.join(p['anchors']['files'])}\nMECHANISMS: " + "; ".join(f"{m['name']} [{m.get('where')}]" for m in p['anchors']['mechanism'])+"\n")
PY
