"""C06  Every HTTP header serialiser is inverted by its parser."""
from __future__ import annotations

import ast
import os
import re

from . import pyextract as px
from .vlib import COQ, Check, ImplTimeout, cps, uncps, with_timeout

PID = "C06"
CLAIM = dict(
    text="Coq theorems (56; all closed under the global context) over executable models, in an explicit exception monad, of "
         "quote_header_value / unquote_header_value, dump_header / parse_list_header (with urllib's parse_http_list) / parse_dict_header, "
         "dump_options_header / parse_options_header (RFC 2231 charset, continuation and percent decoding included), HeaderSet, "
         "ETags.to_header / parse_etags, Range / ContentRange to_header and their parsers, dump_age / parse_age, CSP, the typed "
         "cache-control properties, base64 with Authorization Basic and token schemes, and the HTTP-date field codec: "
         "parse(dump v) = v over exactly the property's domains (each a boolean predicate with an inhabitant), the normal-form family "
         "(full for quote / list / set, refuted + partial for dicts, partial for ETags and options), one refutation kept as a known "
         "finding (unordered multi-ranges). The token set, every regex text and class table, the RFC 2231 charset list, the cache-control "
         "property table and is_byte_range_valid are regenerated from the source on every run; the models are compared with werkzeug "
         "on ~85k cases per quick run and impl-level round-trip and normal-form oracles run on the same values.",
    note="Trusted: Coq kernel; translator tools/c06.py; extraction + driver; hand-written matchers for the pinned regexes and for "
         "urllib.request.parse_http_list / urllib.parse.unquote / binascii.a2b_base64 (validated differentially); str.lower on Latin-1 and "
         "str.title on ASCII (keys/units/schemes outside them are exercised by the harness only); Python's 4300-digit int<->str limit is "
         "part of the int model (round trips are stated as: whenever the serialiser returns, the parser inverts it); dates: the "
         "fixed-width field codec is proved, calendar arithmetic (email.utils / datetime) is a Section contract checked by the harness; "
         "frozenset iteration order of ETags is abstracted (results compared as sets). Not proved (harness oracles only): parameter "
         "auth schemes incl. the Digest quoting rule, If-Range.",
    design="6/C06")

PINNED = {
    "_etag_re": (r'([Ww]/)?(?:"(.*?)"|(.*?))(?:\s*,\s*|$)', 0),
    "_parameter_key_re": (r"([\w!#$%&'*+\-.^`|~]+)=", re.A),
    "_parameter_token_value_re": (r"[\w!#$%&'*+\-.^`|~]+", re.A),
    "_continuation_re": (r"\*(\d+)$", re.A),
    "_q_value_re": (r"-?\d+(\.\d+)?", re.A),
}
WS29 = ([*range(9, 14), *range(28, 33), 0x85, 0xA0, 0x1680, *range(0x2000, 0x200B), 0x2028, 0x2029, 0x202F, 0x205F, 0x3000])


# ====================================================================== translator

def _class_of(pat: str, shape: str) -> str:
    """the single character class inside a pattern of the given shape (regex with one group for the class)."""
    m = re.fullmatch(shape, pat, flags=re.S)
    if not m:
        raise px.Unsupported(f"pattern {pat!r} does not have the modelled shape {shape!r}")
    return m.group(1)


def _ascii_class_table(cls: str, flags: int, what: str) -> list[int]:
    if not (flags & re.A):
        raise px.Unsupported(f"{what} lost re.ASCII: its class is no longer a 128-entry table")
    px.single_class_pattern(cls)
    rx = re.compile(cls, flags)
    for cp in list(range(128, 0x3000)) + [0xFF21, 0xFF10, 0x1D7CE, 0x10FFFF]:
        if rx.fullmatch(chr(cp)):
            raise px.Unsupported(f"{what} matches a non-ASCII code point")
    return px.class_table(cls, flags, range(128))


def _verbose_strip(pat: str) -> str:
    """text of a re.VERBOSE pattern with comments and white space outside classes removed."""
    out, i, in_cls = [], 0, False
    while i < len(pat):
        c = pat[i]
        if c == "\\":
            out.append(pat[i:i + 2])
            i += 2
            continue
        if in_cls:
            out.append(c)
            if c == "]":
                in_cls = False
        elif c == "[":
            in_cls = True
            out.append(c)
        elif c == "#":
            while i < len(pat) and pat[i] != "\n":
                i += 1
            continue
        elif c.isspace():
            pass
        else:
            out.append(c)
        i += 1
    return "".join(out)


class _T2:
    """T2 for functions over int|None variables: if/elif/else + return of boolean expressions.
    Gallina target: option bool (None = the comparison would raise TypeError on None)."""

    def __init__(self, names):
        self.names = set(names)

    def atom(self, n: ast.expr) -> str:
        if isinstance(n, ast.Name) and n.id in self.names:
            return n.id
        if isinstance(n, ast.Constant) and n.value is None:
            return "None"
        if isinstance(n, ast.Constant) and isinstance(n.value, int) and not isinstance(n.value, bool):
            return f"(Some ({n.value})%Z)"
        raise px.Unsupported(f"T2 atom not recognised: {ast.unparse(n)}")

    def cmp1(self, a: str, op: ast.cmpop, b: str) -> str:
        if isinstance(op, ast.Is):
            if b != "None":
                raise px.Unsupported("`is` with a non-None operand")
            return f"(Some (oz_is_none {a}))"
        if isinstance(op, ast.IsNot):
            if b != "None":
                raise px.Unsupported("`is not` with a non-None operand")
            return f"(Some (negb (oz_is_none {a})))"
        table = {ast.Lt: "oz_lt", ast.LtE: "oz_le", ast.Gt: "oz_gt", ast.GtE: "oz_ge"}
        for k, v in table.items():
            if isinstance(op, k):
                return f"({v} {a} {b})"
        raise px.Unsupported(f"T2 comparison operator not recognised: {type(op).__name__}")

    def expr(self, n: ast.expr) -> str:
        if isinstance(n, ast.BoolOp):
            f = "ob_or" if isinstance(n.op, ast.Or) else "ob_and"
            parts = [self.expr(v) for v in n.values]
            out = parts[-1]
            for p in reversed(parts[:-1]):
                out = f"({f} {p} {out})"
            return out
        if isinstance(n, ast.UnaryOp) and isinstance(n.op, ast.Not):
            return f"(ob_not {self.expr(n.operand)})"
        if isinstance(n, ast.Compare):
            # (a is None) != (b is None)
            if (len(n.ops) == 1 and isinstance(n.ops[0], (ast.NotEq, ast.Eq))
                    and isinstance(n.left, ast.Compare) and isinstance(n.comparators[0], ast.Compare)):
                f = "ob_neq" if isinstance(n.ops[0], ast.NotEq) else "ob_eq"
                return f"({f} {self.expr(n.left)} {self.expr(n.comparators[0])})"
            operands = [n.left, *n.comparators]
            atoms = [self.atom(x) for x in operands]
            parts = [self.cmp1(atoms[i], n.ops[i], atoms[i + 1]) for i in range(len(n.ops))]
            out = parts[-1]
            for p in reversed(parts[:-1]):
                out = f"(ob_and {p} {out})"
            return out
        if isinstance(n, ast.Constant) and isinstance(n.value, bool):
            return f"(Some {'true' if n.value else 'false'})"
        raise px.Unsupported(f"T2 expression not recognised: {ast.unparse(n)}")

    def block(self, body: list[ast.stmt]) -> str:
        body = [s for s in body if not (isinstance(s, ast.Expr) and isinstance(s.value, ast.Constant))]
        if not body:
            raise px.Unsupported("T2: a path falls off the end of the function")
        s = body[0]
        if isinstance(s, ast.Return):
            if s.value is None:
                raise px.Unsupported("T2: bare return")
            return self.expr(s.value)
        if isinstance(s, ast.If):
            rest = body[1:]
            els = s.orelse if s.orelse else rest
            if s.orelse and rest:
                # if ... (all branches of the if return) ; rest reachable only from a branch falling through
                els_txt = self.block(list(s.orelse) + rest) if not _all_return(s.orelse) else self.block(s.orelse)
                then_txt = self.block(list(s.body) + rest) if not _all_return(s.body) else self.block(s.body)
                return f"(ob_if {self.expr(s.test)} {then_txt} {els_txt})"
            then_txt = self.block(list(s.body) + ([] if _all_return(s.body) else rest))
            return f"(ob_if {self.expr(s.test)} {then_txt} {self.block(list(els))})"
        raise px.Unsupported(f"T2 statement not recognised: {ast.unparse(s)[:80]}")


def _all_return(body) -> bool:
    if not body:
        return False
    s = body[-1]
    if isinstance(s, ast.Return):
        return True
    if isinstance(s, ast.If):
        return _all_return(s.body) and bool(s.orelse) and _all_return(s.orelse)
    return False


def _set_of_strings(fn: ast.AST, var: str) -> list[list[str]]:
    """every `<var> in {"..", ..}` set literal inside fn."""
    out = []
    for n in ast.walk(fn):
        if (isinstance(n, ast.Compare) and len(n.ops) == 1 and isinstance(n.ops[0], ast.In)
                and isinstance(n.left, ast.Name) and n.left.id == var and isinstance(n.comparators[0], ast.Set)):
            out.append(sorted(px.const(e) for e in n.comparators[0].elts))
    return out


def impl_def(mod: ast.AST, name: str) -> ast.FunctionDef:
    """the implementation def of a possibly @t.overload-ed module-level function."""
    found = [n for n in getattr(mod, "body", []) if isinstance(n, ast.FunctionDef) and n.name == name
             and not any("overload" in ast.unparse(d) for d in n.decorator_list)]
    if len(found) != 1:
        raise px.Unsupported(f"expected exactly one implementation of {name}, found {len(found)}")
    return found[0]


def gen() -> None:
    """T1/T2: regenerate coq/C06/Gen.v from http.py, _internal.py, datastructures/auth.py."""
    http = px.load("http.py")
    internal = px.load("_internal.py")
    auth = px.load("datastructures/auth.py")

    # interpreter facts the hand-written primitives rely on (fail closed if this Python differs)
    ws = [c for c in range(0x110000) if chr(c).isspace()]
    if ws != sorted(WS29):
        raise px.Unsupported("str.isspace table of this interpreter differs from the modelled 29 code points")
    if [c for c in range(0x3100) if re.fullmatch(r"\s", chr(c))] != sorted(WS29):
        raise px.Unsupported("Unicode \\s differs from str.isspace")
    for c in range(256):
        want = c + 32 if (65 <= c <= 90 or (0xC0 <= c <= 0xDE and c != 0xD7)) else c
        if chr(c).lower() != chr(want):
            raise px.Unsupported("str.lower on Latin-1 differs from the modelled mapping")

    tok = px.find_assign(http, "_token_chars")
    if not (isinstance(tok, ast.Call) and isinstance(tok.func, ast.Name) and tok.func.id == "frozenset" and len(tok.args) == 1):
        raise px.Unsupported("_token_chars is not frozenset(<literal>)")
    tok_chars = px.const(tok.args[0])
    if not isinstance(tok_chars, str):
        raise px.Unsupported("_token_chars literal is not a str")

    pats = {}
    for name in ("_etag_re", "_parameter_key_re", "_parameter_token_value_re", "_charset_value_re", "_continuation_re", "_q_value_re"):
        pats[name] = px.regex_of(px.find_assign(http, name))
    pats["_plain_int_re"] = px.regex_of(px.find_assign(internal, "_plain_int_re"))
    for name, (p, f) in pats.items():
        if not isinstance(p, str):
            raise px.Unsupported(f"{name} is not a str pattern")

    key_cls = _ascii_class_table(_class_of(pats["_parameter_key_re"][0], r"\((\[.*\])\+\)="), pats["_parameter_key_re"][1], "_parameter_key_re")
    tokv_cls = _ascii_class_table(_class_of(pats["_parameter_token_value_re"][0], r"(\[.*\])\+"), pats["_parameter_token_value_re"][1],
                                  "_parameter_token_value_re")
    cs_pat, cs_flags = pats["_charset_value_re"]
    if not (cs_flags & re.X):
        raise px.Unsupported("_charset_value_re lost re.VERBOSE")
    cs_txt = _verbose_strip(cs_pat)
    m = re.fullmatch(r"\((\[[^\]]*\])\*\)'(\[[^\]]*\])\*'\((\[[^\]]*\])\+\)", cs_txt)
    if not m:
        raise px.Unsupported(f"_charset_value_re does not have the modelled shape: {cs_txt!r}")
    c1a = _ascii_class_table(m.group(1), cs_flags & ~re.X, "_charset_value_re charset class")
    c1b = _ascii_class_table(m.group(2), cs_flags & ~re.X, "_charset_value_re language class")
    c2 = _ascii_class_table(m.group(3), cs_flags & ~re.X, "_charset_value_re value class")

    charsets = _set_of_strings(px.find_def(http, "parse_options_header"), "encoding")
    charsets_d = _set_of_strings(px.find_def(http, "parse_dict_header"), "encoding")
    if len(charsets) != 1 or len(charsets_d) != 1:
        raise px.Unsupported("expected exactly one `encoding in {...}` test in parse_options_header and in parse_dict_header")

    www = px.find_class(auth, "WWWAuthenticate")
    th = [n for n in www.body if isinstance(n, ast.FunctionDef) and n.name == "to_header"]
    if len(th) != 1:
        raise px.Unsupported("WWWAuthenticate.to_header not found")
    digest_keys = _set_of_strings(th[0], "key")
    if len(digest_keys) != 1:
        raise px.Unsupported("Digest quoting key set not found")

    # T1: the typed cache-control properties (key, empty, type) of every class
    ccmod = px.load("datastructures/cache_control.py")
    cc_props = []
    for cname in ("_CacheControl", "RequestCacheControl", "ResponseCacheControl"):
        for node in px.find_class(ccmod, cname).body:
            val = node.value if isinstance(node, (ast.Assign, ast.AnnAssign)) else None
            if isinstance(val, ast.Call) and isinstance(val.func, ast.Name) and val.func.id == "cache_control_property":
                if len(val.args) != 3:
                    raise px.Unsupported(f"cache_control_property call shape changed in {cname}")
                key, empty = px.const(val.args[0]), px.const(val.args[1])
                ty = ast.unparse(val.args[2])
                if ty not in ("bool", "int", "None") or empty not in (None, True):
                    raise px.Unsupported(f"cache_control_property({key!r}, {empty!r}, {ty}) not modelled")
                cc_props.append((key, 1 if empty is True else 0, {"bool": 0, "int": 1, "None": 2}[ty]))
    if len(cc_props) < 15:
        raise px.Unsupported(f"only {len(cc_props)} cache-control properties found")
    getter = ast.unparse(px.find_def(px.find_class(ccmod, "_CacheControl"), "_get_cache_value"))
    setter = ast.unparse(px.find_def(px.find_class(ccmod, "_CacheControl"), "_set_cache_value"))
    for frag in ("if type is bool:\n        return key in self", "if key not in self:\n        return None", "if (value := self[key]) is None:\n        return empty",
                 "except ValueError:\n            return None"):
        if frag not in getter:
            raise px.Unsupported(f"_get_cache_value changed (missing {frag!r})")
    for frag in ("if type is bool:\n        if value:\n            self[key] = None\n        else:\n            self.pop(key, None)",
                 "elif value is None or value is False:\n        self.pop(key, None)", "elif value is True:\n        self[key] = None",
                 "value = type(value)\n        self[key] = str(value)"):
        if frag not in setter:
            raise px.Unsupported(f"_set_cache_value changed (missing {frag!r})")

    # T2: the four `return None` guards over begin / end / last_end in parse_range_header's loop
    prh = px.find_def(http, "parse_range_header")

    def zexpr(n):
        if isinstance(n, ast.Name) and n.id in ("begin", "end", "last_end"):
            return {"begin": "b", "end": "e", "last_end": "le"}[n.id]
        if isinstance(n, ast.Constant) and isinstance(n.value, int) and not isinstance(n.value, bool):
            return f"({n.value})"
        raise px.Unsupported(f"parse_range_header guard operand not recognised: {ast.unparse(n)}")

    def zbool(n):
        if isinstance(n, ast.BoolOp):
            return "(" + (" || " if isinstance(n.op, ast.Or) else " && ").join(zbool(v) for v in n.values) + ")"
        if isinstance(n, ast.UnaryOp) and isinstance(n.op, ast.Not):
            return f"(negb {zbool(n.operand)})"
        if isinstance(n, ast.Compare):
            ops = [n.left, *n.comparators]
            parts = []
            for i, op in enumerate(n.ops):
                a, b2 = zexpr(ops[i]), zexpr(ops[i + 1])
                t = {ast.Lt: f"({a} <? {b2})", ast.LtE: f"({a} <=? {b2})", ast.Gt: f"({b2} <? {a})", ast.GtE: f"({b2} <=? {a})",
                     ast.Eq: f"({a} =? {b2})", ast.NotEq: f"(negb ({a} =? {b2}))"}.get(type(op))
                if t is None:
                    raise px.Unsupported(f"parse_range_header guard operator not recognised: {ast.unparse(n)}")
                parts.append(t)
            return "(" + " && ".join(parts) + ")"
        raise px.Unsupported(f"parse_range_header guard not recognised: {ast.unparse(n)}")
    guards = []
    for node in ast.walk(prh):
        if isinstance(node, ast.If) and len(node.body) == 1 and isinstance(node.body[0], ast.Return) \
                and isinstance(node.body[0].value, ast.Constant) and node.body[0].value.value is None and not node.orelse:
            names = {x.id for x in ast.walk(node.test) if isinstance(x, ast.Name)}
            if names and names <= {"begin", "end", "last_end"}:
                guards.append((node.lineno, names, node.test))
    guards.sort(key=lambda g: g[0])
    want_names = [{"last_end"}, {"begin"}, {"begin", "last_end"}, {"begin", "end"}]
    if [g[1] for g in guards] != want_names:
        raise px.Unsupported(f"parse_range_header: guards over begin/end/last_end changed: {[ast.unparse(g[2]) for g in guards]}")
    guard_defs = ""
    for nm, (_, _, test) in zip(["prh_guard_suffix_after_open", "prh_guard_suffix_zero", "prh_guard_order", "prh_guard_empty"], guards):
        guard_defs += f"Definition {nm} (b e le : Z) : bool := {zbool(test)}%Z.   (* {ast.unparse(test)} *)\n"

    # T2: is_byte_range_valid
    fn = px.find_def(http, "is_byte_range_valid")
    argn = [a.arg for a in fn.args.args]
    if argn != ["start", "stop", "length"]:
        raise px.Unsupported(f"is_byte_range_valid arguments changed: {argn}")
    ibrv = _T2(argn).block(fn.body)

    # statement skeletons of everything the hand-written models stand for (layout, comments and docstrings do not matter);
    # HOLES are the sub-expressions that are regenerated into Gen.v above (a change there is reported by the translation)
    holes = {"begin < last_end or last_end < 0": "<GUARD-ORDER>", "begin >= end": "<GUARD-EMPTY>", "begin == 0": "<GUARD-SUFFIX-ZERO>",
             "last_end < 0": "<GUARD-SUFFIX-AFTER-OPEN>", "{'ascii', 'us-ascii', 'utf-8', 'iso-8859-1'}": "<RFC2231-CHARSETS>",
             "{'realm', 'domain', 'nonce', 'opaque', 'qop'}": "<DIGEST-QUOTED-KEYS>"}
    sk = []
    for name in ("quote_header_value", "unquote_header_value", "dump_options_header", "dump_header", "dump_csp_header", "parse_list_header",
                 "parse_dict_header", "parse_options_header", "parse_cache_control_header", "parse_csp_header", "parse_set_header",
                 "parse_if_range_header", "parse_range_header", "parse_content_range_header", "quote_etag", "unquote_etag", "parse_etags",
                 "parse_date", "http_date", "parse_age", "dump_age"):
        sk.append(f"## http.{name}\n" + px.skeleton(impl_def(http, name), holes))
    for name in ("_plain_int", "_dt_as_utc"):
        sk.append(f"## _internal.{name}\n" + px.skeleton(impl_def(internal, name)))
    etag_m = px.load("datastructures/etag.py")
    range_m = px.load("datastructures/range.py")
    csp_m = px.load("datastructures/csp.py")
    struct_m = px.load("datastructures/structures.py")
    for owner, cls, meths in (("etag", px.find_class(etag_m, "ETags"), ("__init__", "to_header")),
                              ("range", px.find_class(range_m, "IfRange"), ("__init__", "to_header")),
                              ("range", px.find_class(range_m, "Range"), ("__init__", "to_header")),
                              ("range", px.find_class(range_m, "ContentRange"), ("__init__", "set", "to_header")),
                              ("range", px.find_class(range_m, "_CallbackProperty"), ("__get__", "__set__")),
                              ("cache_control", px.find_class(ccmod, "_CacheControl"), ("__init__", "_get_cache_value", "_set_cache_value", "_del_cache_value", "to_header")),
                              ("csp", px.find_class(csp_m, "ContentSecurityPolicy"), ("__init__", "to_header")),
                              ("auth", px.find_class(auth, "Authorization"), ("__init__", "from_header", "to_header")),
                              ("auth", www, ("__init__", "from_header", "to_header")),
                              ("structures", px.find_class(struct_m, "HeaderSet"), ("__init__", "to_header"))):
        for mname in meths:
            sk.append(f"## datastructures.{owner}.{cls.name}.{mname}\n" + px.skeleton(impl_def(cls, mname), holes))
    ccp = px.find_def(ccmod, "cache_control_property")
    ret = [n for n in ast.walk(ccp) if isinstance(n, ast.Return)]
    sk.append("## datastructures.cache_control.cache_control_property (the property it returns)\n" + "\n".join(ast.unparse(r) for r in ret))
    px.check_pin("C06", "c06_codecs.txt", "\n".join(sk) + "\n", "statement skeleton of the header codecs")

    def codes(s):
        return px.coq_string_codes(s)

    def strs(l):
        return "[" + "; ".join(codes(s) for s in l) + "]"

    text = px.HEADER.format(tool="c06.py", src="http.py, _internal.py, datastructures/auth.py")
    text += "From Coq Require Import ZArith.\nFrom Wz Require Import C06.LibPy.\n\n"
    text += f"Definition token_chars : list (N * N) := {px.coq_ranges([ord(c) for c in tok_chars])}.\n"
    text += f"Definition param_key_class : list (N * N) := {px.coq_ranges(key_cls)}.\n"
    text += f"Definition param_token_class : list (N * N) := {px.coq_ranges(tokv_cls)}.\n"
    text += f"Definition charset_c1_class : list (N * N) := {px.coq_ranges(c1a)}.\n"
    text += f"Definition charset_lang_class : list (N * N) := {px.coq_ranges(c1b)}.\n"
    text += f"Definition charset_c2_class : list (N * N) := {px.coq_ranges(c2)}.\n"
    text += f"Definition options_charsets : list (list N) := {strs(charsets[0])}.\n"
    text += f"Definition dict_charsets : list (list N) := {strs(charsets_d[0])}.\n"
    text += f"Definition digest_quoted_keys : list (list N) := {strs(digest_keys[0])}.\n"
    text += "(* (key, empty: 0 None / 1 True, type: 0 bool / 1 int / 2 str) of every cache_control_property *)\n"
    text += "Definition cc_properties : list (list N * N * N) :=\n  [" + ";\n   ".join(f"({codes(k)}, {e}, {t})" for k, e, t in cc_props) + "]%N.\n"
    for name, (p, f) in pats.items():
        nm = name.strip("_")
        text += f"Definition {nm}_text : list N := {codes(_verbose_strip(p) if f & re.X else p)}.\n"
        text += f"Definition {nm}_flags : N := {int(f)}.\n"
    text += "\n(* T2: the `return None` guards of parse_range_header's loop, in source order (b = begin, e = end, le = last_end) *)\n" + guard_defs
    text += ("\n(* T2: http.is_byte_range_valid, statement by statement; None = a comparison with None (TypeError) *)\n"
             "Definition is_byte_range_valid (start stop length : option Z) : option bool :=\n  " + ibrv + ".\n")
    px.write_if_changed(os.path.join(COQ, "C06", "Gen.v"), text)


# ====================================================================== harness

TOK = "!#$%&'*+-.^_`|~" + "abcxyzABZ019"
VAL_ATOMS = ['"', "\\", ",", ";", "=", "*", "%", "%22", "'", " ", "\t", "\x00", "\x7f", "a", "b", "Z", "0", "9", "-", "/", ":",
             "é", "ÿ", "€", "\U0001f600", "\xa0", "\x85", " ", "\\\"", "\\\\", '""', "%2", "%41", "W/", "q"]
HDR_ATOMS = VAL_ATOMS + ["; ", ", ", " = ", "=\"", "\";", "utf-8''", "UTF-8'en'", "iso-8859-1''", "us-ascii''", "ascii''", "x''", "''",
                         "*0", "*1", "*=", "*0*=", "%C3%A9", "%ff", "%E2%82", "k", "K", "bytes", "bytes=", "0-9", "-5", "1-", "*/",
                         "\r", "\x0b", "\x1c", "w/", '"a"', 'W/"b"', "max-age", "no-cache", "5", " ", "  "]


def _s(rng, atoms, lo, hi):
    return "".join(rng.choice(atoms) for _ in range(rng.randint(lo, hi)))


RFC_TCHAR = frozenset("!#$%&'*+-.^_`|~0123456789abcdefghijklmnopqrstuvwxyzABCDEFGHIJKLMNOPQRSTUVWXYZ")
# letters and digits outside ASCII (Unicode \\w), alone and next to ASCII letters: a value made only of these must be quoted
WORD_CHARS = ["é", "ü", "ß", "Ж", "日", "本", "語", "٣", "Ａ", "９", "ｚ", "α", "ñ", "a", "b", "c", "f", "0", "7", "_"]
WORD_VALUES = ["café", "日本語", "٣", "Ａ", "Жук", "naïve", "über", "x٣", "٣x", "é", "a_é", "ｚ９", "año2024"]


def gen_word(rng) -> str:
    w = "".join(rng.choice(WORD_CHARS) for _ in range(rng.randint(1, 6)))
    return w if any(ord(c) > 127 for c in w) else w + rng.choice(WORD_CHARS[:13])


def gen_value(rng) -> str:
    """a value of the property's domain: any Unicode text without CR/LF."""
    r = rng.random()
    if r < 0.08:
        return gen_word(rng)
    r = rng.random()
    if r < 0.2:
        return _s(rng, TOK, 0, 6)
    if r < 0.9:
        return _s(rng, VAL_ATOMS, 0, 8)
    out = []
    for _ in range(rng.randint(1, 6)):
        c = rng.choice([rng.randint(0x20, 0x7e), rng.randint(0x80, 0x2100), rng.randint(0x10000, 0x10ffff), rng.randint(0, 0x1f)])
        if c in (10, 13) or 0xD800 <= c <= 0xDFFF:
            c = 0x41
        out.append(chr(c))
    return "".join(out)


def gen_key(rng, lower=False, star_free=True) -> str:
    al = TOK.replace("*", "") if star_free else TOK
    k = _s(rng, al, 1, 5)
    return k.lower() if lower else k


def gen_hostile(rng) -> str:
    return _s(rng, HDR_ATOMS, 0, 10)


def fl(items) -> str:
    return "|".join(cps(x) for x in items) if items else "~"


def fod(d) -> str:
    return "|".join(cps(k) + ("" if v is None else "=" + cps(v)) for k, v in d.items()) if d else "~"


def fz(z) -> str:
    """decimal text of an int of any size (the harness itself is not subject to the 4300-digit limit)."""
    import sys
    if z is None:
        return "~"
    old = sys.get_int_max_str_digits()
    sys.set_int_max_str_digits(0)
    try:
        return str(z)
    finally:
        sys.set_int_max_str_digits(old)


def exn(e) -> str:
    n = type(e).__name__
    return "err:" + ("binascii.Error" if n == "Error" else "UnicodeError" if isinstance(e, UnicodeError) else n)


_TIMEOUTS = [0]


def guarded(fn, secs=5.0):
    """with_timeout with a circuit breaker: once several calls have hung (a non-terminating mutant), further
    calls are reported as timeouts at once instead of waiting again."""
    if _TIMEOUTS[0] >= 6:
        raise ImplTimeout()
    try:
        return with_timeout(fn, secs)
    except ImplTimeout:
        _TIMEOUTS[0] += 1
        raise


class Cases:
    """collects (model line, implementation observation) pairs."""

    def __init__(self, chk):
        self.chk = chk
        self.lines = []
        self.impl = []
        self.canon = []

    def add(self, line, thunk, canon=None, key=None, nontrivial=True, bucket=None):
        try:
            out = guarded(thunk)
        except ImplTimeout:
            out = "timeout"
        except Exception as e:  # noqa: BLE001
            out = exn(e)
        self.lines.append(line)
        self.impl.append(out)
        self.canon.append(canon)
        self.chk.case(key if key is not None else line, nontrivial, sample={"case": line[:120], "impl": out[:120]})
        if bucket:
            self.chk.count(bucket)
        return out


def canon_etags(s: str) -> str:
    if not s.startswith("ok "):
        return s
    kind, st, wk = s[3:].split(";")
    f = lambda x: fl(sorted({uncps(t) for t in x.split("|")})) if x != "~" else "~"  # noqa: E731
    return f"ok {kind};{f(st)};{f(wk)}"


def run(chk: Check) -> None:
    import sys
    sys.set_int_max_str_digits(4300)
    import werkzeug.http as H
    from werkzeug import datastructures as ds

    rng = chk.rng
    quick = chk.tier == "quick"
    n = 2500 if quick else 40000
    C = Cases(chk)
    ST = sys.get_int_max_str_digits()
    if ST != 4300:
        chk.broken("environment", "int_max_str_digits", f"{ST} != 4300 (the int<->str limit of the model)")

    def rt_fail(key, what, inp):
        chk.fail(key, what, inp)

    def T(fn):
        """an implementation call of an oracle, under the wall-clock watchdog (a mutant may not terminate)."""
        return guarded(fn)

    import json
    with open(os.path.join(os.path.dirname(COQ), "corpus", "C06", "headers.json"), encoding="utf-8") as fh:
        corpus = json.load(fh)

    # ------------------------------------------------------------ quote / unquote
    corpus_vals = WORD_VALUES + ["", '"', "\\", '\\"', '"\\', "\\\\", 'a"b', "a b", "a,b", "%22", "a%22b", '"a"', "a\\", "\\\\\"", " ", "é", "\x00", "a;b=c", "*", "k*",
                   '"\\"', "\\\"\\", '""', "'", "\t", "\U0001f600"]
    vals = corpus_vals + [gen_value(rng) for _ in range(n)]
    for v in vals:
        for allow in (True, False):
            q = C.add(f"quote {int(allow)} {cps(v)}", lambda: cps(H.quote_header_value(v, allow_token=allow)))
        try:
            back = T(lambda: H.unquote_header_value(H.quote_header_value(v)))
            back2 = T(lambda: H.unquote_header_value(H.quote_header_value(v, allow_token=False)))
        except Exception as e:  # noqa: BLE001
            back = back2 = repr(e)
        if back != v or back2 != v:
            rt_fail("quote-roundtrip", f"unquote(quote(v)) = {back!r}", {"value": v})
    quoted_soup = ['"' + _s(rng, ["\\", '"', "a", "\\\\", '\\"', "%22", " "], 0, 6) + '"' for _ in range(n)]
    for v in vals[:len(corpus_vals)] + ['"\\\\""', '"\\"\\"'] + quoted_soup + [gen_hostile(rng) for _ in range(n)]:
        C.add(f"unquote {cps(v)}", lambda: cps(H.unquote_header_value(v)))

    # ------------------------------------------------------------ lists / sets
    lists = [[w] for w in WORD_VALUES] + [WORD_VALUES[:4], [], [""], ["", ""], ['"'], ["a", "b c"], ["a,b", 'c"d'], ["\\", "\\\\"], [" a "], ["a\\"]]
    lists += [[gen_value(rng) for _ in range(rng.randint(0, 4))] for _ in range(n)]
    for l in lists:
        hdr = C.add(f"dlist {fl(l)}", lambda: cps(H.dump_header(l)))
        try:
            back = T(lambda: H.parse_list_header(H.dump_header(l)))
            sback = list(H.parse_set_header(ds.HeaderSet(l).to_header()))
        except Exception as e:  # noqa: BLE001
            back = sback = repr(e)
        if back != l:
            rt_fail("list-roundtrip", f"parse_list_header(dump_header(l)) = {back!r}", {"list": l})
        if sback != l:
            rt_fail("set-roundtrip", f"parse_set_header(HeaderSet(l).to_header()) = {sback!r}", {"list": l})
    hostile = corpus["list"] + ['a, "b, c", d', '"a\\"b", c', 'a,,b', ',', '"', 'a"b,c"d', '"a" b, c', ' a ,b ', 'a\\,b', '"a\\', '""', '" "', "a,"] \
        + [gen_hostile(rng) for _ in range(n)]
    for h in hostile:
        C.add(f"plist {cps(h)}", lambda: fl(H.parse_list_header(h)))
        C.add(f"pset {cps(h)}", lambda: fl(list(H.parse_set_header(h))))
        # normal form
        try:
            p = T(lambda: H.parse_list_header(h))
            p2 = T(lambda: H.parse_list_header(H.dump_header(p)))
        except Exception as e:  # noqa: BLE001
            p, p2 = None, repr(e)
        if p != p2:
            rt_fail("list-normal-form", f"parse(dump(parse h)) = {p2!r} != parse h = {p!r}", {"header": h})

    # ------------------------------------------------------------ dicts
    dicts = [{"k": w} for w in WORD_VALUES] + [{"a": "café", "b": "日本語", "c": None}, {}, {"a": "b"}, {"a": None}, {"a": ""}, {"a": '"'}, {"a": "b c", "d": None, "e": "f,g"}, {"k": "%22"}, {"k": "x=y"}, {"k": " "}]
    for _ in range(n):
        d = {}
        for _ in range(rng.randint(0, 4)):
            d[gen_key(rng)] = None if rng.random() < 0.15 else gen_value(rng)
        dicts.append(d)
    for d in dicts:
        C.add(f"ddict {fod(d)}", lambda: "ok " + cps(H.dump_header(d)))
        try:
            back = T(lambda: H.parse_dict_header(H.dump_header(d)))
            ok = back == d and list(back) == list(d)
        except Exception as e:  # noqa: BLE001
            back, ok = repr(e), False
        if not ok:
            rt_fail("dict-roundtrip", f"parse_dict_header(dump_header(d)) = {back!r}", {"dict": d})
    # keys outside the domain (with '*', empty) on the dump side: model and implementation must still agree
    for _ in range(n // 5):
        d = {}
        for _ in range(rng.randint(1, 3)):
            d[rng.choice(["", "*", "a*", "k", "a*0"]) if rng.random() < 0.5 else gen_key(rng, star_free=False)] = \
                None if rng.random() < 0.2 else gen_value(rng)
        C.add(f"ddict {fod(d)}", lambda: "ok " + cps(H.dump_header(d)))
    dh = corpus["dict"] + ["a=b, c", 'a="b, c", d=e', "*=x", "a*=utf-8''%C3%A9", "a*=x''y", "a*=''%41", 'a*="x"', "=x", "a = b", 'a="b\\"c"', "a==b", "a*", "a*=UTF-8'en'%E2%82%AC",
          "k*=iso-8859-1''%E9", "k*=us-ascii''%E9", "k*=ascii''%C3", 'a="', "a=\"b\"c", "a=b=c", "\"a=b\"", "a*=utf-8''%zz%4", "a*=utf-8''é%41"] \
        + [gen_hostile(rng) for _ in range(2 * n)]
    for h in dh:
        C.add(f"pdict {cps(h)}", lambda: "ok " + fod(H.parse_dict_header(h)))
        try:
            p = T(lambda: H.parse_dict_header(h))
        except Exception:  # noqa: BLE001
            continue
        guard = all(k and set(k) <= RFC_TCHAR and "*" not in k for k in p)
        try:
            p2 = T(lambda: H.parse_dict_header(H.dump_header(p)))
        except Exception as e:  # noqa: BLE001
            # whatever the keys are, re-serialising a parsed header must not blow up
            rt_fail("dict-redump-raises", f"dump_header(parse_dict_header(h)) raises {type(e).__name__}: {e}", {"header": h, "parsed": p})
            continue
        if p2 != p:
            if guard:
                rt_fail("dict-normal-form", f"parse(dump(parse h)) = {p2!r} != parse h = {p!r}", {"header": h})
            else:
                chk.count("dict-normal-form: fails outside token keys (documented guard)")

    # ------------------------------------------------------------ option headers
    def gen_opts():
        o = {}
        for _ in range(rng.randint(0, 4)):
            v = gen_value(rng).replace("%22", "%2")
            o[gen_key(rng, lower=True)] = v
        return o
    opt_cases = [("attachment", {"filename": w}) for w in WORD_VALUES] + [("form-data", {"name": "café", "filename": "日本語"}), ("text/html", {}), ("text/html", {"charset": "utf-8"}), ("a", {"b": ""}), ("a", {"b": '"'}), ("a", {"b": "\\"}), ("a", {"b": "c;d", "e": "f"}),
                 ("form-data", {"name": 'a"b', "filename": "é .txt"}), ("x", {"k": "%2"}), ("x", {"k": "a%22".replace("%22", "%2 2")})]
    for _ in range(n):
        hd = rng.choice(["text/html", "a", "form-data", "x y", "é", "*/*"]) if rng.random() < 0.7 else \
            (_s(rng, [a for a in VAL_ATOMS if ";" not in a], 1, 4).strip() or "h")
        opt_cases.append((hd, gen_opts()))
    for hd, o in opt_cases:
        C.add(f"dopt {cps(hd)} {fod(o)}", lambda: "ok " + cps(H.dump_options_header(hd, o)))
        try:
            back = T(lambda: H.parse_options_header(H.dump_options_header(hd, o)))
            ok = back == (hd, o) and list(back[1]) == list(o)
        except Exception as e:  # noqa: BLE001
            back, ok = repr(e), False
        if not ok:
            rt_fail("options-roundtrip", f"parse_options_header(dump_options_header(h, o)) = {back!r}", {"header": hd, "options": o})
    oh = corpus["options"] + ["text/html; charset=utf-8", 'form-data; name="a\\"b"; filename="x%22y"', "a; b*=utf-8''%C3%A9", "a; b*0=x; b*1=y", "a; b*0*=utf-8''%41; b*1*=%42",
          "a;*=b", "a; b", "a; b=", 'a; b="c', "a; b=c d; e=f", "a;;b=c", ";a=b", "a; B=C", 'a; b="c"d; e=f', "a; b*=x'y'z", "a; b*=''%41", 'a; b*="%41"',
          "a; b*=utf-8''%22", "a; b*1=x; b*=y", "a; b**=x", "a; b*01=x", 'a; b="\\\\"', 'a; b="\\', "a; b=c;", "a ; b = c", "a; b*=UTF-8''%e9; c*=%e9",
          "a; b*=x''%41; c*=%42", "a; k*=utf-8''é%41"] + [gen_hostile(rng) for _ in range(3 * n)]
    for h in oh:
        C.add(f"popt {cps(h)}", lambda: (lambda r: "ok " + cps(r[0]) + ";" + fod(r[1]))(H.parse_options_header(h)))

    # always-quoted parameter values without escaping (what the multipart encoder writes): C06_options_always_quoted
    for _ in range(n // 2):
        o = {}
        for k in rng.sample(["name", "filename", "x-y", "a", "k1"], rng.randint(1, 3)):
            o[k] = _s(rng, [a for a in VAL_ATOMS if '"' not in a and "\\" not in a and a != "%22"], 0, 6).replace("%22", "%2")
        hd = rng.choice(["form-data", "attachment", "text/html"])
        text = hd + "".join(f'; {k}="{v}"' for k, v in o.items())
        C.add(f"popt {cps(text)}", lambda: (lambda r: "ok " + cps(r[0]) + ";" + fod(r[1]))(H.parse_options_header(text)))
        try:
            back = T(lambda: H.parse_options_header(text))
        except Exception as e:  # noqa: BLE001
            back = repr(e)
        if back != (hd, o):
            rt_fail("options-always-quoted", f"parse_options_header({text!r}) = {back!r}", {"header": hd, "options": o})

    # ------------------------------------------------------------ entity tags
    def gen_tag():
        return (gen_value(rng).replace('"', "'") or "t")
    et_cases = [(["a"], [], False), ([], ["a"], False), (["a", "b"], ["c"], False), ([], [], True), ([], [], False), (["*"], [], False), ([","], [", "], False),
                (["W/"], ["w/x"], False), ([" a "], [], False)]
    for _ in range(n):
        et_cases.append(([gen_tag() for _ in range(rng.randint(0, 3))], [gen_tag() for _ in range(rng.randint(0, 2))], rng.random() < 0.05))
    for st, wk, star in et_cases:
        e = ds.ETags(st, wk, star)
        # frozenset order: hand the model the order the implementation will iterate in
        ist, iwk = list(e._strong), list(e._weak)
        C.add(f"detags {fl(ist)} {fl(iwk)} {int(star)}", lambda: cps(e.to_header()))
        if star and wk:
            continue  # star with weak tags: to_header is "*" by design, outside the property's domain
        try:
            b = T(lambda: H.parse_etags(e.to_header()))
            ok = (b._strong, b._weak, b.star_tag) == (e._strong, e._weak, e.star_tag)
        except Exception as ex:  # noqa: BLE001
            b, ok = repr(ex), False
        if not ok:
            rt_fail("etags-roundtrip", f"parse_etags(e.to_header()) = {b!r}", {"strong": st, "weak": wk, "star": star})
    eh = corpus["etags"] + ['"a", W/"b"', "*", 'a, b', 'W/"a"', '"a', 'a"', '"a"b, c', '""', 'W/', ',', ' , ', '"a" , "b"', '"a","b"', "w/x", '"a"\xa0,\x85"b"', "*, a", '"*"', "a b , c",
          '"a", *'] + [gen_hostile(rng).replace("\n", " ") for _ in range(2 * n)]
    for h in eh:
        C.add(f"petags {cps(h)}", lambda: (lambda e: f"ok {'star' if e.star_tag else 'tags'};{fl(sorted(e._strong))};{fl(sorted(e._weak))}")(H.parse_etags(h)),
              canon=canon_etags)
        try:
            e1 = T(lambda: H.parse_etags(h))
            e2 = T(lambda: H.parse_etags(e1.to_header()))
            if (e1._strong, e1._weak, e1.star_tag) != (e2._strong, e2._weak, e2.star_tag) and not (e1.star_tag and e1._weak):
                rt_fail("etags-normal-form", f"parse(to_header(parse h)) = {e2!r} != parse h = {e1!r}", {"header": h})
        except Exception as ex:  # noqa: BLE001
            rt_fail("etags-normal-form", f"re-serialising parse_etags(h) raised {ex!r}", {"header": h})
        C.add(f"uqetag {cps(h)}", lambda: (lambda r: "~" if r[0] is None else cps(r[0]) + ";" + str(int(r[1])))(H.unquote_etag(h)))
    for v in corpus["if_range_etags"] + [gen_value(rng) for _ in range(n // 2)]:
        C.add(f"qetag {cps(v)} 0", lambda: "ok " + cps(H.quote_etag(v)))
        if '"' not in v and v == v.strip() and v and not v.lower().startswith("w/"):
            # If-Range with an entity tag (domain: what quote_etag accepts, read back by unquote_etag)
            try:
                b = T(lambda: H.parse_if_range_header(ds.IfRange(v).to_header()))
                ok = b.etag == v and b.date is None
            except Exception as ex:  # noqa: BLE001
                b, ok = repr(ex), False
            if not ok and H.parse_date('"' + v + '"') is not None:
                rt_fail("if-range-date-like-etag", f"IfRange(etag={v!r}).to_header() = {ds.IfRange(v).to_header()!r} is read back as a date "
                        f"({getattr(b, 'date', b)!r}), not as the entity tag", {"etag": v})
            elif not ok:
                rt_fail("if-range-roundtrip", f"parse_if_range_header(IfRange(etag).to_header()).etag = {getattr(b, 'etag', b)!r}", {"etag": v})

    # ------------------------------------------------------------ Range / Content-Range
    def gen_int(big=False):
        r = rng.random()
        if r < 0.6:
            return rng.randint(0, 30)
        if r < 0.9:
            return rng.randint(0, 10 ** rng.randint(3, 25))
        return 10 ** rng.choice([4298, 4299, 4300, 4301]) - rng.randint(0, 1) if big else rng.randint(0, 10 ** 30)

    def gen_ranges():
        out, pos = [], 0
        if rng.random() < 0.15:
            return [(-rng.randint(1, 10 ** rng.randint(0, 12)), None)]
        for _ in range(rng.randint(1, 4)):
            b = pos + gen_int()
            if rng.random() < 0.2:
                out.append((b, None))
                break
            e = b + 1 + gen_int()
            out.append((b, e))
            pos = e
        return out
    rc = [("bytes", [(0, 10)]), ("bytes", [(0, None)]), ("bytes", [(-5, None)]), ("bytes", [(0, 1), (5, None)]), ("items", [(3, 4), (4, 9)]),
          ("bytes", [(0, 10 ** 4300)]), ("bytes", [(0, 10 ** 4300 + 1)]), ("bytes", [(10 ** 4299, None)]), ("bytes", [(10 ** 4300, None)]), ("bytes", [])]
    for _ in range(n):
        rc.append((rng.choice(["bytes", "bytes", "items", "x-y", "é"]), gen_ranges()))
    # the property's full domain has every multi-range with 0 <= start < stop, in any order
    rc += [("bytes", [tuple(x) for x in rs_]) for rs_ in corpus["unordered_range"]]
    for _ in range(n // 10):
        rs_ = gen_ranges()
        rng.shuffle(rs_)
        rc.append(("bytes", rs_))
    # constructor rejections as well
    rc += [("bytes", [(5, 5)]), ("bytes", [(6, 5)]), ("bytes", [(-1, 5)]), ("bytes", [(0, 5), (3, 9)])]

    def frange(r):
        return cps(r.units) + ";" + (",".join(f"{fz(b)}:{fz(e)}" for b, e in r.ranges) if r.ranges else "~")
    for u, rs in rc:
        items = ",".join(f"{fz(b)}:{fz(e)}" for b, e in rs) if rs else "~"
        out = C.add(f"drange {cps(u)} {items}", lambda: "ok " + cps(ds.Range(u, rs).to_header()))
        if out.startswith("ok ") and rs:
            dom = all(e is None or 0 <= b < e for b, e in rs) and all(b != 0 or e is not None or True for b, e in rs)
            dom = dom and all(rs[i][1] is not None and rs[i][1] <= rs[i + 1][0] for i in range(len(rs) - 1)) and all(b >= 0 for b, _ in rs[1:]) \
                and (rs[0][0] >= 0 or len(rs) == 1)
            each = all(e is not None and 0 <= b < e for b, e in rs)
            if not dom and each and len(rs) > 1:
                b = T(lambda: H.parse_range_header(uncps(out[3:])))
                if b is None or list(b.ranges) != rs:
                    rt_fail("range-unordered", "Range(units, ranges).to_header() is not read back by parse_range_header when the ranges are not "
                            f"ascending and disjoint: {uncps(out[3:])!r} -> {b!r}", {"units": u, "ranges": [list(map(fz, x)) for x in rs]})
            if dom:
                try:
                    b = T(lambda: H.parse_range_header(uncps(out[3:])))
                    ok = b is not None and b.units == u and list(b.ranges) == rs
                except Exception as ex:  # noqa: BLE001
                    b, ok = repr(ex), False
                if not ok:
                    rt_fail("range-roundtrip", f"parse_range_header(r.to_header()) = {b!r}", {"units": u, "ranges": [list(map(fz, x)) for x in rs]})
    rh = corpus["range"] + ["bytes=0-9", "bytes=-5", "bytes=5-", "bytes=0-0,2-3", "bytes=0-5,3-9", "bytes=5-3", "bytes=-0", "bytes=--5", "bytes=a-b", "bytes=", "=", "bytes=1-2-3", "bytes= 1 - 2 ",
          "BYTES=1-2", "bytes=1-,3-4", "bytes=-5,1-2", "bytes=1-2,-5", "bytes=1-2,-5,7-8", "x", "bytes=0-" + "9" * 4300, "bytes=0-" + "9" * 4301, "bytes=" + "0" * 4301 + "-",
          "bytes=١-٢", "bytes=+1-2", "bytes=1_0-20", "É=1-2", "bytes=1-2,", "bytes=,1-2", "bytes=-", "bytes=1\xa0-\x852"] + \
         [_s(rng, ["bytes", "=", "-", ",", " ", "0", "1", "5", "9", "12", "-5", "\t", "a", "*", "/", "\xa0", "=", "É", "00", "7-", "3-4"], 0, 9) for _ in range(2 * n)]
    for h in rh:
        C.add(f"prange {cps(h)}", lambda: (lambda r: "ok ~" if r is None else "ok " + frange(r))(H.parse_range_header(h)))

    def fcr(c):
        return ";".join(["~" if c.units is None else cps(c.units), fz(c.start), fz(c.stop), fz(c.length)])
    cc = [("bytes", 0, 10, 20), ("bytes", None, None, 20), ("bytes", 0, 10, None), ("bytes", None, None, None), (None, None, None, None), ("bytes", 5, 5, 10), ("bytes", 0, 11, 10),
          ("bytes", 0, None, 5), ("bytes", 0, 10 ** 4300, None), ("bytes", 0, 10 ** 4300 + 1, None), ("bytes", None, None, -1), ("bytes", -1, 5, 10), ("a b", 0, 1, 2)]
    for _ in range(n):
        a = gen_int()
        b = a + 1 + gen_int() if rng.random() < 0.9 else a - rng.randint(0, 3)
        ln = rng.choice([None, b + gen_int(), a, b - 1 if b > 0 else 0])
        if rng.random() < 0.15:
            a = b = None
        cc.append((rng.choice(["bytes", "bytes", "items", "é"]), a, b, ln))
    for u, a, b, ln in cc:
        out = C.add(f"dcrange {'~' if u is None else cps(u)} {fz(a)} {fz(b)} {fz(ln)}", lambda: "ok " + cps(ds.ContentRange(u, a, b, ln).to_header()))
        if out.startswith("ok ") and u is not None and u and not any(ch.isspace() for ch in u):
            try:
                r = T(lambda: H.parse_content_range_header(uncps(out[3:])))
                ok = r is not None and (r.units, r.start, r.stop, r.length) == (u, a, b, ln)
            except Exception as ex:  # noqa: BLE001
                r, ok = repr(ex), False
            if not ok:
                rt_fail("content-range-roundtrip", f"parse_content_range_header(c.to_header()) = {r!r}", {"units": u, "start": fz(a), "stop": fz(b), "length": fz(ln)})
        for x in (a, b, ln):
            pass
        C.add(f"ibrv {fz(a)} {fz(b)} {fz(ln)}", lambda: str(H.is_byte_range_valid(a, b, ln)).lower(), nontrivial=False)
    ch = corpus["content_range"] + ["bytes 0-9/20", "bytes */20", "bytes 0-9/*", "bytes */*", "bytes 0-9", "bytes", "", " ", "bytes 9-0/20", "bytes 0-20/10", "bytes 0-9/-1", "bytes a-b/c", "bytes 0-9/ 20 ",
          "bytes  0-9/20", "bytes 0 - 9/20", "bytes -1-5/10", "bytes 1--5/10", "bytes\xa00-9/20", "bytes 0-9/20/30", "bytes */-5", "x y z/1", "bytes 0-" + "9" * 4301 + "/*"] + \
         [_s(rng, ["bytes", " ", "/", "-", "*", "0", "1", "5", "9", "20", "\t", "a", "\xa0", "-5", "0-9", "/20", "/*", "*/"], 0, 8) for _ in range(2 * n)]
    for h in ch:
        C.add(f"pcrange {cps(h)}", lambda: (lambda r: "ok ~" if r is None else "ok " + fcr(r))(H.parse_content_range_header(h)))

    # ------------------------------------------------------------ age
    from datetime import timedelta
    ages = [0, 1, 59, 3600, 86400 * 999999999 + 86399, 86400 * 1000000000, 10 ** 20, 10 ** 4299, 10 ** 4300, -1] + [gen_int() for _ in range(n // 2)]
    for a in ages:
        out = C.add(f"dage {fz(a)}", lambda: "ok " + cps(H.dump_age(a)))
        if out.startswith("ok ") and 0 <= a <= 86400 * 1000000000 - 1:
            try:
                b = T(lambda: H.parse_age(H.dump_age(a)))
                ok = b == timedelta(seconds=a)
            except Exception as ex:  # noqa: BLE001
                b, ok = repr(ex), False
            if not ok:
                rt_fail("age-roundtrip", f"parse_age(dump_age(a)) = {b!r}", {"age": fz(a)})
    ah = corpus["age"] + ["0", "5", "-1", " 5 ", "+5", "1_0", "1__0", "_1", "1_", "", "a", "5.0", "9" * 4300, "9" * 4301, "86399999999999", "86400000000000", "0x10", "٣", "- 5", "--5", "1 0"] + \
         [_s(rng, ["0", "1", "9", "5", "_", "-", "+", " ", "\t", "a", ".", "\xa0", "12", "000"], 0, 7) for _ in range(n)]
    for h in ah:
        if any(ord(c) > 127 and c.isdigit() for c in h):
            chk.count("age: non-ASCII digits (outside the int() model, implementation only)")
            with_timeout(H.parse_age, 5.0, h)
            continue
        C.add(f"page {cps(h)}", lambda: (lambda r: "ok ~" if r is None else "ok " + str(r.days * 86400 + r.seconds))(H.parse_age(h)))

    # ------------------------------------------------------------ CSP
    csps = [{"default-src": "'self'"}, {"default-src": "'self'", "script-src": "a b c"}, {}]
    for _ in range(n // 2):
        d = {}
        for _ in range(rng.randint(0, 3)):
            k = _s(rng, "abc-xyz09'*", 1, 6)
            v = " ".join(_s(rng, "abc'*:/.-09é", 1, 5) for _ in range(rng.randint(1, 3)))
            d[k] = v
        csps.append(d)
    for d in csps:
        C.add(f"dcsp {fod(d)}", lambda: cps(ds.ContentSecurityPolicy(d).to_header()))
        try:
            b = dict(H.parse_csp_header(ds.ContentSecurityPolicy(d).to_header()))
        except Exception as ex:  # noqa: BLE001
            b = repr(ex)
        if b != d:
            rt_fail("csp-roundtrip", f"parse_csp_header(csp.to_header()) = {b!r}", {"csp": d})
    for h in ["default-src 'self'; script-src a b", "a", "a b;c", " a  b ; c d ", ";;", "a b; a c", "a\tb", "a\xa0b c"] + \
             [_s(rng, ["a", "b", " ", ";", "-src", "'self'", "\t", "\xa0", "  ", "*", "é"], 0, 9) for _ in range(n)]:
        C.add(f"pcsp {cps(h)}", lambda: fod(dict(H.parse_csp_header(h))))

    # ------------------------------------------------------------ cache-control typed properties
    props = []
    for cls in (ds.RequestCacheControl, ds.ResponseCacheControl):
        for name in dir(cls):
            p = getattr(cls, name, None)
            if isinstance(p, property) and p.fget is not None and p.fget.__closure__:
                cells = {c.cell_contents if not callable(c.cell_contents) else None for c in p.fget.__closure__}
                fv = dict(zip(p.fget.__code__.co_freevars, (c.cell_contents for c in p.fget.__closure__)))
                if "key" in fv and "type" in fv:
                    props.append((cls, name, fv["key"], fv["empty"], fv["type"]))
    chk.count("cache-control typed properties found", len(props))
    if len(props) < 20:
        chk.broken("harness", "cache-control properties", f"only {len(props)} typed properties discovered")

    def ccv(v):
        return "none" if v is None else ("true" if v else "false") if isinstance(v, bool) else f"i{v}" if isinstance(v, int) else "s" + cps(v)
    tyname = {bool: "bool", int: "int", None: "str"}
    for cls, name, key, empty, ty in props:
        vals_ = {bool: [True, False], int: [0, 5, 3600, 10 ** 12, -1, None], None: ["x", "a b", 'a"b', "", None, True]}[ty]
        for v in vals_:
            cc_ = ds.ResponseCacheControl()  # mutable for setting; the getter under test is cls's own
            try:
                getattr(ds.ResponseCacheControl, name) if hasattr(ds.ResponseCacheControl, name) else None
                setter = getattr(cls, name).fset
                setter(cc_, v)
                hdr = cc_.to_header()
                back = getattr(cls(H.parse_dict_header(hdr)), name)
            except Exception as ex:  # noqa: BLE001
                back, hdr = repr(ex), None
            want = v
            if ty is bool:
                want = bool(v)
            elif v is None or v is False:
                want = False if ty is bool else None
            elif v is True:
                want = empty
            if back != want:
                rt_fail("cache-control-roundtrip", f"{cls.__name__}.{name}: set {v!r}, header {hdr!r}, read back {back!r}", {"property": name, "value": repr(v)})
            C.add(f"ccset ~ {cps(key)} {ccv(v)} {tyname[ty]}", lambda: "ok " + fod(dict(cc_)), nontrivial=True)
        for raw in [None, "5", "x", "", " 7 ", "1_0", "-3", "9" * 4301]:
            d = {key: raw}
            C.add(f"ccget {fod(d)} {cps(key)} {ccv(empty)} {tyname[ty]}", lambda: ccv(getattr(cls(d), name)))
        C.add(f"ccget ~ {cps(key)} {ccv(empty)} {tyname[ty]}", lambda: ccv(getattr(cls({}), name)))

    # ------------------------------------------------------------ purity: parsing is a function of the text
    # p(h) -> r1; snapshot; mutate r1 in place where it is mutable; p(h) again -> r2: r2 must equal the snapshot and be a new object
    # (state that survives between calls - a cache handing out a shared dict - is invisible to serialise -> parse -> compare)
    def snap(r):
        if r is None or isinstance(r, (str, int, float, bool)):
            return r
        if isinstance(r, tuple):
            return ("tuple", tuple(snap(x) for x in r))
        if isinstance(r, ds.ETags):
            return ("etags", sorted(r._strong), sorted(r._weak), r.star_tag)
        if isinstance(r, ds.Range):
            return ("range", r.units, [tuple(x) for x in r.ranges])
        if isinstance(r, ds.ContentRange):
            return ("crange", r.units, r.start, r.stop, r.length)
        if isinstance(r, (ds.Authorization, ds.WWWAuthenticate)):
            return ("auth", r.type, sorted(dict(r.parameters).items(), key=repr), r.token)
        if isinstance(r, ds.HeaderSet):
            return ("set", list(r))
        if isinstance(r, dict):
            return ("dict", type(r).__name__, [(k, snap(v)) for k, v in r.items()])
        if isinstance(r, list):
            return ("list", type(r).__name__, [snap(x) for x in r])
        return ("repr", repr(r))

    def mutate(r):
        """edit r in place through its public surface; True when it is a mutable result."""
        try:
            if isinstance(r, tuple):
                return any([mutate(x) for x in r])
            if isinstance(r, ds.HeaderSet):
                r.add("x-purity-probe")
                if len(r) > 1:
                    r.discard(r[0])
                return True
            if isinstance(r, dict):
                keys = list(r)
                r["x-purity-probe"] = "1"
                if keys:
                    r[keys[0]] = "overwritten"
                if len(keys) > 1:
                    del r[keys[1]]
                return True
            if isinstance(r, list):
                r.append("x-purity-probe")
                return True
            if isinstance(r, ds.Range):
                r.ranges.append((10 ** 9, None))
                r.units = "x-purity-probe"
                return True
            if isinstance(r, ds.ContentRange):
                r.units = "x-purity-probe"
                return True
            if isinstance(r, ds.ETags):
                r.star_tag = not r.star_tag
                return True
            if isinstance(r, ds.WWWAuthenticate):
                r.parameters["x-purity-probe"] = "1"
                r.type = "x-purity-probe"
                return True
            if isinstance(r, ds.Authorization):
                r.parameters["x-purity-probe"] = "1"
                r.token = "x-purity-probe"
                r.type = "x-purity-probe"
                return True
        except (TypeError, AttributeError):
            return False        # immutable result (ImmutableList, RequestCacheControl ...): nothing to share
        return False
    PURE = [("parse_options_header", H.parse_options_header), ("parse_dict_header", H.parse_dict_header), ("parse_list_header", H.parse_list_header),
            ("parse_set_header", H.parse_set_header), ("parse_cache_control_header", H.parse_cache_control_header),
            ("parse_cache_control_header[Response]", lambda h: H.parse_cache_control_header(h, cls=ds.ResponseCacheControl)),
            ("parse_csp_header", H.parse_csp_header), ("parse_etags", H.parse_etags), ("parse_range_header", H.parse_range_header),
            ("parse_content_range_header", H.parse_content_range_header), ("parse_accept_header", H.parse_accept_header),
            ("parse_accept_header[MIME]", lambda h: H.parse_accept_header(h, ds.MIMEAccept)),
            ("Authorization.from_header", ds.Authorization.from_header), ("WWWAuthenticate.from_header", ds.WWWAuthenticate.from_header)]
    pure_texts = ["text/html; charset=utf-8", 'form-data; name="a"; filename="b.txt"', "a=b, c=d, e", "max-age=5, no-cache", "default-src 'self'; img-src *",
                  '"a", W/"b"', "bytes=0-9,20-29", "bytes 0-9/20", "text/html;q=0.5, */*;q=0.1;level=1", "Digest realm=x, nonce=y", "Basic dXNlcjpwYXNz", "Bearer abc",
                  "a, b, c", "attachment; filename*=utf-8''%C3%A9; x=1"] + oh[:n // 4] + dh[:n // 4] + eh[:n // 8] + rh[:n // 8] + [gen_hostile(rng) for _ in range(n // 4)]
    for h in pure_texts:
        for pname, pfn in PURE:
            try:
                r1 = T(lambda: pfn(h))
                want = snap(r1)
                was_mutable = mutate(r1)
                r2 = T(lambda: pfn(h))
                got = snap(r2)
            except Exception:  # noqa: BLE001  (a parser that raises is C07's business)
                continue
            if got != want:
                rt_fail("parser-not-pure", f"{pname}({h!r}) after its previous result was edited returns {got!r}, first call returned {want!r}", {"parser": pname, "header": h})
            elif was_mutable and r2 is r1:
                rt_fail("parser-not-pure", f"{pname}({h!r}) hands out the same mutable object on every call", {"parser": pname, "header": h})
            chk.case(("pure", pname, h))
    # the same through two successive requests with the same Content-Type
    from werkzeug.wrappers import Request as _Req
    for ct in ["text/html; charset=utf-8", 'multipart/form-data; boundary="x y"', "a/b; k=v; j=w"] + [t for t in oh[:n // 8] if all(ord(c) < 256 for c in t)]:
        try:
            env = {"REQUEST_METHOD": "GET", "CONTENT_TYPE": ct, "wsgi.url_scheme": "http", "SERVER_NAME": "l", "SERVER_PORT": "80"}
            p1 = T(lambda: _Req(dict(env)).mimetype_params)
            want = dict(p1)
            p1["x-purity-probe"] = "1"
            for k in list(want):
                p1[k] = "overwritten"
            p2 = T(lambda: _Req(dict(env)).mimetype_params)
        except Exception:  # noqa: BLE001
            continue
        if dict(p2) != want or p2 is p1:
            rt_fail("parser-not-pure", f"Request.mimetype_params for Content-Type {ct!r}: a second request sees {dict(p2)!r} after the first request's dict was edited "
                    f"(first saw {want!r})", {"content_type": ct})
        chk.case(("pure-request", ct))

    # ------------------------------------------------------------ base64 and the auth schemes
    import base64
    for _ in range(n // 2):
        b = bytes(rng.randrange(256) for _ in range(rng.choice([0, 1, 2, 3, 4, 5, 6, 7, 30])))
        C.add(f"b64e {cps(b.decode('latin1'))}", lambda: cps(base64.b64encode(b).decode("ascii")))
        if base64.b64decode(base64.b64encode(b).decode("ascii")) != b:
            chk.broken("stdlib", "base64", f"b64decode(b64encode(b)) != b for {b!r}")
    creds = [("user", "pass"), ("", ""), ("ü", "p:€"), ("a", ":"), ("\U0001f600", "x y"), (" ", " ")]
    for _ in range(n // 2):
        creds.append((gen_value(rng).replace(":", ";"), gen_value(rng)))
    for i, (u, pw) in enumerate(creds):
        bsp = ["basic", "Basic", "BASIC", "bAsIc"][i % 4]
        a = ds.Authorization(bsp, {"username": u, "password": pw})
        C.add(f"basic {cps(u)} {cps(pw)}", lambda: cps(a.to_header()))
        try:
            b = T(lambda: ds.Authorization.from_header(a.to_header()))
            ok = b is not None and b.type == "basic" and b.username == u and b.password == pw and b.token is None and b == a
        except Exception as ex:  # noqa: BLE001
            b, ok = repr(ex), False
        if not ok:
            rt_fail("auth-basic-roundtrip", f"Authorization({bsp!r}, ...): from_header(to_header()) = {b!r}", {"scheme": bsp, "username": u, "password": pw})
    # every spelling of a scheme: the type is lower-cased on construction, so from_header(to_header(v)) == v whatever the spelling
    schemes = ["bearer", "negotiate", "x-custom", "a1", "digest", "token68", "Bearer", "BEARER", "Digest", "DIGEST", "Negotiate", "X-Custom", "bEaReR"]
    toks = ["abc", "a.b-c==", "", "dXNlcg==", "a/b+c", "é", "x y", "a=", "=", "==", "a~b_c"] + [_s(rng, TOK + "/=é", 0, 8).strip() for _ in range(n // 4)]
    for tok in toks:
        sch = rng.choice(schemes)
        C.add(f"tokhdr {cps(sch.lower())} {cps(tok)}", lambda: cps(ds.Authorization(sch, token=tok).to_header()))
        C.add(f"tokhdr {cps(sch.lower())} {cps(tok)}", lambda: cps(ds.WWWAuthenticate(sch, token=tok).to_header()))
        if "=" in tok.rstrip("=") or tok != tok.strip():
            continue
        for cls in (ds.Authorization, ds.WWWAuthenticate):
            try:
                v0 = cls(sch, token=tok)
                b = T(lambda: cls.from_header(v0.to_header()))
                ok = b is not None and b.type == sch.lower() and b.token == tok and not dict(b.parameters) and b == v0
            except Exception as ex:  # noqa: BLE001
                b, ok = repr(ex), False
            if not ok:
                rt_fail("auth-token-roundtrip", f"{cls.__name__}.from_header(to_header()) = {b!r}", {"scheme": sch, "token": tok})
    for v in ["bearer", "x-custom", "a1b", "éa", "a b", "o'neil", "ABC"] + [_s(rng, "abAB1-_ .'é", 0, 7) for _ in range(n // 4)]:
        if any(ord(c) > 127 for c in v):
            continue        # str.title on non-ASCII letters is outside the model
        C.add(f"title {cps(v)}", lambda: cps(v.title()))
    # parameter schemes (implementation-level oracle; Digest quoting rule included)
    for _ in range(n // 2):
        sch = rng.choice(["digest", "x-custom", "negotiate", "Digest", "DIGEST", "X-Custom", "Negotiate"])
        d = {}
        for _ in range(rng.randint(1, 4)):
            d[rng.choice(["realm", "nonce", "qop", "opaque", "domain", "algorithm", "stale"]) if rng.random() < 0.6 else gen_key(rng)] = gen_value(rng)
        if sch.lower() == "digest":
            C.add(f"digesthdr {fod(d)}", lambda: cps(ds.WWWAuthenticate(sch, dict(d)).to_header()))
        else:
            C.add(f"paramhdr {cps(sch.lower())} {fod(d)}", lambda: "ok " + cps(ds.WWWAuthenticate(sch, dict(d)).to_header()))
            C.add(f"paramhdr {cps(sch.lower())} {fod(d)}", lambda: "ok " + cps(ds.Authorization(sch, dict(d)).to_header()))
        for cls in (ds.Authorization, ds.WWWAuthenticate):
            try:
                v0 = cls(sch, dict(d))
                b = T(lambda: cls.from_header(v0.to_header()))
                ok = b is not None and b.type == sch.lower() and dict(b.parameters) == d and b.token is None and b == v0
            except Exception as ex:  # noqa: BLE001
                b, ok = repr(ex), False
            if not ok:
                rt_fail("auth-params-roundtrip", f"{cls.__name__}.from_header(to_header()) = {b!r}", {"scheme": sch, "parameters": d})
            chk.case(("auth-params", cls.__name__, sch, tuple(d.items())))

    # ------------------------------------------------------------ dates
    import datetime as dtm
    dts = [dtm.datetime(2026, 1, 1), dtm.datetime(1000, 1, 1), dtm.datetime(9999, 12, 31, 23, 59, 59), dtm.datetime(2024, 2, 29, 12, 0, 0),
           dtm.datetime(2026, 1, 1, tzinfo=dtm.timezone.utc), dtm.datetime(2026, 6, 30, 23, 59, 59, tzinfo=dtm.timezone(dtm.timedelta(hours=-12))),
           dtm.datetime(1000, 1, 2, tzinfo=dtm.timezone(dtm.timedelta(hours=23, minutes=59))), dtm.datetime(9999, 12, 30, tzinfo=dtm.timezone(dtm.timedelta(hours=-23, minutes=-59)))]
    for _ in range(n):
        try:
            d0 = dtm.datetime(rng.randint(1000, 9999), rng.randint(1, 12), rng.randint(1, 28) if rng.random() < 0.8 else rng.randint(29, 31),
                              rng.randint(0, 23), rng.randint(0, 59), rng.randint(0, 59))
        except ValueError:
            continue
        if rng.random() < 0.5:
            off = dtm.timedelta(minutes=rng.randint(-1439, 1439), seconds=rng.choice([0, 0, 0, 30]))
            d0 = d0.replace(tzinfo=dtm.timezone(off))
            try:
                d0.astimezone(dtm.timezone.utc)
            except OverflowError:
                continue
            if not 1000 <= d0.astimezone(dtm.timezone.utc).year <= 9999:
                continue
        dts.append(d0)
    # every flavour of datetime: zero-offset zones that are not the timezone.utc singleton, custom tzinfo classes, named zones
    class _FixedTz(dtm.tzinfo):
        def __init__(self, minutes, name):
            self._off, self._name = dtm.timedelta(minutes=minutes), name

        def utcoffset(self, dt):
            return self._off

        def dst(self, dt):
            return dtm.timedelta(0)

        def tzname(self, dt):
            return self._name
    zones = [dtm.timezone.utc, dtm.timezone(dtm.timedelta(0)), dtm.timezone(dtm.timedelta(0), "X"), dtm.timezone(dtm.timedelta(hours=5, minutes=30)),
             dtm.timezone(dtm.timedelta(hours=-8), "PST"), _FixedTz(0, "Zero"), _FixedTz(0, "UTC"), _FixedTz(90, "Plus"), _FixedTz(-570, "Minus")]
    try:
        from zoneinfo import ZoneInfo
        for zn in ("UTC", "Etc/UTC", "Europe/London", "Africa/Abidjan", "America/New_York", "Asia/Kolkata", "Australia/Lord_Howe"):
            try:
                zones.append(ZoneInfo(zn))
            except Exception:  # noqa: BLE001  (no tzdata on this machine)
                chk.count("dates: ZoneInfo zone unavailable")
    except ImportError:
        chk.count("dates: zoneinfo unavailable")
    bases = [dtm.datetime(2026, 1, 15, 12, 30, 45), dtm.datetime(2026, 7, 15, 0, 0, 0), dtm.datetime(1970, 1, 1), dtm.datetime(2038, 1, 19, 3, 14, 8),
             dtm.datetime(1000, 6, 1), dtm.datetime(9999, 6, 1, 23, 59, 59), dtm.datetime(2024, 2, 29, 23, 59, 59), dtm.datetime(2025, 3, 30, 1, 30), dtm.datetime(2025, 10, 26, 1, 30)]
    for bz in bases:
        for z in zones:
            dts.append(bz.replace(tzinfo=z))
    for _ in range(n // 4):
        bz = dtm.datetime(rng.randint(1001, 9998), rng.randint(1, 12), rng.randint(1, 28), rng.randint(0, 23), rng.randint(0, 59), rng.randint(0, 59))
        dts.append(bz.replace(tzinfo=rng.choice(zones)))
    # int / float timestamps, struct_time and plain dates: the other documented inputs of http_date
    import re as _re
    import time as _time
    imf = _re.compile(r"(Mon|Tue|Wed|Thu|Fri|Sat|Sun), \d{2} (Jan|Feb|Mar|Apr|May|Jun|Jul|Aug|Sep|Oct|Nov|Dec) \d{4} \d{2}:\d{2}:\d{2} GMT")
    stamps = [0, 1, 59, 86399, 86400, 951782400, 2 ** 31 - 1, 2 ** 31, 2 ** 32, 253402300799, 1700000000.0, 1700000000.5, 0.999, 1e9] + \
             [rng.randint(0, 253402300799) for _ in range(n // 8)] + [rng.uniform(0, 4e9) for _ in range(n // 8)]
    others = [(ts, int(ts // 1)) for ts in stamps] + [(_time.localtime(int(ts)), int(ts)) for ts in stamps[:12] + stamps[14:14 + n // 16] if ts < 2 ** 33] + \
             [(dtm.date(y, mo, d), int(dtm.datetime(y, mo, d, tzinfo=dtm.timezone.utc).timestamp())) for y, mo, d in [(1970, 1, 1), (2026, 12, 31), (2024, 2, 29), (1000, 1, 1), (9999, 12, 31)]]
    for x, instant in others:
        try:
            hdr = T(lambda: H.http_date(x))
            got = T(lambda: H.parse_date(hdr))
            ok = imf.fullmatch(hdr) is not None and got is not None and got.tzinfo is not None and int(got.timestamp()) == instant
            what = f"http_date = {hdr!r}, parse_date = {got!r}"
        except Exception as ex:  # noqa: BLE001
            ok, what = False, f"raised {type(ex).__name__}: {ex}"
        if not ok:
            rt_fail("date-roundtrip", f"http_date({x!r}): {what}, instant {instant}", {"value": repr(x)})
        chk.case(("date-other", repr(x)))
    contract_bad = 0
    for d0 in dts:
        u = d0.replace(tzinfo=dtm.timezone.utc) if d0.tzinfo is None else d0.astimezone(dtm.timezone.utc)
        tt = u.timetuple()
        C.add(f"fdate {tt[6]} {tt[2]} {tt[1]} {tt[0]} {tt[3]} {tt[4]} {tt[5]}", lambda: cps(H.http_date(d0)))
        try:
            hdr = T(lambda: H.http_date(d0))
        except Exception as ex:  # noqa: BLE001
            rt_fail("date-roundtrip", f"http_date({d0!r}) raised {type(ex).__name__}: {ex}", {"datetime": repr(d0)})
            continue
        if imf.fullmatch(hdr) is None:
            rt_fail("date-shape", f"http_date({d0!r}) = {hdr!r} is not an IMF-fixdate", {"datetime": repr(d0)})
        C.add(f"pdate {cps(hdr)}", lambda: (lambda r: "~" if r is None else f"{r.day} {r.month} {r.year} {r.hour} {r.minute} {r.second}")(H.parse_date(hdr)))
        # the calendar contract of C06_date_roundtrip: the constructor inverts the UTC field view
        if dtm.datetime(tt[0], tt[1], tt[2], tt[3], tt[4], tt[5], tzinfo=dtm.timezone.utc) != u or not (0 <= tt[6] < 7):
            contract_bad += 1
        try:
            back = T(lambda: H.parse_date(H.http_date(d0)))
            ok = back is not None and back.tzinfo is not None and back == u
        except Exception as ex:  # noqa: BLE001
            back, ok = repr(ex), False
        if not ok:
            rt_fail("date-roundtrip", f"parse_date(http_date({d0!r})) = {back!r}", {"datetime": repr(d0)})
    # the three accepted shapes, every zone word, two-digit years around the pivot, impossible dates
    WD3 = ["Mon", "Tue", "Wed", "Thu", "Fri", "Sat", "Sun"]
    WDL = ["Monday", "Tuesday", "Wednesday", "Thursday", "Friday", "Saturday", "Sunday"]
    MON = ["Jan", "Feb", "Mar", "Apr", "May", "Jun", "Jul", "Aug", "Sep", "Oct", "Nov", "Dec"]
    ZN = ["GMT", "UT", "UTC", "Z", "AST", "ADT", "EST", "EDT", "CST", "CDT", "MST", "MDT", "PST", "PDT", "gmt", "est", "+0000", "-0000", "+0100", "-0830", "+2359", "-2359",
          "+2400", "+0099", "-9999", "XYZ", "+01", "+01000"]
    shapes = ["Sun, 06 Nov 1994 08:49:37 GMT", "Sunday, 06-Nov-94 08:49:37 GMT", "Sun Nov  6 08:49:37 1994", "Sun Nov 6 08:49:37 1994", "Sun, 6 Nov 1994 08:49:37 GMT",
              "06 Nov 1994 08:49:37 GMT", "Sun, 06 Nov 1994 08:49:37", "Sun, 06 Nov 0050 08:49:37 GMT", "Sun, 29 Feb 1900 00:00:00 GMT", "Sun, 29 Feb 2000 00:00:00 GMT",
              "Sun, 31 Apr 2026 00:00:00 GMT", "Sun, 00 Jan 2026 00:00:00 GMT", "Sun, 01 Jan 2026 24:00:00 GMT", "Sun, 01 Jan 2026 23:60:00 GMT", "Sun, 01 Jan 2026 23:59:60 GMT",
              "Sun, 01 Jan 0000 00:00:00 GMT", "Sun, 01 Jan 9999 23:59:59 GMT", "Xyz Nov  6 08:49:37 1994", "Sunday, 06-Nov-1994 08:49:37 GMT", "Sun, 06 nov 1994 08:49:37 GMT",
              "Sun, 06 NOV 1994 08:49:37 gmt", "Sun, 06 Nov 94 08:49:37 GMT", "Sunday, 06-Nov-94 08:49:37", "Sun, 006 Nov 1994 08:49:37 GMT", "Sun, 06 Nove 1994 08:49:37 GMT"]
    for yy in ["00", "01", "49", "50", "51", "67", "68", "69", "70", "99"]:
        shapes += [f"Sunday, 06-Nov-{yy} 08:49:37 GMT", f"Sun, 06 Nov {yy} 08:49:37 GMT", f"Sun, 06 Nov 00{yy} 08:49:37 GMT", f"Sun Nov  6 08:49:37 00{yy}"]
    for z in ZN:
        shapes += [f"Sun, 06 Nov 1994 08:49:37 {z}", f"Sunday, 06-Nov-94 08:49:37 {z}"]
    for _ in range(n):
        d_, mo_, y4 = rng.choice([1, 9, 10, 28, 29, 30, 31]), rng.randrange(12), rng.choice([1, 99, 100, 1000, 1900, 1999, 2000, 2024, 2026, 2100, 9999, rng.randint(1, 9999)])
        tm_ = f"{rng.choice([0, 9, 12, 23])if rng.random() < 0.9 else 24:02d}:{rng.choice([0, 30, 59]):02d}:{rng.choice([0, 59]) if rng.random() < 0.9 else 60:02d}"
        z = rng.choice(ZN)
        k = rng.randrange(3)
        if k == 0:
            shapes.append(f"{rng.choice(WD3)}, {d_:02d} {MON[mo_]} {y4:04d} {tm_} {z}")
        elif k == 1:
            shapes.append(f"{rng.choice(WDL)}, {d_:02d}-{MON[mo_]}-{y4 % 100:02d} {tm_} {z}")
        else:
            shapes.append(f"{rng.choice(WD3)} {MON[mo_]} {d_:2d} {tm_} {y4:04d}")
    for t_ in shapes:
        def show_date(r):
            if r is None:
                return "~"
            return f"{r.day} {r.month} {r.year} {r.hour} {r.minute} {r.second} {int(r.utcoffset().total_seconds()) // 60}"
        C.add(f"pdate3 {cps(t_)}", lambda: show_date(H.parse_date(t_)))
        # normal form on the implementation: http_date(parse_date(t)) is read back as the same instant
        try:
            r1 = T(lambda: H.parse_date(t_))
            # the year that http_date WRITES is the UTC year of the instant: 0100-01-01 23:00 +2359 is written as year 0099,
            # which the library reads back as 1999 (C06_date_small_year_refuted: years below 100 are outside the domain)
            if r1 is not None and r1.year >= 100 and r1.astimezone(dtm.timezone.utc).year >= 100:
                r2 = T(lambda: H.parse_date(H.http_date(r1)))
                if r2 is None or r2 != r1:
                    rt_fail("date-normal-form", f"parse_date(http_date(parse_date({t_!r}))) = {r2!r} != {r1!r}", {"text": t_})
        except Exception as ex:  # noqa: BLE001
            if not isinstance(ex, OverflowError):
                rt_fail("date-normal-form", f"http_date(parse_date({t_!r})) raised {type(ex).__name__}: {ex}", {"text": t_})
    if contract_bad:
        chk.broken("contract", "calendar (datetime / email.utils)", f"{contract_bad} instants are not rebuilt from their UTC field tuple")
    chk.count("dates", len(dts))

    # ------------------------------------------------------------ model side
    exe = chk.build_modelrun("C06")
    if exe:
        res = chk.run_model(exe, C.lines)
        if res is not None:
            mism = 0
            for ln, a, b, cn in zip(C.lines, C.impl, res, C.canon):
                if cn is not None:
                    b = cn(b)
                if a != b:
                    mism += 1
                    if mism <= 6:
                        chk.broken("correspondence", "C06 model vs werkzeug", f"case {ln[:200]!r}: impl {a[:200]!r} model {b[:200]!r}",
                                   case={"line": ln[:2000], "impl": a[:2000], "model": b[:2000]})
            chk.count("model:compared", len(C.lines))
            chk.count("model:mismatches", mism)


def main(chk: Check) -> None:
    try:
        gen()
        from . import c07 as c07mod     # the auth round trips are stated over C07's from_header model
        c07mod.gen()
    except px.Unsupported as e:
        chk.broken("translator", "C06/Gen.v", str(e))
    chk.forbidden_scan()
    if chk.coq_make(["C06/Props.vo", "C06/Extract.vo"]):
        chk.audit_props("C06/Props.v")
    else:
        chk.cov["obligations"] += 1
    chk.trusted += [
        "translator tools/c06.py + tools/pyextract.py (token set, regex class tables via CPython re, charset allow list, Digest key set, is_byte_range_valid by T2)",
        "extraction ExtrOcamlBasic + tools/conv.ml + coq/C06/driver.ml, OCaml 4.13.1",
        "hand-written matchers for _etag_re, _parameter_key_re, _parameter_token_value_re, _charset_value_re, _continuation_re, _plain_int_re "
        "(texts pinned by C06/Gen.v), urllib.request.parse_http_list and urllib.parse.unquote: validated by differential execution",
        "str.strip / Unicode \\s = the interpreter's 29 white-space code points and str.lower on Latin-1 (both re-checked against the interpreter by the translator)",
        "statement pins tools/pins/c06_codecs.txt (50 function / method skeletons of http.py, _internal.py and the typed header classes; holes where Gen.v regenerates)",
        "validated differentially only, no pin wanted because it is CPython library code, not werkzeug code: urllib.request.parse_http_list, urllib.parse.unquote, "
        "base64 / binascii, email.utils (format_datetime, formatdate, parsedate_to_datetime), datetime / timezone arithmetic, str.strip / lower / title / partition / split, int() / str(int), re",
        "int <-> str: Coq's Decimal/DecimalN conversion, with CPython's 4300-digit limit as a model constant (checked at run time)",
        "calendar contract of C06_date_roundtrip (Section variables): datetime <-> UTC field tuple with the constructor inverting the view; "
        "email.utils.format_datetime / parsedate_to_datetime agree with the field codec on the canonical IMF-fixdate form: both checked by the harness on every generated instant",
        "Authorization / WWWAuthenticate.from_header are the C07 models (C07/Model.v, except clause regenerated in C07/Gen.v); str.title modelled on ASCII",
    ]
    run(chk)
    chk.finish(rule="per codec: corpus of past/edge cases, values from the property's alphabet (quote, backslash, comma, semicolon, equals, star, percent, %22, "
                    "blanks, TAB, NUL, DEL, non-ASCII, non-BMP) for dump->parse on the implementation (oracle = the property) and for model-vs-implementation "
                    "on both directions, hostile header text for every parser. Non-trivial = all; distinct by hash of the model command line.")


def replay(rep) -> int:
    """re-run a replay file's input on the implementation and print what happens."""
    import json
    import werkzeug.http as H
    from werkzeug import datastructures as ds
    print(json.dumps({k: rep.get(k) for k in ("property", "kind", "key", "what", "no_longer_checks")}, indent=1, default=repr))
    inp, key = rep.get("input"), rep.get("key") or ""
    rc = 0
    try:
        if key == "quote-roundtrip":
            v = inp["value"]
            print("quote:", repr(H.quote_header_value(v)), "unquote(quote):", repr(H.unquote_header_value(H.quote_header_value(v))), "value:", repr(v))
        elif key in ("list-roundtrip", "set-roundtrip"):
            l = inp["list"]
            print("dump:", repr(H.dump_header(l)), "parse(dump):", H.parse_list_header(H.dump_header(l)), "list:", l)
        elif key == "list-normal-form":
            p = H.parse_list_header(inp["header"])
            print("parse:", p, "parse(dump(parse)):", H.parse_list_header(H.dump_header(p)))
        elif key == "dict-roundtrip":
            d = inp["dict"]
            print("dump:", repr(H.dump_header(d)), "parse(dump):", H.parse_dict_header(H.dump_header(d)), "dict:", d)
        elif key in ("dict-normal-form", "dict-redump-raises"):
            p = H.parse_dict_header(inp["header"])
            print("parse:", p)
            print("dump(parse):", repr(H.dump_header(p)), "parse(dump(parse)):", H.parse_dict_header(H.dump_header(p)))
        elif key == "options-roundtrip":
            h, o = inp["header"], inp["options"]
            print("dump:", repr(H.dump_options_header(h, o)), "parse(dump):", H.parse_options_header(H.dump_options_header(h, o)))
        elif key == "etags-roundtrip":
            e = ds.ETags(inp["strong"], inp["weak"], inp["star"])
            print("to_header:", repr(e.to_header()), "parse:", H.parse_etags(e.to_header()))
        elif key in ("range-roundtrip", "range-unordered"):
            r = ds.Range(inp["units"], [(int(b), None if e == "~" else int(e)) for b, e in inp["ranges"]])
            print("to_header:", repr(r.to_header()), "parse:", H.parse_range_header(r.to_header()))
        elif key == "content-range-roundtrip":
            f = lambda x: None if x == "~" else int(x)  # noqa: E731
            c = ds.ContentRange(inp["units"], f(inp["start"]), f(inp["stop"]), f(inp["length"]))
            print("to_header:", repr(c.to_header()), "parse:", H.parse_content_range_header(c.to_header()))
        elif key == "age-roundtrip":
            print("dump:", H.dump_age(int(inp["age"])), "parse(dump):", H.parse_age(H.dump_age(int(inp["age"]))))
        else:
            print("replay input:", json.dumps(inp if inp is not None else rep.get("broken"), indent=1, default=repr)[:3000])
    except Exception as e:  # noqa: BLE001
        print(f"raised {type(e).__name__}: {e}")
        rc = 1
    return rc
