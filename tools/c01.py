"""C01  Multipart decoding does not depend on how the body is chunked."""
from __future__ import annotations

import ast
import io
import itertools
import os

from . import pyextract as px
from .vlib import COQ, Check, hexs, unhex, with_timeout

PID = "C01"
CLAIM = dict(
    text="Coq theorems over an executable model of sansio.multipart.MultipartDecoder and the formparser loop "
         "(C01_chunk_independence: for every body the one-shot decoder accepts and EVERY chunking of it the parts are the "
         "one-shot parts, payloads byte-exact, header blocks parsed identically; C01_formparser_read_schedule: every buffer size "
         "and short-read pattern of the form parser is such a chunking; C01_decode_render: rendered bodies decode to their parts; "
         "search-position and hold-back invariants; the arithmetic of the source regenerated and proved equal to the model's; "
         "every other statement of the decoder and of the form parser's loop pinned as text, tools/pins/c01_decoder.txt), "
         "with the model compared event by event (including Data "
         "fragmentation, state, buffer length and search position after every next_event) against the real decoder on "
         "structured and malformed bodies under one-shot, byte-at-a-time, random k-way and exhaustive 2-/3-way splits, "
         "and an impl-level oracle that compares parts across schedules and buffer sizes.",
    note="Trusted: Coq kernel; translator tools/c01.py (constants, regex texts, T2 arithmetic, statement-skeleton pin); extraction + driver; hand-written matchers "
         "for the four regexes validated differentially; header-block parsing (name/filename/headers from the raw block) is "
         "done by werkzeug's own _parse_headers/parse_options_header on the raw block the model emits (a function of the block).",
    design="6/C01")


def _skeleton(fn: ast.FunctionDef, holes: dict) -> str:
    """normalised text of a function: docstring stripped, translated expressions replaced by their hole names"""
    import copy
    fn = copy.deepcopy(fn)
    if fn.body and isinstance(fn.body[0], ast.Expr) and isinstance(fn.body[0].value, ast.Constant) \
            and isinstance(fn.body[0].value.value, str):
        fn.body = fn.body[1:]
    t = ast.unparse(fn)
    for k, v in sorted(holes.items(), key=lambda kv: -len(kv[0])):
        t = t.replace(k, v)
    return t


def gen() -> None:
    mp = px.load("sansio/multipart.py")
    extra = px.const(px.find_assign(mp, "SEARCH_EXTRA_LENGTH"))
    if not isinstance(extra, int) or extra < 0:
        raise px.Unsupported("SEARCH_EXTRA_LENGTH is not a non-negative int")
    line_break = px.const(px.find_assign(mp, "LINE_BREAK"))
    blank_pat, blank_flags = None, None
    node = px.find_assign(mp, "BLANK_LINE_RE")
    blank_pat, blank_flags = px.regex_of(node)
    # the per-boundary patterns: the two rb"..." templates inside MultipartDecoder.__init__
    cls = px.find_class(mp, "MultipartDecoder")
    templates = {}
    for n in ast.walk(cls):
        if isinstance(n, ast.Assign) and len(n.targets) == 1 and isinstance(n.targets[0], ast.Attribute) \
                and n.targets[0].attr in ("preamble_re", "boundary_re"):
            call = n.value
            if not (isinstance(call, ast.Call) and isinstance(call.func, ast.Attribute) and call.func.attr == "compile"):
                raise px.Unsupported("per-boundary regex is not re.compile(...)")
            arg = call.args[0]
            if not (isinstance(arg, ast.BinOp) and isinstance(arg.op, ast.Mod)):
                raise px.Unsupported("per-boundary regex is not a % template")
            templates[n.targets[0].attr] = (px.const(arg.left), ast.unparse(arg.right))
    if set(templates) != {"preamble_re", "boundary_re"}:
        raise px.Unsupported(f"per-boundary regexes found: {sorted(templates)}")
    states = [n.targets[0].id for n in px.find_class(mp, "State").body
              if isinstance(n, ast.Assign) and isinstance(n.targets[0], ast.Name)]
    # ---- T2: the arithmetic of the incremental search and of the hold-back, translated from the source
    ne = px.find_method(cls, "next_event")
    pdm = px.find_method(cls, "_parse_data")
    spos_assigns = [n for n in ast.walk(ne) if isinstance(n, ast.Assign) and ast.unparse(n.targets[0]) == "self._search_position"
                    and not (isinstance(n.value, ast.Constant) and n.value.value == 0)]
    if len(spos_assigns) != 2:
        raise px.Unsupported(f"next_event has {len(spos_assigns)} non-zero _search_position assignments, expected 2")
    names = {"len(self.buffer)": "buflen", "len(self.boundary)": "blen", "SEARCH_EXTRA_LENGTH": "search_extra_length",
             "match.start()": "ms", "match.end()": "me", "len(data)": "datalen", "data_end": "data_end",
             "del_index": "del_index", "data_start": "data_start"}

    def bytes_len(node):
        """length of a bytes expression built from literals, `boundary` (= b"--" + self.boundary) and self.boundary"""
        if isinstance(node, ast.Constant) and isinstance(node.value, bytes):
            return str(len(node.value))
        if isinstance(node, ast.BinOp) and isinstance(node.op, ast.Add):
            return f"({bytes_len(node.left)} + {bytes_len(node.right)})"
        t = ast.unparse(node)
        if t == "self.boundary":
            return "blen"
        if t == "boundary":
            return "(2 + blen)"
        raise px.Unsupported(f"bytes expression not recognised: {t}")

    def nat(node):
        t = ast.unparse(node)
        if t in names:
            return names[t]
        if isinstance(node, ast.Constant) and isinstance(node.value, int) and node.value >= 0:
            return str(node.value)
        if isinstance(node, ast.Call) and isinstance(node.func, ast.Name) and node.func.id == "len" and len(node.args) == 1:
            return bytes_len(node.args[0])
        if isinstance(node, ast.BinOp) and isinstance(node.op, ast.Add):
            return f"({nat(node.left)} + {nat(node.right)})"
        if isinstance(node, ast.BinOp) and isinstance(node.op, ast.FloorDiv) and isinstance(node.right, ast.Constant):
            return f"(Nat.div {nat(node.left)} {int(node.right.value)})"
        raise px.Unsupported(f"arithmetic not in the translated subset: {t}")

    def trunc(node):
        """max(0, a - b - c) over non-negative ints = truncated subtraction chain in nat"""
        if not (isinstance(node, ast.Call) and isinstance(node.func, ast.Name) and node.func.id == "max" and len(node.args) == 2
                and isinstance(node.args[0], ast.Constant) and node.args[0].value == 0):
            raise px.Unsupported(f"search position is not max(0, ...): {ast.unparse(node)}")
        def sub(n):
            if isinstance(n, ast.BinOp) and isinstance(n.op, ast.Sub):
                return f"({sub(n.left)} - {nat(n.right)})"
            return nat(n)
        return sub(node.args[1])

    def zexpr(node):
        if isinstance(node, ast.BinOp) and isinstance(node.op, (ast.Sub, ast.Add)):
            return f"({zexpr(node.left)} {'-' if isinstance(node.op, ast.Sub) else '+'} {zexpr(node.right)})%Z"
        return f"(Z.of_nat {nat(node)})"

    pre_spos, part_spos = [trunc(a.value) for a in sorted(spos_assigns, key=lambda n: n.lineno)]
    if "blen" not in pre_spos or "blen" in part_spos:
        raise px.Unsupported("the PREAMBLE / PART search-position formulas are not where the model expects them")
    he = [n for n in ast.walk(ne) if isinstance(n, ast.Assign) and ast.unparse(n.targets[0]) == "headers_end"]
    if len(he) != 1:
        raise px.Unsupported("headers_end assignment not found")
    binding = [n for n in ast.walk(pdm) if isinstance(n, ast.Assign) and ast.unparse(n.targets[0]) == "boundary"]
    if len(binding) != 1 or ast.unparse(binding[0].value) != "b'--' + self.boundary":
        raise px.Unsupported("_parse_data no longer binds boundary = b'--' + self.boundary")
    far = [n for n in ast.walk(pdm) if isinstance(n, ast.If) and "len(data) - data_end" in ast.unparse(n.test)]
    wait = [n for n in ast.walk(pdm) if isinstance(n, ast.If) and ast.unparse(n.test).replace(" ", "") in ("del_index<data_start", "data_start>del_index")]
    if len(far) != 1 or len(wait) != 1:
        raise px.Unsupported(f"_parse_data: far-shortcut tests found {len(far)}, wait tests found {len(wait)}")
    ft = far[0].test
    if not (isinstance(ft, ast.Compare) and len(ft.ops) == 1 and isinstance(ft.ops[0], (ast.Gt, ast.GtE, ast.Lt, ast.LtE))):
        raise px.Unsupported("far-shortcut test is not a single comparison")
    zl, zr = zexpr(ft.left), zexpr(ft.comparators[0])
    far_term = {ast.Gt: f"Z.ltb {zr} {zl}", ast.GtE: f"Z.leb {zr} {zl}", ast.Lt: f"Z.ltb {zl} {zr}", ast.LtE: f"Z.leb {zl} {zr}"}[type(ft.ops[0])]
    # ---- statement skeletons: everything of the decoder and of the form parser's loop that is NOT translated above is
    # pinned as normalised source text (ast.unparse: layout and comments do not matter, docstrings stripped) with holes
    # where the translated expressions sit, so that an edit either changes Gen.v (and has to get past the proofs) or
    # is refused here.  The pin file is the source the hand-written coq/C01/Model.v was written against.
    holes = {ast.unparse(a.value): "<SEARCH-POSITION>" for a in spos_assigns}
    holes[ast.unparse(he[0].value)] = "<HEADERS-END>"
    holes[ast.unparse(far[0].test)] = "<FAR-FROM-BOUNDARY>"
    holes[ast.unparse(wait[0].test)] = "<WAIT>"
    fpm = px.load("formparser.py")
    # the limit conditions are C10's (translated there into coq/C10/Gen.v): holes here
    for fn_ in (px.find_method(cls, "receive_data"), ne, px.find_method(px.find_class(fpm, "MultiPartParser"), "parse")):
        for i_ in px.ifs_raising(fn_, "RequestEntityTooLarge"):
            holes[ast.unparse(i_.test)] = "<LIMIT-CONDITION>"
    skel = []
    for owner, fn in ([("MultipartDecoder", px.find_method(cls, m)) for m in
                       ("__init__", "last_newline", "receive_data", "next_event", "_parse_headers", "_parse_data")]
                      + [("MultiPartParser", px.find_method(px.find_class(fpm, "MultiPartParser"), "parse")),
                         ("formparser", px.find_def(fpm, "_chunk_iter"))]):
        skel.append(f"## {owner}.{fn.name}\n" + _skeleton(fn, holes))
    skel_text = "\n".join(skel) + "\n"
    pin_path = os.path.join(os.path.dirname(__file__), "pins", "c01_decoder.txt")
    if os.environ.get("VERIF_WRITE_PINS") == "C01":      # maintenance only (after reviewing Model.v against the source)
        with open(pin_path, "w") as fh:
            fh.write(skel_text)
    with open(pin_path) as fh:
        want = fh.read()
    if skel_text != want:
        import difflib
        d = "\n".join(list(difflib.unified_diff(want.splitlines(), skel_text.splitlines(), "pinned", "source", lineterm="", n=1))[:40])
        raise px.Unsupported("statement skeleton of the multipart decoder / form parser loop changed (coq/C01/Model.v was written "
                             "against tools/pins/c01_decoder.txt):\n" + d)
    text = px.HEADER.format(tool="c01.py", src="sansio/multipart.py")
    text += "From Coq Require Import ZArith.\n"
    text += f"Definition search_extra_length : nat := {extra}%nat.\n"
    text += f"Definition gen_preamble_spos (buflen blen : nat) : nat := ({pre_spos})%nat.\n"
    text += f"Definition gen_part_spos (buflen : nat) : nat := ({part_spos})%nat.\n"
    text += f"Definition gen_headers_end (ms me : nat) : nat := ({nat(he[0].value)})%nat.\n"
    text += f"Definition gen_far (datalen data_end blen : nat) : bool := {far_term}.\n"
    wt = wait[0].test
    a, b = nat(wt.left), nat(wt.comparators[0])
    wait_term = {ast.Lt: f"Nat.ltb {a} {b}", ast.Gt: f"Nat.ltb {b} {a}"}.get(type(wt.ops[0]))
    if wait_term is None:
        raise px.Unsupported("wait test is not a strict comparison")
    text += f"Definition gen_wait (del_index data_start : nat) : bool := {wait_term}.\n"
    text += f"Definition line_break_text : list N := {px.coq_string_codes(line_break)}.\n"
    text += f"Definition blank_line_text : list N := {px.coq_string_codes(blank_pat)}.\n"
    text += f"Definition preamble_template : list N := {px.coq_string_codes(templates['preamble_re'][0])}.\n"
    text += f"Definition boundary_template : list N := {px.coq_string_codes(templates['boundary_re'][0])}.\n"
    text += f"Definition template_args : list N := {px.coq_string_codes(templates['preamble_re'][1] + '|' + templates['boundary_re'][1])}.\n"
    text += f"Definition state_names : list (list N) := [{'; '.join(px.coq_string_codes(s) for s in states)}].\n"
    px.write_if_changed(os.path.join(COQ, "C01", "Gen.v"), text)


# ====================================================================== generators

def _payload(rng, B: bytes, lb: bytes) -> bytes:
    atoms_all = [b"\r", b"\n", b"\r\n", b"-", b"--", b"a", b"bc", b"\x00\xff", "é€😀".encode(), "ü".encode() * 3, B[: max(1, len(B) // 2)], b"--" + B[:-1],
                 b"--" + B, lb + b"--" + B[:-1], lb + b"-", lb, b"x" * 40, b" ", b"\t", B, lb + b"--" + B[:-1] + b"!"]
    # look-alike delimiter lines: the boundary with ONE byte replaced (at every position holding a character that is special
    # in a regular expression, and at a random one): equal to the delimiter for a matcher that treats such a byte as a wildcard
    spots = [i for i, c in enumerate(B) if c in b".+*?()[]{}|^$\\"] or [rng.randrange(len(B))]
    for i in spots[:3]:
        la = B[:i] + (b"x" if B[i:i + 1] != b"x" else b"y") + B[i + 1:]
        atoms_all += [lb + b"--" + la + lb, lb + b"--" + la + b"--" + lb, lb + b"--" + la]
    # ... and the boundary in another letter case (equal to the delimiter for a case-insensitive matcher)
    if B.swapcase() != B:
        atoms_all += [lb + b"--" + B.swapcase() + lb, lb + b"--" + B.upper() + b"--" + lb, lb + b"--" + B.lower()]
    if lb == b"\n":
        atoms = [a for a in atoms_all if b"\r" not in a]
    elif lb == b"\r":
        atoms = [a for a in atoms_all if b"\n" not in a]
    else:
        atoms = atoms_all
    n = rng.choice([0, 0, 1, 2, 3, 5, 8])
    p = b"".join(rng.choice(atoms) for _ in range(n))
    # keep the body well formed: the payload must not contain  LB--B  (any line-break kind)
    for l in (b"\r\n", b"\n", b"\r"):
        p = p.replace(l + b"--" + B, l + b"-~" + B)
    if p.startswith(b"--" + B):
        p = b"~" + p
    return p


def gen_body(rng, malformed: bool = False):
    """a multipart body from the render grammar: (boundary, body bytes, description)"""
    B = rng.choice([b"B", b"bound", b"----WebKitFormBoundaryAb12", b"-x", b"a-b", b"0123456789" * 3,
                    # every character RFC 2046 allows in a boundary, among them the ones special in regular expressions
                    b"a.b", b"x+y(z)", b"---------------WerkzeugFormPart_1759400000.120.5234", b"q?=:'/,", b"(", b"a b"])
    lb = rng.choice([b"\r\n", b"\r\n", b"\r\n", b"\n", b"\r"])
    pre = rng.choice([b"", b"", b"pre", b"pre" + lb + b"amble"])
    if rng.random() < 0.2:
        # a long preamble (longer than a part's header block): the search position left behind by the PREAMBLE state and
        # chunk edges inside the preamble then matter for the first part
        pre = lb.join(rng.choice([b"This is a multi-part message in MIME format.", b"x" * rng.randint(1, 80), b"--" + B + b"x",
                                  b"-- " + B, b"-" * rng.randint(1, 5), b""]) for _ in range(rng.randint(1, 4)))
        if not pre.strip(b"\r\n"):
            pre = b"p" * 60
    nparts = rng.choice([0, 1, 1, 2, 3])
    out = bytearray()
    if pre:
        out += pre + lb
    elif rng.random() < 0.5:
        out += lb
    for i in range(nparts):
        blanks = rng.choice([b"", b"", b" ", b"\t ", b"      "]) if True else b""
        out += b"--" + B + blanks + lb
        name = rng.choice([b"a", b"field", b"f\xc3\xa9"])
        hdr = b'Content-Disposition: form-data; name="' + name + b'"'
        if rng.random() < 0.4:
            hdr += b'; filename="' + rng.choice([b"x.txt", b"", b"a b.bin"]) + b'"'
            hdr += lb + b"Content-Type: " + rng.choice([b"text/plain", b"application/octet-stream", b"text/plain; charset=iso-8859-1"])
        if rng.random() < 0.2:
            hdr += lb + b"X-Long: a" + lb + b" continued"
        out += hdr + lb
        kind = rng.random()
        if kind < 0.2:
            # body-less part: the delimiter shares the blank line's line break
            pass
        else:
            out += lb + _payload(rng, B, lb)
        out += lb
    out += b"--" + B + b"--" + rng.choice([b"", b"", b" ", lb, lb + b"epilogue", b" \t" + lb])
    body = bytes(out)
    if malformed:
        k = rng.random()
        if k < 0.25:
            body = body[: rng.randint(0, len(body))]
        elif k < 0.5 and body:
            i = rng.randrange(len(body))
            body = body[:i] + bytes([rng.randrange(256)]) + body[i + 1:]
        elif k < 0.75:
            i = rng.randrange(len(body) + 1)
            body = body[:i] + rng.choice([b"\r", b"\n", b"--", b"--" + B, b"\r\n\r\n", b"\n\n"]) + body[i:]
        else:
            body = bytes(rng.randrange(256) if rng.random() < 0.5 else rng.choice(b"\r\n-B ") for _ in range(rng.randint(0, 40)))
    return B, body, lb


def splits_random(rng, n: int, k: int):
    cuts = sorted(rng.randrange(n + 1) for _ in range(k))
    return cuts


def chunks_of(body: bytes, cuts) -> list[bytes]:
    out, prev = [], 0
    for c in list(cuts) + [len(body)]:
        if c > prev:
            out.append(body[prev:c])
            prev = c
    return out


# ====================================================================== implementation runner

def impl_trace(B: bytes, chunks: list[bytes], max_mem=None, max_parts=None):
    """drive the real decoder exactly like MultiPartParser.parse does; one line per next_event
    with the white-box state after it."""
    from werkzeug.exceptions import RequestEntityTooLarge
    from werkzeug.sansio import multipart as M
    dec = M.MultipartDecoder(B, max_form_memory_size=max_mem, max_parts=max_parts)
    out = []
    order = list(M.State)

    def snap():
        return f"{order.index(dec.state)}:{len(dec.buffer)}:{dec._search_position}"
    try:
        for data in list(chunks) + [None]:
            dec.receive_data(data)
            while True:
                # raw header block, captured before next_event consumes it
                pre_buf = bytes(dec.buffer)
                ev = dec.next_event()
                if isinstance(ev, M.NeedData):
                    out.append("N@" + snap())
                    break
                if isinstance(ev, M.Epilogue):
                    out.append("E:" + hexs(ev.data) + "@" + snap())
                    break
                if isinstance(ev, M.Preamble):
                    out.append("P:" + hexs(ev.data) + "@" + snap())
                elif isinstance(ev, (M.Field, M.File)):
                    out.append("H:@" + snap())   # header block compared separately (see part_identity)
                elif isinstance(ev, M.Data):
                    out.append("D:" + hexs(ev.data) + ":" + ("1" if ev.more_data else "0") + "@" + snap())
    except RequestEntityTooLarge:
        out.append("X:413")
    except ValueError as e:
        out.append("X:value" if "Content-Disposition" not in str(e) and not isinstance(e, UnicodeError) else "X:header")
    except Exception as e:  # noqa: BLE001
        out.append("X:" + type(e).__name__)
    return out


def impl_parts(B: bytes, chunks: list[bytes]):
    """(kind, name, filename, headers, payload) per part via the real decoder, or an error tag"""
    from werkzeug.sansio import multipart as M
    dec = M.MultipartDecoder(B)
    parts, cur = [], None
    try:
        for data in list(chunks) + [None]:
            dec.receive_data(data)
            while True:
                ev = dec.next_event()
                if isinstance(ev, (M.NeedData, M.Epilogue)):
                    break
                if isinstance(ev, M.File):
                    cur = ["file", ev.name, ev.filename, list(ev.headers), b""]
                elif isinstance(ev, M.Field):
                    cur = ["field", ev.name, None, list(ev.headers), b""]
                elif isinstance(ev, M.Data):
                    cur[4] += ev.data
                    if not ev.more_data:
                        parts.append(tuple(cur))
                        cur = None
    except Exception as e:  # noqa: BLE001
        return ("error", type(e).__name__, len(parts))
    return parts


def impl_form(B: bytes, body: bytes, buffer_size: int, short: int | None):
    from werkzeug.formparser import MultiPartParser

    class S(io.RawIOBase):
        def __init__(self, data):
            self.data, self.pos = data, 0

        def read(self, n=-1):
            if n is None or n < 0:
                n = len(self.data)
            if short:
                n = min(n, short)
            r = self.data[self.pos:self.pos + n]
            self.pos += len(r)
            return r
    try:
        form, files = MultiPartParser(buffer_size=buffer_size).parse(S(body), B, len(body))
        return (list(form.items(multi=True)),
                [(k, f.filename, f.content_type, f.stream.read()) for k, f in files.items(multi=True)])
    except Exception as e:  # noqa: BLE001
        return ("error", type(e).__name__)


def _cps(s: str) -> str:
    return ",".join(str(ord(c)) for c in s) if s else "-"


def model_lines(B, chunks, max_mem=None, max_parts=None):
    return (f"trace {hexs(B)} {'~' if max_mem is None else max_mem} {'~' if max_parts is None else max_parts} "
            + ",".join(hexs(c) for c in chunks) if chunks else
            f"trace {hexs(B)} {'~' if max_mem is None else max_mem} {'~' if max_parts is None else max_parts} ~")


def norm_model_trace(line: str, B: bytes) -> list[str]:
    """the model prints H:<raw header block>; map it to what the implementation shows: H: or the
    header-level exception werkzeug raises on that block (computed by werkzeug's own header code)."""
    from werkzeug.http import parse_options_header
    from werkzeug.sansio import multipart as M
    out = []
    for tok in line.split(" "):
        if tok.startswith("H:") or tok.startswith("X:413H:"):
            too_many = tok.startswith("X:")
            raw, _, snap = tok[(7 if too_many else 2):].partition("@")
            try:
                h = M.MultipartDecoder(b"x")._parse_headers(unhex(raw))
                if "content-disposition" not in h:
                    raise ValueError("Missing Content-Disposition header")
                parse_options_header(h["content-disposition"])
                out.append("X:413" if too_many else "H:@" + snap)
            except Exception:  # noqa: BLE001
                out.append("X:header")
                break
        else:
            out.append(tok)
    return out


# ====================================================================== the check

CORPUS = [
    (b"B", b"--B\r\nContent-Disposition: form-data; name=\"t\"\r\n\r\n" + "a€é😀b".encode() + b"\r\n--B--\r\n"),
    # (boundary, body) : replays of fixed findings and hand-picked shapes
    (b"B", b"--B\r\nContent-Disposition: form-data; name=\"a\"\r\n\r\n\n" + b"y" * 30 + b"\r\r\n--B--\r\n"),
    (b"bound", b"--bound\r\nContent-Disposition: form-data; name=\"a\"\r\n\r\n--bound\r\nContent-Disposition: form-data; name=\"b\"\r\n\r\nv\r\n--bound--\r\n"),
    (b"B", b"--B\r\nContent-Disposition: form-data; name=\"a\"\r\n\r\n--B--"),
    (b"B", b"pre\r\n--B\r\nContent-Disposition: form-data; name=\"a\"; filename=\"f\"\r\n\r\n\r\n--B-\r\n--Bx\r\n\r\n--B--\r\nepi"),
    (b"B", b"--B--"),
    (b"B", b"\n--B\nContent-Disposition: form-data; name=\"a\"\n\nline1\n--Bnot\nline2\n--B\nContent-Disposition: form-data; name=\"b\"\n\n\n--B--\n"),
    (b"B", b"--B\rContent-Disposition: form-data; name=\"a\"\r\rab\r--B--\r"),
    (b"-x", b"---x\r\nContent-Disposition: form-data; name=\"a\"\r\n\r\n-\r\n---\r\n---x\r\n---x--\r\n"),
    # a boundary with a character that is special in regular expressions, and payload lines that equal the delimiter up to
    # that character (a matcher that does not escape the boundary takes them for delimiters)
    (b"a.b", b"--a.b\r\nContent-Disposition: form-data; name=\"f\"; filename=\"x\"\r\n\r\nline1\r\n--axb\r\nline2\r\n--axb--\r\nline3\r\n--a.b\r\nContent-Disposition: form-data; name=\"g\"\r\n\r\nv\r\n--a.b--\r\n"),
    # payload lines that equal the delimiter up to letter case
    (b"Bound", b"--Bound\r\nContent-Disposition: form-data; name=\"f\"; filename=\"x\"\r\n\r\nline1\r\n--bound\r\nline2\r\n--BOUND--\r\nline3\r\n--Bound\r\nContent-Disposition: form-data; name=\"g\"\r\n\r\nv\r\n--Bound--\r\n"),
    # a preamble longer than the first part's header block (a search position left over from the PREAMBLE state would
    # skip the blank line that ends the headers)
    (b"B", b"This is a multi-part message in MIME format. Ignore this text.\r\n--Bx\r\n--B\r\nContent-Disposition: form-data; name=\"a\"\r\n\r\nv\r\n--B\r\nContent-Disposition: form-data; name=\"b\"\r\n\r\nw\r\n--B--\r\n"),
]


def run(chk: Check) -> None:
    rng = chk.rng
    quick = chk.tier == "quick"
    lines: list[str] = []
    impl: list[list[str]] = []
    meta: list[tuple] = []

    def add(B, chunks, mm=None, mp=None):
        lines.append(model_lines(B, chunks, mm, mp))
        impl.append(with_timeout(impl_trace, 20, B, chunks, mm, mp))
        meta.append((B, chunks))

    # ---- impl-level oracle: parts do not depend on the schedule (the property itself)
    def oracle(B, body, schedules, wellformed: bool):
        ref = impl_parts(B, [body] if body else [])
        for chunks in schedules:
            got = impl_parts(B, chunks)
            if got != ref and wellformed:
                key = "chunk-dependence"
                chk.fail(key, f"parts differ between one-shot and the split {[len(c) for c in chunks]}",
                         {"boundary": B.hex(), "body": body.hex(), "chunks": [c.hex() for c in chunks],
                          "one_shot": repr(ref)[:400], "split": repr(got)[:400]})
                return False
        return True

    # exhaustive 2-way (quick) / 3-way (thorough) splits of the corpus + byte-at-a-time
    n_exh = 0
    for B, body in CORPUS:
        n = len(body)
        scheds = [chunks_of(body, [i]) for i in range(1, n)]
        scheds.append([body[i:i + 1] for i in range(n)])
        if not quick:
            scheds += [chunks_of(body, [i, j]) for i in range(1, n) for j in range(i + 1, n)]
        elif n <= 90:
            scheds += [chunks_of(body, [i, j]) for i in range(1, n) for j in range(i + 1, n)]
        oracle(B, body, scheds, True)
        for ch in scheds:
            add(B, ch)
            chk.case(("exh", B, tuple(ch)), True)
            n_exh += 1
        add(B, [body])
        # every buffer_size of the high-level parser, with and without short reads
        ref = impl_form(B, body, 64 * 1024, None)
        for bs in range(1, n + 2):
            for short in (None, 1, 3):
                got = impl_form(B, body, bs, short)
                chk.case(("form", B, body, bs, short), True)
                if got != ref:
                    chk.fail("formparser-buffer-size", f"form/files differ for buffer_size={bs} short={short}",
                             {"boundary": B.hex(), "body": body.hex(), "buffer_size": bs, "short": short,
                              "reference": repr(ref)[:300], "got": repr(got)[:300]})
    chk.count("exhaustive-split-schedules", n_exh)

    # random well-formed bodies x schedules
    n_bodies = 1500 if quick else 60000
    for i in range(n_bodies):
        B, body, lb = gen_body(rng)
        n = len(body)
        scheds = [[body[j:j + 1] for j in range(n)]]
        for _ in range(4):
            scheds.append(chunks_of(body, splits_random(rng, n, rng.choice([1, 2, 3, 5, 9]))))
        # edges placed next to every CR / LF / dash (content-correlated splits)
        hot = [j for j in range(1, n) if body[j - 1:j] in (b"\r", b"\n", b"-") or body[j:j + 1] in (b"\r", b"\n", b"-")]
        if hot:
            for _ in range(3):
                scheds.append(chunks_of(body, sorted(rng.sample(hot, min(len(hot), rng.choice([1, 2, 3]))))))
        wf = True
        oracle(B, body, scheds, wf)
        add(B, [body])
        for ch in scheds:
            add(B, ch)
        chk.case(("body", B, body), True, sample={"boundary": B.decode("latin1"), "body": body.decode("latin1")[:160], "line_break": lb.decode("latin1").encode("unicode_escape").decode()})
        chk.count("wellformed:" + {b"\r\n": "crlf", b"\n": "lf", b"\r": "cr"}[lb])
        if i % 10 == 0:
            ref = impl_form(B, body, 64 * 1024, None)
            for bs in {1, 2, 3, 7, max(1, n // 2), n, n + 1}:
                got = impl_form(B, body, bs, rng.choice([None, 1, 2]))
                if got != ref:
                    chk.fail("formparser-buffer-size", f"form/files differ for buffer_size={bs}",
                             {"boundary": B.hex(), "body": body.hex(), "buffer_size": bs, "reference": repr(ref)[:300], "got": repr(got)[:300]})

    # large buffers: more than 64 KiB pending in the decoder when a chunk edge falls next to a delimiter (any size-dependent
    # shortcut in the hold-back / search logic shows here and nowhere else); every edge around each delimiter, 2-way splits
    # and the form parser's default 64 KiB reads with leftovers.  Oracle (the property itself) on all, the model on a few.
    n_big_model = 0
    for (B, lb, sizes) in [(b"----WebKitFormBoundary7MA4YWxkTrZu0gW", b"\r\n", [65536 + 200, 3]), (b"B", b"\r\n", [65535, 65537]),
                           (b"bound", b"\n", [66000]), (b"b-b", b"\r\n", [131072 + 5, 70000])][: (2 if quick else 4)]:
        body = bytearray()
        marks = []
        for k, size in enumerate(sizes):
            body += b"--" + B + lb + b'Content-Disposition: form-data; name="f%d"; filename="x"' % k + lb + lb
            fill = (b"0123456789abcdef" * (size // 16 + 1))[:size]
            if k == 0 and lb == b"\r\n":
                fill = fill[:-3] + b"\r" + fill[-2:]          # a lone CR shortly before the end of the payload
            body += fill + lb
            marks.append(len(body))                            # the delimiter that ends part k starts just before here
        body += b"--" + B + b"--" + lb
        body = bytes(body)
        edges = sorted({m + d for m in marks for d in range(-6, len(B) + 8) if 0 < m + d < len(body)})
        scheds = [chunks_of(body, [e]) for e in edges]
        scheds += [chunks_of(body, [e - 65536, e]) for e in edges[:: max(1, len(edges) // 8)] if e > 65536]
        scheds += [chunks_of(body, list(range(65536, len(body), 65536)))]
        oracle(B, body, scheds, True)
        for ch in scheds:
            chk.case(("big", B, len(body), tuple(len(c) for c in ch)), True)
        ref = impl_form(B, body, 64 * 1024, None)
        for bs in (65536, 65535, 65537, 4096, 1 << 20):
            got = impl_form(B, body, bs, rng.choice([None, 65536 - 7, 1000]))
            if got != ref:
                chk.fail("formparser-buffer-size", f"form/files differ for buffer_size={bs} on a {len(body)}-byte body",
                         {"boundary": B.hex(), "body_len": len(body), "buffer_size": bs})
        if n_big_model < (1 if quick else 2):
            for ch in scheds[:: max(1, len(scheds) // 6)]:
                add(B, ch)
            n_big_model += 1
    chk.count("large-buffer-bodies", 2 if quick else 4)

    # malformed stream: model vs implementation only (no property claim on malformed bodies)
    n_mal = 1500 if quick else 50000
    for _ in range(n_mal):
        B, body, _lb = gen_body(rng, malformed=True)
        n = len(body)
        add(B, [body] if body else [])
        add(B, chunks_of(body, splits_random(rng, n, rng.choice([1, 2, 4]))))
        add(B, [body[j:j + 1] for j in range(n)])
        chk.case(("mal", B, body), True)
        chk.count("malformed")

    # limits (shared with C10): model vs implementation with max_form_memory_size / max_parts
    for _ in range(300 if quick else 4000):
        B, body, _lb = gen_body(rng, malformed=rng.random() < 0.3)
        n = len(body)
        ch = chunks_of(body, splits_random(rng, n, rng.choice([0, 1, 3])))
        add(B, ch, rng.choice([None, 5, 20, n // 2, n, n + 1]), rng.choice([None, 0, 1, 2]))
        chk.case(("lim", B, body), True)

    # ---- the header-block parser model (coq/C01/HeaderBlock.v) against MultipartDecoder._parse_headers
    from werkzeug.sansio import multipart as M
    hl, hi = [], []
    HA = [b"\r\n", b"\n", b"\r", b" ", b"\t", b":", b"X-A", b"Content-Disposition", b"form-data; name=\"a\"", b"v", b"\xc3\xa9", b"\xff",
          b"\x0b", b"\x1c", b"\xc2\x85", b"\xe2\x80\xa8", b"  ", b"a:b:c", b"\r\n ", b"\n\t"]
    for _ in range(3000 if quick else 40000):
        raw = b"".join(rng.choice(HA) for _ in range(rng.randint(0, 9)))
        for blk in (raw, b"\n" + raw):
            hl.append("headers " + hexs(blk))
            try:
                hi.append("ok " + ("|".join(f"{_cps(n)}={_cps(v)}" for n, v in M.MultipartDecoder(b"x")._parse_headers(blk)) or "-"))
            except UnicodeDecodeError:
                hi.append("UnicodeDecodeError")
        chk.case(("hdr", raw), bool(raw))
    chk.count("header-blocks", len(hl))

    exe = chk.build_modelrun("C01")
    if not exe:
        return
    hres = chk.run_model(exe, hl)
    if hres is not None:
        hm = 0
        for ln, a, b in zip(hl, hi, hres):
            if a != b:
                hm += 1
                if hm <= 3:
                    chk.broken("correspondence", "C01 header-block model vs _parse_headers", f"{ln}: impl {a[:200]} model {b[:200]}",
                               case={"line": ln, "impl": a, "model": b})
        chk.count("model:header-mismatches", hm)
    res = chk.run_model(exe, lines)
    if res is None:
        return
    mism = 0
    for ln, a, b, (B, chunks) in zip(lines, impl, res, meta):
        bb = norm_model_trace(b, B)
        # after an exception the implementation's state is not observed
        if a != bb:
            mism += 1
            if mism <= 3:
                chk.broken("correspondence", "C01 model vs MultipartDecoder",
                           f"boundary {B!r} chunks {chunks!r}: impl {a} model {bb}",
                           case={"boundary": B.hex(), "chunks": [c.hex() for c in chunks], "impl": a, "model": bb})
    chk.count("model:compared-traces", len(lines))
    chk.count("model:mismatches", mism)


def main(chk: Check) -> None:
    try:
        gen()
    except px.Unsupported as e:
        chk.broken("translator", "C01/Gen.v", str(e))
    chk.forbidden_scan()
    if chk.coq_make(["C01/Proofs.vo", "C01/Extract.vo"]):
        chk.audit_props("C01/Props.v")
    else:
        chk.cov["obligations"] += 1
    chk.trusted += [
        "translator tools/c01.py (SEARCH_EXTRA_LENGTH, regex texts and templates pinned by theorem C01_patterns_pinned)",
        "extraction ExtrOcamlBasic (Extract Inductive bool, option, unit, list, prod, sumbool, comparison; no Extract Constant) + tools/conv.ml + coq/C01/driver.ml",
        "hand-written matchers for LINE_BREAK, BLANK_LINE_RE, preamble_re, boundary_re validated by differential execution",
        "part identity (kind, name, filename, headers) is computed from the raw header block by werkzeug's own _parse_headers / parse_options_header",
    ]
    run(chk)
    chk.finish(rule="well-formed bodies from the render grammar (CRLF / LF / CR line breaks, 0-3 parts, body-less, empty and look-alike payloads, "
                    "preamble/epilogue, trailing blanks) x schedules (one-shot, byte-at-a-time, random k-way, content-correlated edges, exhaustive "
                    "2-way/3-way splits of a corpus, every buffer_size with short reads); a malformed stream for the model comparison only. "
                    "Distinct by hash of (boundary, body[, schedule]).")
