"""C16  Live views of response headers never drift from the header text."""
from __future__ import annotations

import ast
import os

from . import c08
from . import pyextract as px
from .vlib import COQ, Check, cps, with_timeout

PID = "C16"
CLAIM = dict(
    text="Coq theorems over executable models of the response header views (on_update wiring made explicit): the Vary / Allow / "
         "Content-Language HeaderSet views, the ResponseCacheControl dict view, the ContentSecurityPolicy dict view and the "
         "ContentRange view stay coherent with the header text under every sequence of view operations (after a step that changes "
         "the view the header text is the view's serialisation, or absent when the view is empty; re-reading the property parses "
         "back an equal view), built on proved round trips parse_list_header(dump_header(list)), parse_dict_header(dump_header(dict)), "
         "parse_csp_header(dump_csp_header(d)) and parse_content_range_header(ContentRange.to_header()) on their stated domains; "
         "assignment / read-back normal forms of the typed cache-control directives and of the integer scalar properties; "
         "WWWAuthenticate: type / token / parameters assignment changes exactly that field, the header is the serialisation after "
         "every notifying step, token schemes and parameter schemes (incl. Digest's always-quoted keys: the per-key-quoting dict "
         "round trip) re-read equal, list assignment gives one line per item; mimetype_params as ONE held view: a notifying "
         "operation writes the parameters next to the response's current media type whatever happened to Content-Type in "
         "between (re-read over the C06 round-trip contract); date-valued scalars over a date contract; the header_property "
         "scalars generically over the table (attribute, header name, load / dump pair) regenerated from sansio/response.py: "
         "for every str / int / age / set-valued row, assignment leaves exactly the dumped text, reads back the value, deletion "
         "removes the header (the rows not covered are listed by a theorem: the three dates, covered by the date contract, and "
         "the two cross-origin enum policies, oracle only). "
         "The on_update decision functions, the _set_cache_value decision chain, the property tables (directive key / empty "
         "value / type, CSP directive names, header names) and the change-notification tables of UpdateDictMixin are regenerated "
         "from the source on every run; the models are compared with werkzeug.wrappers.Response by differential execution on "
         "exhaustive short and random long operation sequences, header text and re-read view after every step.",
    note="Trusted: Coq kernel; translator tools/c16.py (+ tools/c08.py); ExtrOcamlBasic extraction + driver; hand-written model of "
         "urllib.request.parse_http_list and of str.strip/partition/split (validated differentially); int() modelled on ASCII "
         "decimal strings only. Items / values containing CR or LF are outside the domain (Headers refuses them, C05); keys ending "
         "in an asterisk (RFC 2231 form) are outside the dict codec's domain. NOT modelled in Coq, judged on the implementation by "
         "the harness oracles only: cross_origin_opener_policy / cross_origin_embedder_policy (enum codecs), "
         "access_control_allow_credentials, retry_after and set_etag / get_etag (not header_property rows), whole-property "
         "assignment of ContentRange objects. _DictAccessorProperty.__get__ / __set__ / __delete__, parse_age, dump_age and "
         "parse_set_header are pinned statement by statement. Contracts (Section variables, validated by the harness against the library): "
         "http_date / parse_date (email.utils, datetime; over naive, UTC, fixed-offset, zero-offset and ZoneInfo zones, and on a grid "
         "of sub-second parts x years 1 .. 9999 next to the float-timestamp resolution boundaries; the read-back half holds for "
         "years 100 .. 9999 only: email.utils reads a year below 100 by the two-digit rule, a known finding), "
         "parse_options_header inverting dump_options_header (property C06). Known finding: a set view holding case-insensitive duplicates drifts."
         " Statement pins: tools/pins/c16_views.txt: _set_property and the view methods of sansio Response (on_update callbacks translated: "
         "holes), cache_control_property, _CacheControl (minus the translated _set_cache_value), ResponseCacheControl, "
         "csp_property, ContentSecurityPolicy, WWWAuthenticate, _CallbackProperty, ContentRange, CallbackDict, _always_update, "
         "UpdateDictMixin, the http.py codecs (quote / unquote_header_value, dump_header, dump_options_header, dump_csp_header, "
         "parse_list / dict / set / cache_control / csp / content_range header, quote / unquote_etag, parse_date, http_date, "
         "parse_age, dump_age, is_byte_range_valid, COOP, COEP), _dt_as_utc, _DictAccessorProperty, header_property, "
         "get_content_type. Validated differentially only, no pin wanted: urllib.request.parse_http_list, email.utils, datetime, "
         "int / str (CPython library code); parse_options_header (a contract here; property C06 owns it).",
    design="6/C16")


# ====================================================================== translator

def _cb_action(fn: ast.FunctionDef, view: str, in_headers: str, hdr_set_target: str, what: str) -> str:
    """on_update callbacks of the shape
         if not <view> and <name> in self.headers: del self.headers[<name>]
         elif <view>: self.headers[<Name>] = <view>.to_header()
       -> Gallina decision over (nonempty, in_headers)."""
    b = c08._body(fn)
    if len(b) != 1 or not isinstance(b[0], ast.If):
        raise px.Unsupported(f"{what}: on_update is not a single if/elif")
    top = b[0]

    def cond(e: ast.expr) -> str:
        if isinstance(e, ast.BoolOp):
            return "(" + (" && " if isinstance(e.op, ast.And) else " || ").join(cond(v) for v in e.values) + ")"
        if isinstance(e, ast.UnaryOp) and isinstance(e.op, ast.Not):
            return f"(negb {cond(e.operand)})"
        t = ast.unparse(e)
        if t == view:
            return "nonempty"
        if t == in_headers:
            return "in_headers"
        raise px.Unsupported(f"{what}: unknown atom {t}")

    def act(stmts) -> str:
        if len(stmts) != 1:
            raise px.Unsupported(f"{what}: branch has {len(stmts)} statements")
        t = ast.unparse(stmts[0])
        if t.startswith("del self.headers["):
            return "CbDel"
        if t == f"self.headers[{hdr_set_target}] = {view}.to_header()":
            return "CbSet"
        raise px.Unsupported(f"{what}: unknown action {t}")
    out = f"if {cond(top.test)} then {act(top.body)} else "
    if not top.orelse:
        return out + "CbNone"
    if len(top.orelse) == 1 and isinstance(top.orelse[0], ast.If) and not top.orelse[0].orelse:
        return out + f"if {cond(top.orelse[0].test)} then {act(top.orelse[0].body)} else CbNone"
    if len(top.orelse) == 1:
        return out + act(top.orelse)
    raise px.Unsupported(f"{what}: else branch shape")


def _inner_def(fn, name):
    found = [n for n in ast.walk(fn) if isinstance(n, ast.FunctionDef) and n.name == name]
    if len(found) != 1:
        raise px.Unsupported(f"expected one inner def {name} in {fn.name}")
    return found[0]


def gen() -> None:
    deferred = None
    try:
        c08.gen()
    except px.Unsupported as e:      # reported at the end: a refusal in the containers must not stop this regeneration
        deferred = e
    sr = px.load("sansio/response.py")
    cc = px.load("datastructures/cache_control.py")
    mx = px.load("datastructures/mixins.py")
    csp = px.load("datastructures/csp.py")
    out = px.HEADER.format(tool="c16.py", src="sansio/response.py, datastructures/cache_control.py, mixins.py, csp.py")
    out += "From Wz Require Import C08.LibStr C16.Base.\n\n"

    # ---- _set_property: on_update decision, fset decision, header names
    sp = px.find_def(sr, "_set_property")
    fget = _inner_def(sp, "fget")
    onup = _inner_def(fget, "on_update")
    out += ("Definition set_view_cb (nonempty in_headers : bool) : cb_action :=\n  "
            + _cb_action(onup, "header_set", "name in self.headers", "name", "_set_property.on_update") + ".\n")
    ret = [s for s in c08._body(fget) if isinstance(s, ast.Return)]
    if len(ret) != 1 or ast.unparse(ret[0].value) != "parse_set_header(self.headers.get(name), on_update)":
        raise px.Unsupported("_set_property.fget no longer returns parse_set_header(self.headers.get(name), on_update)")
    fset = _inner_def(sp, "fset")
    if [ast.unparse(s) for s in c08._body(fset)] != [
            "if not value:\n    del self.headers[name]\nelif isinstance(value, str):\n    self.headers[name] = value\nelse:\n"
            "    self.headers[name] = dump_header(value)"]:
        raise px.Unsupported("_set_property.fset changed")
    R = px.find_class(sr, "Response")
    names = []
    for n in R.body:
        if isinstance(n, ast.Assign) and isinstance(n.value, ast.Call) and isinstance(n.value.func, ast.Name) \
                and n.value.func.id == "_set_property":
            names.append((n.targets[0].id, px.const(n.value.args[0])))
    if sorted(a for a, _ in names) != ["allow", "content_language", "vary"]:
        raise px.Unsupported(f"set-valued properties changed: {names}")
    out += "Definition set_view_names : list (str * str) :=\n  [" + ";\n   ".join(
        f"({px.coq_string_codes(a)}, {px.coq_string_codes(h)})" for a, h in names) + "].\n"

    # ---- cache_control property: on_update decision
    ccp = c08._method(R, "cache_control")
    onup = _inner_def(ccp, "on_update")
    out += ("Definition cache_control_cb (nonempty in_headers : bool) : cb_action :=\n  "
            + _cb_action(onup, "cache_control", "'cache-control' in self.headers", "'Cache-Control'", "cache_control.on_update") + ".\n")
    ret = [s for s in c08._body(ccp) if isinstance(s, ast.Return)]
    if len(ret) != 1 or ast.unparse(ret[0].value) != "parse_cache_control_header(self.headers.get('cache-control'), on_update, ResponseCacheControl)":
        raise px.Unsupported("Response.cache_control return expression changed")

    # ---- CSP / content-range on_update (no `in headers` guard: del is unconditional)
    for attr, view, target, defn in (("content_security_policy", "csp", "'Content-Security-Policy'", "csp_cb"),
                                     ("content_range", "rng", "'Content-Range'", "content_range_cb")):
        getter = [n for n in R.body if isinstance(n, ast.FunctionDef) and n.name == attr
                  and any(isinstance(d, ast.Name) and d.id == "property" for d in n.decorator_list)]
        if len(getter) != 1:
            raise px.Unsupported(f"Response.{attr} getter not found")
        out += (f"Definition {defn} (nonempty in_headers : bool) : cb_action :=\n  "
                + _cb_action(_inner_def(getter[0], "on_update"), view, "<none>", target, f"{attr}.on_update") + ".\n")

    # ---- cache_control_property table: attr, key, empty, type
    rows = []
    for cn in ("_CacheControl", "ResponseCacheControl"):
        for n in px.find_class(cc, cn).body:
            v = n.value if isinstance(n, (ast.Assign, ast.AnnAssign)) else None
            if isinstance(v, ast.Call) and isinstance(v.func, ast.Name) and v.func.id == "cache_control_property":
                tgt = n.target.id if isinstance(n, ast.AnnAssign) else n.targets[0].id
                if len(v.args) != 3 or v.keywords:
                    raise px.Unsupported(f"cache_control_property call shape for {tgt}")
                key = px.const(v.args[0])
                empty = ast.unparse(v.args[1])
                typ = ast.unparse(v.args[2])
                if empty not in ("None", "True") or typ not in ("bool", "int", "None"):
                    raise px.Unsupported(f"cache_control_property({key!r}, {empty}, {typ}) outside the model")
                rows.append((tgt, key, empty, typ))
    if len(rows) < 10:
        raise px.Unsupported("cache-control property table unexpectedly small")
    ty = {"bool": "TBool", "int": "TInt", "None": "TStr"}
    out += "Definition cache_control_props : list (str * (str * (bool * cctype))) :=\n  [" + ";\n   ".join(
        f"({px.coq_string_codes(a)}, ({px.coq_string_codes(k)}, ({'true' if e == 'True' else 'false'}, {ty[t]})))"
        for a, k, e, t in rows) + "].\n"
    # the property object wires get/set/del to the three helpers
    cpf = px.find_def(cc, "cache_control_property")
    r = [s for s in ast.walk(cpf) if isinstance(s, ast.Return)]
    if len(r) != 1 or [ast.unparse(a) for a in r[0].value.args] != [
            "lambda x: x._get_cache_value(key, empty, type)", "lambda x, v: x._set_cache_value(key, v, type)",
            "lambda x: x._del_cache_value(key)"]:
        raise px.Unsupported("cache_control_property wiring changed")

    # ---- _set_cache_value: decision chain -> action
    CC = px.find_class(cc, "_CacheControl")
    body = c08._body(c08._method(CC, "_set_cache_value"))
    if len(body) != 1 or not isinstance(body[0], ast.If):
        raise px.Unsupported("_set_cache_value is not a single if chain")

    def ccond(e: ast.expr) -> str:
        if isinstance(e, ast.BoolOp):
            return "(" + (" && " if isinstance(e.op, ast.And) else " || ").join(ccond(v) for v in e.values) + ")"
        if isinstance(e, ast.UnaryOp) and isinstance(e.op, ast.Not):
            return f"(negb {ccond(e.operand)})"
        t = ast.unparse(e)
        table = {"type is bool": "cct_is_bool ty", "value": "ccv_truthy v", "value is None": "ccv_is_none v",
                 "value is False": "ccv_is_false v", "value is True": "ccv_is_true v"}
        if t in table:
            return f"({table[t]})"
        raise px.Unsupported(f"_set_cache_value: unknown condition {t}")

    def cact(stmts) -> str:
        txt = [ast.unparse(s) for s in stmts]
        if txt == ["self[key] = None"]:
            return "CSetNone"
        if txt == ["self.pop(key, None)"]:
            return "CPop"
        if txt == ["if type is not None:\n    value = type(value)", "self[key] = str(value)"]:
            return "CStore"
        if len(stmts) == 1 and isinstance(stmts[0], ast.If):
            return cchain(stmts[0])
        raise px.Unsupported(f"_set_cache_value: unknown action {txt}")

    def cchain(i: ast.If) -> str:
        if not i.orelse:
            raise px.Unsupported("_set_cache_value: if without else")
        return f"(if {ccond(i.test)} then {cact(i.body)} else {cact(i.orelse)})"
    out += f"Definition cc_set_action (ty : cctype) (v : ccval) : ccaction :=\n  {cchain(body[0])}.\n"
    gb = [ast.unparse(s) for s in c08._body(c08._method(CC, "_get_cache_value"))]
    if gb != ["if type is bool:\n    return key in self", "if key not in self:\n    return None",
              "if (value := self[key]) is None:\n    return empty",
              "if type is not None:\n    try:\n        value = type(value)\n    except ValueError:\n        return None", "return value"]:
        raise px.Unsupported("_get_cache_value changed")
    if [ast.unparse(s) for s in c08._body(c08._method(CC, "_del_cache_value"))] != ["if key in self:\n    del self[key]"]:
        raise px.Unsupported("_del_cache_value changed")

    # ---- UpdateDictMixin: which mutators notify always / only when the dict changed
    U = px.find_class(mx, "UpdateDictMixin")
    always, cond_ = [], []
    for n in U.body:
        if isinstance(n, ast.FunctionDef) and not any(isinstance(d, ast.Attribute) and d.attr == "overload" for d in n.decorator_list):
            if any(isinstance(d, ast.Name) and d.id == "_always_update" for d in n.decorator_list):
                always.append(n.name)
            else:
                src = ast.unparse(n)
                if "if modified and self.on_update is not None:\n        self.on_update(self)" not in src:
                    raise px.Unsupported(f"UpdateDictMixin.{n.name} does not notify when modified")
                cond_.append(n.name)
    au = px.find_def(mx, "_always_update")
    if "rv = f(self, *args, **kwargs)\n        if self.on_update is not None:\n            self.on_update(self)\n        return rv" not in ast.unparse(au):
        raise px.Unsupported("_always_update wrapper changed")
    out += "Definition update_dict_always : list str :=\n  [" + "; ".join(px.coq_string_codes(n) for n in always) + "].\n"
    out += "Definition update_dict_if_modified : list str :=\n  [" + "; ".join(px.coq_string_codes(n) for n in cond_) + "].\n"
    out += ("Definition dict_mutators : list str :=\n  [" + "; ".join(px.coq_string_codes(n) for n in
            ["__setitem__", "__delitem__", "clear", "pop", "popitem", "setdefault", "update", "__ior__"]) + "].\n")
    # HeaderSet: every mutator ends in the notification (remove/update are pinned by c08.gen)
    HS = px.find_class(px.load("datastructures/structures.py"), "HeaderSet")
    for m in ("clear", "__delitem__", "__setitem__", "remove"):
        if ast.unparse(c08._body(c08._method(HS, m))[-1]) != "if self.on_update is not None:\n    self.on_update(self)":
            raise px.Unsupported(f"HeaderSet.{m} no longer ends with the on_update call")

    # ---- CSP property table and helpers
    P = px.find_class(csp, "ContentSecurityPolicy")
    crow = []
    for n in P.body:
        v = n.value if isinstance(n, ast.AnnAssign) else None
        if isinstance(v, ast.Call) and isinstance(v.func, ast.Name) and v.func.id == "csp_property":
            crow.append((n.target.id, px.const(v.args[0])))
    out += "Definition csp_props : list (str * str) :=\n  [" + ";\n   ".join(
        f"({px.coq_string_codes(a)}, {px.coq_string_codes(k)})" for a, k in crow) + "].\n"
    if [ast.unparse(s) for s in c08._body(c08._method(P, "_set_value"))] != ["if value is None:\n    self.pop(key, None)\nelse:\n    self[key] = value"]:
        raise px.Unsupported("ContentSecurityPolicy._set_value changed")
    if [ast.unparse(s) for s in c08._body(c08._method(P, "_del_value"))] != ["if key in self:\n    del self[key]"]:
        raise px.Unsupported("ContentSecurityPolicy._del_value changed")
    # ---- WWWAuthenticate: attribute routing, digest quoting table, pinned shapes
    au = au_mod = px.load("datastructures/auth.py")
    W = px.find_class(au, "WWWAuthenticate")
    sa = c08._body(c08._method(W, "__setattr__"))
    if not (len(sa) == 1 and isinstance(sa[0], ast.If) and isinstance(sa[0].test, ast.Compare) and isinstance(sa[0].test.comparators[0], ast.Set)
            and [ast.unparse(x) for x in sa[0].body] == ["super().__setattr__(name, value)"]
            and [ast.unparse(x) for x in sa[0].orelse] == ["self[name] = value"]):
        raise px.Unsupported("WWWAuthenticate.__setattr__ changed")
    direct = [px.const(e) for e in sa[0].test.comparators[0].elts]
    out += "Definition wa_direct_attrs : list str :=\n  [" + "; ".join(px.coq_string_codes(x) for x in direct) + "].\n"
    if [ast.unparse(x) for x in c08._body(c08._method(W, "__setitem__"))] != [
            "if value is None:\n    if key in self.parameters:\n        del self.parameters[key]\nelse:\n    self.parameters[key] = value",
            "self._trigger_on_update()"]:
        raise px.Unsupported("WWWAuthenticate.__setitem__ changed")
    if [ast.unparse(x) for x in c08._body(c08._method(W, "__delitem__"))] != [
            "if key in self.parameters:\n    del self.parameters[key]\n    self._trigger_on_update()"]:
        raise px.Unsupported("WWWAuthenticate.__delitem__ changed")
    th = c08._body(c08._method(W, "to_header"))
    if len(th) != 3 or ast.unparse(th[0]) != "if self.token is not None:\n    return f'{self.type.title()} {self.token}'" \
            or ast.unparse(th[2]) != "return f'{self.type.title()} {dump_header(self.parameters)}'":
        raise px.Unsupported("WWWAuthenticate.to_header changed")
    dg = th[1]
    want_dg = ("if self.type == 'digest':\n    items = []\n    for key, value in self.parameters.items():\n        if key in {KEYS}:\n"
               "            value = quote_header_value(value, allow_token=False)\n        else:\n            value = quote_header_value(value)\n"
               "        items.append(f'{key}={value}')\n    return f'Digest {', '.join(items)}'")
    keyset = [n for n in ast.walk(dg) if isinstance(n, ast.Set)]
    if len(keyset) != 1:
        raise px.Unsupported("WWWAuthenticate.to_header: digest key set not found")
    if ast.unparse(dg) != want_dg.replace("{KEYS}", ast.unparse(keyset[0])):
        raise px.Unsupported("WWWAuthenticate.to_header: digest branch changed")
    out += "Definition wa_digest_quoted : list str :=\n  [" + "; ".join(px.coq_string_codes(px.const(e)) for e in keyset[0].elts) + "].\n"
    fh = [ast.unparse(x) for x in c08._body(c08._method(W, "from_header"))]
    if fh != ["if not value:\n    return None", "scheme, _, rest = value.partition(' ')", "scheme = scheme.lower()", "rest = rest.strip()",
              "if '=' in rest.rstrip('='):\n    return cls(scheme, parse_dict_header(rest), None)", "return cls(scheme, None, rest)"]:
        raise px.Unsupported("WWWAuthenticate.from_header changed")
    for prop, body in (("type", ["self._type = value", "self._trigger_on_update()"]), ("token", ["self._token = value", "self._trigger_on_update()"]),
                       ("parameters", ["self._parameters = CallbackDict(value, lambda _: self._trigger_on_update())", "self._trigger_on_update()"])):
        setter = [n for n in W.body if isinstance(n, ast.FunctionDef) and n.name == prop
                  and any(isinstance(d, ast.Attribute) and d.attr == "setter" for d in n.decorator_list)]
        if len(setter) != 1 or [ast.unparse(x) for x in c08._body(setter[0])] != body:
            raise px.Unsupported(f"WWWAuthenticate.{prop} setter changed")
    # ---- header_property table: attribute, header name, codec (from the load / dump pair), read_only
    rows = []
    for n in R.body:
        v = n.value if isinstance(n, ast.Assign) else None
        if not isinstance(v, ast.Call):
            continue
        f = v.func.value if isinstance(v.func, ast.Subscript) else v.func
        if not (isinstance(f, ast.Name) and f.id == "header_property"):
            continue
        attr = n.targets[0].id
        args = {"name": None, "default": "None", "load_func": "None", "dump_func": "None", "read_only": "None"}
        for key, a in zip(["name", "default", "load_func", "dump_func", "read_only"], v.args):
            args[key] = ast.unparse(a)
        for kw in v.keywords:
            if kw.arg == "doc":
                continue
            if kw.arg not in args:
                raise px.Unsupported(f"header_property({attr}): unknown keyword {kw.arg}")
            args[kw.arg] = ast.unparse(kw.value)
        pair = (args["load_func"], args["dump_func"])
        codec = {("None", "None"): "CStr", ("int", "str"): "CInt", ("parse_age", "dump_age"): "CAge",
                 ("parse_set_header", "dump_header"): "CSet", ("parse_date", "http_date"): "CDate"}.get(pair)
        if codec is None:
            if pair[0].startswith("lambda value: CO") and pair[1] == "lambda value: value.value":
                codec = "CEnum"
            else:
                raise px.Unsupported(f"header_property({attr}): load / dump pair {pair} not in the model's codec table")
        if args["read_only"] not in ("None", "False"):
            raise px.Unsupported(f"header_property({attr}) became read-only")
        if codec != "CEnum" and args["default"] != "None":
            raise px.Unsupported(f"header_property({attr}) has a default {args['default']}")
        rows.append((attr, ast.literal_eval(args["name"]), codec))
    if len(rows) < 15:
        raise px.Unsupported("header_property table unexpectedly small")
    out += "Definition header_props : list (str * (str * hcodec)) :=\n  [" + ";\n   ".join(
        f"({px.coq_string_codes(a)}, ({px.coq_string_codes(h)}, {c}))" for a, h, c in rows) + "].\n"
    # the descriptor itself: get / set / delete
    it = px.load("_internal.py")
    DA = px.find_class(it, "_DictAccessorProperty")
    if [ast.unparse(x) for x in c08._body(c08._method(DA, "__set__"))] != [
            "if self.read_only:\n    raise AttributeError('read only property')",
            "if self.dump_func is not None:\n    self.lookup(instance)[self.name] = self.dump_func(value)\nelse:\n    self.lookup(instance)[self.name] = value"]:
        raise px.Unsupported("_DictAccessorProperty.__set__ changed")
    if [ast.unparse(x) for x in c08._body(c08._method(DA, "__delete__"))] != [
            "if self.read_only:\n    raise AttributeError('read only property')", "self.lookup(instance).pop(self.name, None)"]:
        raise px.Unsupported("_DictAccessorProperty.__delete__ changed")
    getters = [n for n in DA.body if isinstance(n, ast.FunctionDef) and n.name == "__get__" and not n.decorator_list]
    if len(getters) != 1 or [ast.unparse(x) for x in c08._body(getters[0])] != [
            "if instance is None:\n    return self", "storage = self.lookup(instance)", "if self.name not in storage:\n    return self.default",
            "value = storage[self.name]",
            "if self.load_func is not None:\n    try:\n        return self.load_func(value)\n    except (ValueError, TypeError):\n        return self.default",
            "return value"]:
        raise px.Unsupported("_DictAccessorProperty.__get__ changed")
    ht = px.load("http.py")
    for fname, want in (
            ("parse_set_header", ["if not value:\n    return ds.HeaderSet(None, on_update)", "return ds.HeaderSet(parse_list_header(value), on_update)"]),
            ("parse_age", ["if not value:\n    return None", "try:\n    seconds = int(value)\nexcept ValueError:\n    return None",
                           "if seconds < 0:\n    return None", "try:\n    return timedelta(seconds=seconds)\nexcept OverflowError:\n    return None"]),
            ("dump_age", ["if age is None:\n    return None",
                          "if isinstance(age, timedelta):\n    age = int(age.total_seconds())\nelse:\n    age = int(age)",
                          "if age < 0:\n    raise ValueError('age cannot be negative')", "return str(age)"])):
        fns = [n for n in ht.body if isinstance(n, ast.FunctionDef) and n.name == fname]
        if len(fns) != 1 or [ast.unparse(x) for x in c08._body(fns[0])] != want:
            raise px.Unsupported(f"http.{fname} changed")
    px.write_if_changed(os.path.join(COQ, "C16", "Gen.v"), out)
    # ---- statement pins (after Gen.v is written): everything the view models and oracles stand for that is not translated
    def table_row(a):
        v = a.value
        f = v.func.value if isinstance(v, ast.Call) and isinstance(v.func, ast.Subscript) else getattr(v, "func", None)
        return isinstance(f, ast.Name) and f.id in ("header_property", "_set_property", "cache_control_property", "csp_property")
    not_views = ["__init__", "__repr__", "status_code", "status", "_clean_status", "set_cookie", "delete_cookie", "is_json"]
    text = "# sansio/response.py\n" + c08.pin_items(sr, ["_set_property", ("Response", not_views)], None,
                                                    lambda a: table_row(a) or not isinstance(a.value, ast.Call),
                                                    ("_set_property", "cache_control", "content_security_policy", "content_range"))
    text += "# datastructures/cache_control.py\n" + c08.pin_items(
        cc, ["cache_control_property", ("_CacheControl", ["_set_cache_value"]), "ResponseCacheControl"], None, table_row)
    text += "# datastructures/csp.py\n" + c08.pin_items(csp, ["csp_property", "ContentSecurityPolicy"], None, table_row)
    text += "# datastructures/auth.py\n" + c08.pin_items(au_mod, ["WWWAuthenticate"])
    text += "# datastructures/range.py\n" + c08.pin_items(px.load("datastructures/range.py"), ["_CallbackProperty", "ContentRange"])
    text += "# datastructures/structures.py\n" + c08.pin_items(px.load("datastructures/structures.py"), ["CallbackDict"])
    text += "# datastructures/mixins.py\n" + c08.pin_items(mx, ["_always_update", "UpdateDictMixin"])
    text += "# http.py\n" + c08.pin_items(ht, [
        "COEP", "COOP", "_charset_value_re", "quote_header_value", "unquote_header_value", "dump_options_header", "dump_header", "dump_csp_header",
        "parse_list_header", "parse_dict_header", "parse_cache_control_header", "parse_csp_header", "parse_set_header",
        "parse_content_range_header", "quote_etag", "unquote_etag", "parse_date", "http_date", "parse_age", "dump_age", "is_byte_range_valid"])
    text += "# _internal.py\n" + c08.pin_items(it, ["_dt_as_utc", "_DictAccessorProperty"])
    text += "# utils.py\n" + c08.pin_items(px.load("utils.py"), ["header_property", "get_content_type"])
    px.check_pin("C16", "c16_views.txt", text, "a response header view method the C16 model or its oracles stand for")
    if deferred is not None:
        raise deferred


# ====================================================================== harness: encodings (shared with C08)
S, L, kvs, O, OL, OQ, exn_name = c08.S, c08.L, c08.kvs, c08.O, c08.OL, c08.OQ, c08.exn_name


def ov(v) -> str:
    return "n" if v is None else "s" + S(v)


def ccv(v) -> str:
    if v is None:
        return "n"
    if v is True:
        return "t"
    if v is False:
        return "f"
    if isinstance(v, int):
        return "i" + str(v)
    return "s" + S(v)


def dop_tok(op, f) -> str:
    n = op[0]
    if n in ("si", "popd", "sd"):
        return f"{n}:{S(op[1])}:{f(op[2])}"
    if n in ("di", "pop"):
        return f"{n}:{S(op[1])}"
    if n == "up":
        return "up:" + kvs(op[1], f)
    return n


def dop_apply(d, op):
    n = op[0]
    if n == "si":
        d[op[1]] = op[2]
        return None
    if n == "di":
        del d[op[1]]
        return None
    if n == "pop":
        return d.pop(op[1])
    if n == "popd":
        return d.pop(op[1], op[2])
    if n == "clear":
        return d.clear()
    if n == "sd":
        return d.setdefault(op[1], op[2])
    if n == "popitem":
        k, v = d.popitem()
        return ("K", k, v)
    if n == "up":
        return d.update(list(op[1]))
    raise ValueError(op)


def dres(v) -> str:
    if isinstance(v, tuple) and v and v[0] == "K":
        return "K" + S(v[1]) + "=" + L(["" if v[2] is None else v[2]], "+")
    return O(v)


def new_response(init):
    from werkzeug.wrappers import Response
    r = Response()
    r.headers.clear()
    for k, v in init:
        r.headers.add(k, v)
    return r


# ====================================================================== harness: HeaderSet views

SV = {"vary": "Vary", "allow": "Allow", "content_language": "Content-Language"}


def sv_tok(op) -> str:
    n = op[0]
    if n == "v":
        return "v." + c08.hs_tok(op[1])
    if n == "as":
        return "as:" + S(op[1])
    if n == "al":
        return "al:" + L(op[1])
    if n in ("hs", "hh"):
        return f"{n}:" + S(op[1])
    return n


def held_tok(op):
    """a direct header edit while the view object is kept (not fetched again)"""
    return "hh:" + S(op[1]) if op[0] == "hh" else "hhd"


def held_edit(r, name, op):
    if op[0] == "hh":
        r.headers[name] = op[1]
    else:
        del r.headers[name]


def _sv_obs(r, name, view) -> str:
    rr = getattr(r, ATTR_OF[name])
    return "|".join([O(r.headers.get(name)), OQ(list(r.headers)), OL(view._headers), OL(sorted(view._set)), O(len(view)),
                     OL(rr._headers), OL(sorted(rr._set))])


ATTR_OF = {v: k for k, v in SV.items()}


def run_sv(chk, attr, init, ops, oracle=True) -> str:
    name = SV[attr]
    r = new_response(init)
    view = getattr(r, attr)
    obs = [_sv_obs(r, name, view)]
    dirty = False            # the live view was changed since it was last read from the header
    stale = False
    ok = oracle
    def ci_dup(v):
        """the items themselves hold two entries equal up to letter case (the known C08 findings)"""
        return len({x.lower() for x in v._headers}) != len(v._headers)

    for n, op in enumerate(ops):
        dup_before = ci_dup(view)
        before = list(view._headers)
        try:
            if op[0] == "v":
                c08.hs_apply(view, op[1])
            elif op[0] == "an":
                setattr(r, attr, None)
            elif op[0] == "as":
                setattr(r, attr, op[1])
            elif op[0] == "al":
                setattr(r, attr, list(op[1]))
            elif op[0] == "hs":
                r.headers[name] = op[1]
            elif op[0] == "hd":
                del r.headers[name]
            elif op[0] in ("hh", "hhd"):
                held_edit(r, name, op)
            res = "N"
        except Exception as e:  # noqa: BLE001
            res = exn_name(e)
        if op[0] in ("hh", "hhd"):
            stale = True            # the held view no longer describes the header, until it writes itself back
        elif op[0] != "v":
            view = getattr(r, attr)
            dirty = stale = False
        elif list(view._headers) != before:
            dirty = True
            stale = False
        obs.append(res + "|" + _sv_obs(r, name, view))
        if not ok or stale:
            continue
        if res == "EValueError" and any("\n" in x or "\r" in x for x in view._headers):
            ok = False          # an item with CR/LF: the header store refuses it (C05); outside the domain
            continue
        case = {"kind": "sv", "attr": attr, "init": [list(p) for p in init], "ops": [list(o) if o[0] != "v" else ["v", list(o[1])] for o in ops[:n + 1]]}
        rr = getattr(r, attr)
        text = r.headers.get(name)
        bad = None
        low = {x.lower() for x in view}
        if len(view) != len(list(view)) or view.as_set() != low or bool(view) != bool(list(view)) \
                or any((x in view) != (x.lower() in low) for x in list(view) + SV_ITEMS):
            bad = (f"the live view is inconsistent with itself: iterates {list(view)!r}, len {len(view)}, as_set {sorted(view.as_set())!r}, "
                   f"membership {[x for x in list(view) + SV_ITEMS if x in view]!r}")
        elif list(rr) != list(view) or rr._set != view._set or len(rr) != len(view) or rr.as_set() != view.as_set():
            bad = f"re-reading response.{attr} gives {list(rr)!r} (len {len(rr)}), the live view holds {list(view)!r} (len {len(view)}); header {text!r}"
        elif dirty and text != (view.to_header() if list(view) else None):
            bad = f"header text {text!r} is not the serialisation {view.to_header()!r} of the changed view {list(view)!r}"
        if bad:
            if dup_before or ci_dup(view):
                chk.fail("set-view-ci-duplicate", f"response.{attr} after {op!r}: {bad} (the view holds case-insensitive duplicates)", case)
            else:
                chk.fail("set-view-drift", f"response.{attr} after {op!r}: {bad}", case)
            ok = False
    return " ".join(obs)


SV_ITEMS = ["Accept", "accept", "Cookie", "x y", "a", "A", "b"]
SV_INITS = [(), (("Vary", "Accept"), ("X-Other", "1")), (("vary", "a,b"), ("Allow", "GET, HEAD"), ("content-language", "en")),
            (("Vary", '"x y", Cookie'), ("Content-Language", "de, en-US"))]


def sv_alphabet(full: bool):
    ops = []
    items = SV_ITEMS if full else ["Accept", "accept", "b"]
    for x in items:
        ops += [("v", ("add", x)), ("v", ("remove", x)), ("v", ("discard", x))]
    for l in ([(), ("a", "A"), ("Cookie", "Accept")] if full else [("Cookie", "accept")]):
        ops.append(("v", ("update", l)))
    ops.append(("v", ("clear",)))
    for i in ([0, -1, 3] if full else [0]):
        ops.append(("v", ("del", i)))
        for v in (["Accept", "b", "B"] if full else ["Cookie"]):
            ops.append(("v", ("set", i, v)))
    ops += [("an",), ("hd",), ("hhd",), ("hh", "b, Cookie")]
    if full:
        ops.append(("hh", "Accept"))
    for s in (["Accept", "a,b", "", '"x y", b'] if full else ["a,b"]):
        ops += [("as", s), ("hs", s)]
    for l in ([(), ("Accept", "x y"), ("b",)] if full else [("Accept", "Cookie")]):
        ops.append(("al", l))
    return ops


def sv_random_op(rng):
    items = SV_ITEMS + ["Accept-Encoding", 'q"t', "a,b", "", "é", "x\\y", "bad\nitem"]
    r = rng.random()
    if r < 0.75:
        o = c08.hs_random_op(rng)
        if o[0] in ("add", "remove", "discard"):
            o = (o[0], rng.choice(items))
        elif o[0] == "update":
            o = ("update", tuple(rng.choice(items) for _ in range(rng.randint(0, 3))))
        elif o[0] == "set":
            o = ("set", o[1], rng.choice(items))
        return ("v", o)
    if r < 0.78:
        return ("an",)
    if r < 0.81:
        return ("hd",)
    if r < 0.85:
        return rng.choice([("hhd",), ("hh", "Accept"), ("hh", "a, b"), ("hh", '"x y", Cookie')])
    if r < 0.9:
        return ("as", rng.choice(["Accept", "a, b", "a,b , c", '"x y", Cookie', "", "a, A", " lead, trail "]))
    if r < 0.95:
        return ("hs", rng.choice(["Accept", "a, b", '"q\\"t", b', "a, A, a", ",,a,", '"unterminated, b']))
    return ("al", tuple(rng.choice(items[:-1]) for _ in range(rng.randint(0, 3))))


# ====================================================================== harness: cache_control

def cc_tok(op) -> str:
    if op[0] in ("hh", "hhd"):
        return held_tok(op)
    if op[0] == "sa":
        return f"sa:{S(op[1])}:{ccv(op[2])}"
    if op[0] == "da":
        return f"da:{S(op[1])}"
    return dop_tok(op, ov)


def _cc_attrs():
    import werkzeug.datastructures as ds
    import werkzeug.datastructures.cache_control as ccm
    out = []
    for cls in (ccm._CacheControl, ds.ResponseCacheControl):
        for k, v in vars(cls).items():
            if isinstance(v, property) and k not in out:
                out.append(k)
    return out


def _cdict(d) -> str:
    return OQ((k, "" if v is None else "=" + v) for k, v in d.items())


def _cc_obs(r, cc, attrs) -> str:
    rr = r.cache_control
    out = [O(r.headers.get("cache-control")), OQ(list(r.headers)), _cdict(cc), _cdict(rr)]
    for a in attrs:
        v = getattr(cc, a)
        out.append(O(v))
    return "|".join(out)


TOKEN = set("!#$%&'*+-.0123456789ABCDEFGHIJKLMNOPQRSTUVWXYZ^_`abcdefghijklmnopqrstuvwxyz|~")


def _cc_domain(d) -> bool:
    """keys and values on which dump_header / parse_dict_header are mutually inverse"""
    for k, v in d.items():
        if not (isinstance(k, str) and k and set(k) <= TOKEN and not k.endswith("*")):
            return False
        if v is not None and not (isinstance(v, str) and "\r" not in v and "\n" not in v):
            return False
    return True


def run_cc(chk, init, ops, oracle=True) -> str:
    attrs = _cc_attrs()
    r = new_response(init)
    cc = r.cache_control
    obs = [_cc_obs(r, cc, attrs)]
    ok = oracle
    dirty = False
    stale = False
    for n, op in enumerate(ops):
        before = dict(cc)
        if op[0] in ("hh", "hhd"):
            held_edit(r, "Cache-Control", op)
            stale = True
            obs.append("N|" + _cc_obs(r, cc, attrs))
            continue
        try:
            if op[0] == "sa":
                setattr(cc, op[1], op[2])
                res = "N"
            elif op[0] == "da":
                delattr(cc, op[1])
                res = "N"
            else:
                res = dres(dop_apply(cc, op))
        except Exception as e:  # noqa: BLE001
            res = exn_name(e)
        if dict(cc) != before or list(cc) != list(before):
            dirty = True
            stale = False
        obs.append(res + "|" + _cc_obs(r, cc, attrs))
        if not ok or stale:
            continue
        if not _cc_domain(cc):
            ok = False
            continue
        case = {"kind": "cc", "init": [list(p) for p in init], "ops": [list(o) for o in ops[:n + 1]]}
        rr = r.cache_control
        text = r.headers.get("cache-control")
        bad = None
        if dict(rr) != dict(cc) or list(rr) != list(cc):
            bad = f"re-reading response.cache_control gives {dict(rr)!r}, the live view holds {dict(cc)!r}; header {text!r}"
        elif dirty and text != (cc.to_header() if cc else None):
            bad = f"header text {text!r} is not the serialisation {cc.to_header()!r} of the changed view"
        elif op[0] == "sa" and res == "N":
            # assignment / read-back in normal form
            import werkzeug.datastructures.cache_control as ccm
            a, v = op[1], op[2]
            typ = _prop_type(a)
            got = getattr(cc, a)
            got2 = getattr(rr, a)
            if typ is bool:
                want = bool(v)
            elif v is None or v is False:
                want = None
            elif v is True:
                want = _prop_empty(a)
            elif typ is int:
                want = int(v)
            else:
                want = str(v)
            if got != want or got2 != want or type(got) is not type(want):
                bad = f"cache_control.{a} = {v!r} reads back {got!r} (re-read {got2!r}), normal form {want!r}"
        if bad:
            chk.fail("cache-control-drift", f"after {op!r}: {bad}", case)
            ok = False
    return " ".join(obs)


_PROP_INFO: dict = {}


def _prop_info():
    if not _PROP_INFO:
        tree = px.load("datastructures/cache_control.py")
        for cn in ("_CacheControl", "ResponseCacheControl"):
            for n in px.find_class(tree, cn).body:
                v = n.value if isinstance(n, (ast.Assign, ast.AnnAssign)) else None
                if isinstance(v, ast.Call) and isinstance(v.func, ast.Name) and v.func.id == "cache_control_property":
                    tgt = n.target.id if isinstance(n, ast.AnnAssign) else n.targets[0].id
                    _PROP_INFO[tgt] = (px.const(v.args[0]), ast.literal_eval(v.args[1]), {"bool": bool, "int": int, "None": None}[ast.unparse(v.args[2])])
    return _PROP_INFO


def _prop_type(a):
    return _prop_info()[a][2]


def _prop_empty(a):
    return _prop_info()[a][1]


CC_INITS = [(), (("Cache-Control", "max-age=60, public"), ("X", "1")), (("cache-control", 'private="a, b", no-cache'),),
            (("Cache-Control", "no-store"), ("Vary", "a"))]


def cc_alphabet(full: bool):
    ops = []
    attrs = ["max_age", "no_cache", "public", "private", "s_maxage", "no_store"] if full else ["max_age", "no_cache", "public"]
    vals = [True, False, None, 60, "7", "abc", 0] if full else [True, None, 60]
    for a in attrs:
        for v in vals:
            ops.append(("sa", a, v))
        ops.append(("da", a))
    for k in (["x", "max-age", "public"] if full else ["max-age"]):
        for v in ([None, "1", "a b"] if full else ["a b"]):
            ops.append(("si", k, v))
        ops += [("di", k), ("pop", k)]
        if full:
            ops += [("popd", k, "d"), ("sd", k, "9"), ("sd", k, None)]
    ops += [("clear",), ("popitem",), ("up", (("x", "1"), ("public", None))), ("hh", "max-age=1, public"), ("hhd",)]
    return ops


def cc_random_op(rng):
    attrs = list(_prop_info())
    keys = [v[0] for v in _prop_info().values()] + ["x", "ext-key", "k.1", "bad key", ""]
    vals = [True, False, None, 0, 1, 3600, -5, "7", "007", "-3", "abc", "", "x y", 'q"t', "a,b", "a\\b", "é"]
    r = rng.random()
    if r < 0.06:
        return rng.choice([("hhd",), ("hh", "no-store"), ("hh", 'private="a, b", max-age=5')])
    if r < 0.5:
        return ("sa", rng.choice(attrs), rng.choice(vals))
    if r < 0.6:
        return ("da", rng.choice(attrs))
    svals = [None, "1", "a b", 'q"t', "a,b", "", "x=y", "a\\b"]
    n = rng.choice(["si", "si", "di", "pop", "popd", "clear", "sd", "popitem", "up"])
    if n in ("si", "sd", "popd"):
        return (n, rng.choice(keys[:-3] if rng.random() < 0.9 else keys), rng.choice(svals))
    if n in ("di", "pop"):
        return (n, rng.choice(keys[:-3]))
    if n == "up":
        return ("up", tuple((rng.choice(keys[:-3]), rng.choice(svals)) for _ in range(rng.randint(0, 3))))
    return (n,)


# ====================================================================== harness: content_security_policy

def csp_tok(op) -> str:
    if op[0] in ("hh", "hhd"):
        return held_tok(op)
    if op[0] == "sa":
        return f"sa:{S(op[1])}:{ov(op[2])}"
    if op[0] == "da":
        return f"da:{S(op[1])}"
    return dop_tok(op, lambda v: "s" + S(v))


CSP_NAME = "Content-Security-Policy"


def _csp_attrs():
    import werkzeug.datastructures as ds
    return [k for k, v in vars(ds.ContentSecurityPolicy).items() if isinstance(v, property)]


def _csp_obs(r, c, attrs) -> str:
    rr = r.content_security_policy
    return "|".join([O(r.headers.get(CSP_NAME)), OQ(list(r.headers)), OQ(c.items()), OQ(rr.items())] + [O(getattr(c, a)) for a in attrs])


def _csp_domain(d) -> bool:
    import string
    for k, v in d.items():
        if not (isinstance(k, str) and k and not any(ch.isspace() or ch == ";" for ch in k)):
            return False
        if not (isinstance(v, str) and v and ";" not in v and v == v.strip() and "\r" not in v and "\n" not in v):
            return False
    return True


def run_csp(chk, init, ops, oracle=True) -> str:
    attrs = _csp_attrs()
    r = new_response(init)
    c = r.content_security_policy
    obs = [_csp_obs(r, c, attrs)]
    ok = oracle
    dirty = False
    stale = False
    for n, op in enumerate(ops):
        before = dict(c)
        if op[0] in ("hh", "hhd"):
            held_edit(r, CSP_NAME, op)
            stale = True
            obs.append("N|" + _csp_obs(r, c, attrs))
            continue
        try:
            if op[0] == "sa":
                setattr(c, op[1], op[2])
                res = "N"
            elif op[0] == "da":
                delattr(c, op[1])
                res = "N"
            else:
                res = dres(dop_apply(c, op))
        except Exception as e:  # noqa: BLE001
            res = exn_name(e)
        if dict(c) != before or list(c) != list(before):
            dirty = True
            stale = False
        obs.append(res + "|" + _csp_obs(r, c, attrs))
        if not ok or stale:
            continue
        if not _csp_domain(c):
            ok = False          # empty values / values with a semicolon do not re-parse: stated domain of the CSP codec
            continue
        case = {"kind": "csp", "init": [list(p) for p in init], "ops": [list(o) for o in ops[:n + 1]]}
        rr = r.content_security_policy
        text = r.headers.get(CSP_NAME)
        bad = None
        if dict(rr) != dict(c) or list(rr) != list(c):
            bad = f"re-reading gives {dict(rr)!r}, the live view holds {dict(c)!r}; header {text!r}"
        elif dirty and text != (c.to_header() if c else None):
            bad = f"header text {text!r} is not the serialisation {c.to_header()!r}"
        elif op[0] == "sa" and res == "N" and (getattr(c, op[1]) != op[2] or getattr(rr, op[1]) != op[2]):
            bad = f"csp.{op[1]} = {op[2]!r} reads back {getattr(c, op[1])!r}"
        if bad:
            chk.fail("csp-drift", f"after {op!r}: {bad}", case)
            ok = False
    return " ".join(obs)


CSP_INITS = [(), ((CSP_NAME, "default-src 'self'; img-src *"),), (("content-security-policy", "script-src a b ;; bad; x  y"), ("X", "1"))]


def csp_alphabet(full: bool):
    ops = []
    for a in (["default_src", "script_src", "img_src"] if full else ["default_src", "img_src"]):
        for v in ([None, "'self'", "a b", "", "x; y"] if full else [None, "'self'"]):
            ops.append(("sa", a, v))
        ops.append(("da", a))
    for k in (["default-src", "x"] if full else ["x"]):
        ops += [("si", k, "v w"), ("di", k), ("pop", k)]
        if full:
            ops += [("popd", k, "d"), ("sd", k, "9")]
    ops += [("clear",), ("popitem",), ("up", (("x", "1"), ("img-src", "*"))), ("hh", "img-src *; x y"), ("hhd",)]
    return ops


def csp_random_op(rng):
    attrs = _csp_attrs()
    vals = [None, "'self'", "a b", "*", "https://x.example", "", "x; y", " lead", "é"]
    r = rng.random()
    if r < 0.06:
        return rng.choice([("hhd",), ("hh", "default-src 'none'"), ("hh", "img-src *; script-src a b")])
    if r < 0.5:
        return ("sa", rng.choice(attrs), rng.choice(vals))
    if r < 0.6:
        return ("da", rng.choice(attrs))
    keys = ["default-src", "img-src", "x", "report-uri", "a b", ""]
    n = rng.choice(["si", "si", "di", "pop", "popd", "clear", "sd", "popitem", "up"])
    if n in ("si", "sd", "popd"):
        return (n, rng.choice(keys[:-2] if rng.random() < 0.9 else keys), rng.choice(vals[1:]))
    if n in ("di", "pop"):
        return (n, rng.choice(keys[:-2]))
    if n == "up":
        return ("up", tuple((rng.choice(keys[:-2]), rng.choice(vals[1:])) for _ in range(rng.randint(0, 3))))
    return (n,)


# ====================================================================== harness: content_range

def cr_tok(op) -> str:
    if op[0] in ("hh", "hhd"):
        return held_tok(op)
    def oi(x):
        return "n" if x is None else str(x)
    if op[0] == "set":
        return f"set:{oi(op[1])}:{oi(op[2])}:{oi(op[3])}:{ov(op[4])}"
    if op[0] == "unset":
        return "unset"
    if op[0] == "units":
        return "units:" + ov(op[1])
    return f"{op[0]}:{oi(op[1])}"


def _cr_fields(c) -> list[str]:
    return [O(c.units), O(c.start), O(c.stop), O(c.length)]


def _cr_obs(r, c) -> str:
    return "|".join([O(r.headers.get("Content-Range")), OQ(list(r.headers))] + _cr_fields(c) + _cr_fields(r.content_range))


def run_cr(chk, init, ops, oracle=True) -> str:
    r = new_response(init)
    c = r.content_range
    obs = [_cr_obs(r, c)]
    ok = oracle
    for n, op in enumerate(ops):
        if op[0] in ("hh", "hhd"):
            held_edit(r, "Content-Range", op)
            obs.append("N|" + _cr_obs(r, c))
            continue
        try:
            if op[0] == "set":
                c.set(op[1], op[2], op[3], op[4])
            elif op[0] == "unset":
                c.unset()
            else:
                setattr(c, op[0], op[1])
            res = "N"
        except AssertionError:
            res = "EValueError"          # set() refuses an invalid range (AssertionError): the model's refusal marker
        except Exception as e:  # noqa: BLE001
            res = exn_name(e)
        obs.append(res + "|" + _cr_obs(r, c))
        if not ok:
            continue
        state = (c.units, c.start, c.stop, c.length)
        if c.units is not None and not (_valid_range(c.start, c.stop, c.length) and c.units and not any(ch.isspace() for ch in c.units)):
            ok = False      # attribute assignment produced a range is_byte_range_valid rejects, or odd units: outside the domain
            continue
        if res != "N":
            continue
        case = {"kind": "cr", "init": [list(p) for p in init], "ops": [list(o) for o in ops[:n + 1]]}
        rr = r.content_range
        text = r.headers.get("Content-Range")
        want = c.to_header() if c.units is not None else None
        rstate = (rr.units, rr.start, rr.stop, rr.length)
        if c.units is None:
            state = rstate = (None, rr.units)
        if text != want or rstate != state:
            chk.fail("content-range-drift", f"after {op!r}: header {text!r}, view {state!r} serialises to {want!r}, re-read {rstate!r}", case)
            ok = False
    return " ".join(obs)


CR_INITS = [(), (("Content-Range", "bytes 0-9/100"), ("X", "1")), (("content-range", "bytes */5"),), (("Content-Range", "items  3-4/*"),),
            (("Content-Range", "bytes 5-2/10"),), (("Content-Range", "bytes"),)]


def cr_alphabet():
    ops = [("unset",), ("hh", "bytes 1-2/3"), ("hh", "bytes"), ("hhd",)]
    for s, e, l in [(None, None, None), (None, None, 10), (0, 5, None), (0, 5, 10), (5, 6, 6), (3, 2, 10), (0, 5, 3), (None, 4, None), (-1, 4, 10)]:
        for u in ("bytes", "items", None):
            ops.append(("set", s, e, l, u))
    for u in ("bytes", None, "x y"):
        ops.append(("units", u))
    for a, vals in (("start", [None, 0, 4]), ("stop", [None, 1, 50]), ("length", [None, 0, 60])):
        for v in vals:
            ops.append((a, v))
    return ops


# ====================================================================== harness: www_authenticate

def wa_tok(op) -> str:
    if op[0] in ("hh", "hhd"):
        return held_tok(op)
    n = op[0]
    if n in ("item", "attr"):
        return f"{n}:{S(op[1])}:{ov(op[2])}"
    if n == "delitem":
        return "delitem:" + S(op[1])
    if n == "type":
        return "type:" + S(op[1])
    if n == "token":
        return "token:" + ov(op[1])
    if n == "params":
        return "params:" + kvs(op[1], ov)
    return "p:" + dop_tok(op[1], ov)


def _wa_fields(w) -> list[str]:
    return [O(w.type), O(w.token), _cdict(w.parameters)]


def _wa_obs(r, w) -> str:
    return "|".join([O(r.headers.get("WWW-Authenticate")), OQ(list(r.headers))] + _wa_fields(w) + _wa_fields(r.www_authenticate))


def _wa_domain(w) -> bool:
    if not (w.type and w.type == w.type.lower() and set(w.type) <= TOKEN):
        return False
    if w.token is not None:
        t = w.token
        return not w.parameters and bool(t) and t == t.strip() and "=" not in t.rstrip("=") and "\r" not in t and "\n" not in t
    return bool(w.parameters) and _cc_domain(w.parameters) and all(v is not None for v in w.parameters.values())


def run_wa(chk, init, ops, oracle=True) -> str:
    r = new_response(init)
    w = r.www_authenticate
    obs = [_wa_obs(r, w)]
    ok = oracle
    dirty = False
    stale = False
    for n, op in enumerate(ops):
        before = (w.type, w.token, dict(w.parameters))
        if op[0] in ("hh", "hhd"):
            held_edit(r, "WWW-Authenticate", op)
            stale = True
            obs.append("N|" + _wa_obs(r, w))
            continue
        try:
            k = op[0]
            if k == "item":
                w[op[1]] = op[2]
                res = "N"
            elif k == "delitem":
                del w[op[1]]
                res = "N"
            elif k == "attr":
                setattr(w, op[1], op[2])
                res = "N"
            elif k == "type":
                w.type = op[1]
                res = "N"
            elif k == "token":
                w.token = op[1]
                res = "N"
            elif k == "params":
                w.parameters = dict(op[1])
                res = "N"
            else:
                res = dres(dop_apply(w.parameters, op[1]))
        except Exception as e:  # noqa: BLE001
            res = exn_name(e)
        now = (w.type, w.token, dict(w.parameters))
        if now != before:
            dirty = True
            stale = False
        obs.append(res + "|" + _wa_obs(r, w))
        if not ok or stale:
            continue
        if not _wa_domain(w):
            ok = False
            continue
        case = {"kind": "wa", "init": [list(p) for p in init], "ops": [list(o) for o in ops[:n + 1]]}
        if op[0] in ("type", "token", "params") and res == "N":
            want = {"type": lambda: now[0] == op[1], "token": lambda: now[1] == op[1], "params": lambda: now[2] == dict(op[1])}[op[0]]()
            if not want:
                chk.fail("www-authenticate-drift", f"{op!r} read back as {now!r}", case)
                ok = False
                continue
        if not dirty:
            continue
        rr = r.www_authenticate
        text = r.headers.get("WWW-Authenticate")
        if text != w.to_header() or (rr.type, rr.token, dict(rr.parameters)) != now:
            chk.fail("www-authenticate-drift", f"after {op!r}: header {text!r}, view {now!r} serialises to {w.to_header()!r}, re-read "
                     f"{(rr.type, rr.token, dict(rr.parameters))!r}", case)
            ok = False
    return " ".join(obs)


WA_INITS = [(), (("WWW-Authenticate", 'Basic realm="r"'),), (("www-authenticate", "Bearer abc=="), ("X", "1")),
            (("WWW-Authenticate", 'Digest realm="a b", qop="auth,auth-int", nonce=abc'),), (("WWW-Authenticate", "Negotiate"),)]


def wa_alphabet(full: bool):
    ops = []
    for k in (["realm", "nonce", "x-ext"] if full else ["realm"]):
        for v in (["r", "a b", None] if full else ["a b", None]):
            ops += [("item", k, v), ("attr", k.replace("-", "_"), v)]
        ops += [("delitem", k), ("p", ("si", k, "v")), ("p", ("pop", k))]
        if full:
            ops += [("p", ("di", k)), ("p", ("sd", k, "d"))]
    for t in (["basic", "digest", "bearer"] if full else ["digest"]):
        ops.append(("type", t))
    for t in (["tok", "abc==", None] if full else ["tok", None]):
        ops.append(("token", t))
    for d in ([(("realm", "x"),), (("nonce", "n"), ("qop", "auth")), ()] if full else [(("realm", "x"),)]):
        ops.append(("params", d))
    ops += [("p", ("clear",)), ("p", ("popitem",)), ("p", ("up", (("realm", "u"), ("charset", "UTF-8")))),
            ("hh", 'Basic realm="z"'), ("hh", "Bearer t0k"), ("hhd",)]
    return ops


def wa_random_op(rng):
    keys = ["realm", "nonce", "qop", "x-ext", "charset", "opaque", "stale"]
    vals = ["x", "a b", "auth,auth-int", "UTF-8", 'q"t', "a\\b", "", None]
    r = rng.random()
    if r < 0.06:
        return rng.choice([("hhd",), ("hh", 'Digest realm="z", nonce=n'), ("hh", "Bearer t0k"), ("hh", "Negotiate")])
    if r < 0.2:
        return ("item", rng.choice(keys), rng.choice(vals))
    if r < 0.35:
        return ("attr", rng.choice(["realm", "nonce", "qop", "x_ext"]), rng.choice(vals))
    if r < 0.45:
        return ("delitem", rng.choice(keys))
    if r < 0.55:
        return ("type", rng.choice(["basic", "digest", "bearer", "negotiate", "Digest", "x custom"]))
    if r < 0.65:
        return ("token", rng.choice(["tok", "abc==", "a=b", "", None, None]))
    if r < 0.72:
        return ("params", tuple({rng.choice(keys): rng.choice(vals[:-1]) for _ in range(rng.randint(0, 3))}.items()))
    n = rng.choice(["si", "di", "pop", "popd", "clear", "sd", "popitem", "up"])
    if n in ("si", "sd", "popd"):
        return ("p", (n, rng.choice(keys), rng.choice(vals)))
    if n in ("di", "pop"):
        return ("p", (n, rng.choice(keys)))
    if n == "up":
        return ("p", ("up", tuple((rng.choice(keys), rng.choice(vals)) for _ in range(rng.randint(0, 2)))))
    return ("p", (n,))


# ====================================================================== harness: mimetype_params (held view)

def _mp_obs(r, d) -> str:
    return "|".join([O(r.headers.get("Content-Type")), OQ(list(r.headers)), OQ(d.items()), O(r.mimetype)])


def run_mp(chk, init, ops, oracle=True):
    """ONE held mimetype_params view; the media type is changed behind its back through response.mimetype,
    response.content_type and direct header edits (all three are, for the model, a direct edit with the resulting
    header text).  Returns (model tokens, observation)."""
    from werkzeug.http import dump_options_header
    r = new_response(init)
    d = r.mimetype_params
    toks, obs = [], [_mp_obs(r, d)]
    d0 = dict(d)
    dirty = False
    ok = oracle
    for n, op in enumerate(ops):
        if op[0] in ("mt", "ct", "hh", "hhd"):
            if op[0] == "mt":
                r.mimetype = op[1]
            elif op[0] == "ct":
                r.content_type = op[1]
            else:
                held_edit(r, "Content-Type", op)
            text = r.headers.get("Content-Type")
            toks.append("hhd" if text is None else "hh:" + S(text))
            obs.append("N|" + _mp_obs(r, d))
            dirty = False
            continue
        want_mt = r.mimetype
        before = dict(d)
        try:
            res = dres(dop_apply(d, op))
        except Exception as e:  # noqa: BLE001
            res = exn_name(e)
        toks.append(dop_tok(op, lambda v: "s" + S(v)))
        obs.append(res + "|" + _mp_obs(r, d))
        dirty = dirty or dict(d) != before
        if not ok or not dirty:
            continue
        if not (want_mt and all(k and set(k) <= TOKEN and not k.endswith("*") for k in d)
                and all(isinstance(v, str) and "\r" not in v and "\n" not in v for v in d.values())):
            ok = False
            continue
        text = r.headers.get("Content-Type")
        rr = r.mimetype_params
        if r.mimetype != want_mt or text != dump_options_header(want_mt, d) or dict(rr) != dict(d):
            chk.fail("mimetype-params-drift", f"after {op!r}: Content-Type {text!r} (mimetype {r.mimetype!r}); the held view {dict(d)!r} next to the "
                     f"current media type {want_mt!r} serialises to {dump_options_header(want_mt, d)!r}; re-read params {dict(rr)!r}",
                     {"kind": "mp", "init": [list(p) for p in init], "ops": [list(o) for o in ops[:n + 1]]})
            ok = False
    return toks, d0, " ".join(obs)


MP_INITS = [(("Content-Type", "text/html; charset=utf-8"),), (("content-type", "application/json"), ("X", "1")),
            (("Content-Type", 'multipart/form-data; boundary="a b"'),), ()]


def mp_alphabet():
    ops = [("mt", "application/json"), ("mt", "text/csv"), ("ct", "multipart/related; boundary=abc"), ("hh", "image/png"), ("hhd",),
           ("clear",), ("popitem",), ("up", (("x", "1"), ("charset", "ascii")))]
    for k in ("charset", "x"):
        ops += [("si", k, "utf-8"), ("si", k, "a b"), ("di", k), ("pop", k), ("sd", k, "2")]
    return ops


def mp_random_op(rng):
    r = rng.random()
    if r < 0.3:
        return rng.choice([("mt", rng.choice(["application/json", "text/csv", "image/png", "text/plain"])),
                           ("ct", rng.choice(["multipart/related; boundary=abc", "text/plain", "application/xml; charset=latin1"])),
                           ("hh", rng.choice(["text/csv; charset=utf-8", "application/octet-stream", " text/x ; a=b"])), ("hhd",)])
    k = rng.choice(["charset", "boundary", "x", "profile"])
    v = rng.choice(["utf-8", "a b", 'q"t', "latin1", "", "a;b"])
    n = rng.choice(["si", "si", "di", "pop", "popd", "clear", "sd", "popitem", "up"])
    if n in ("si", "sd", "popd"):
        return (n, k, v)
    if n in ("di", "pop"):
        return (n, k)
    if n == "up":
        return ("up", ((k, v), ("x", "1")))
    return (n,)


# ====================================================================== harness: views judged by oracles only
# (content_range, www_authenticate, mimetype_params and the scalar header_property pairs are not modelled in Coq
#  in this revision unless coq/C16/Props.v says so; the property statement is transcribed here and judged on the
#  implementation)

def _valid_range(start, stop, length) -> bool:
    if (start is None) != (stop is None):
        return False
    if start is None:
        return length is None or length >= 0
    if length is None:
        return 0 <= start < stop
    if start >= stop:
        return False
    return 0 <= start < length


def oracle_content_range(chk, rng, n):
    from werkzeug.datastructures import ContentRange
    for i in range(n):
        r = new_response(rng.choice([(), (("Content-Range", "bytes 0-9/100"),), (("content-range", "bytes */5"),)]))
        cr = r.content_range
        hist = []
        for _ in range(rng.randint(1, 8)):
            k = rng.choice(["set", "set", "unset", "attr", "attr", "assign", "assign_str", "assign_none"])
            start = rng.choice([None, 0, 5, 10])
            stop = None if start is None else start + rng.choice([1, 5, 100])
            length = rng.choice([None, 0, 10, 200, 1000])
            if not _valid_range(start, stop, length):
                length = None
            try:
                if k == "set":
                    op = ("set", start, stop, length, rng.choice(["bytes", "items"]))
                    cr.set(start, stop, length, op[4])
                elif k == "unset":
                    op = ("unset",)
                    cr.unset()
                elif k == "attr":
                    a = rng.choice(["units", "start", "stop", "length"])
                    v = {"units": rng.choice(["bytes", "lines", None]), "start": rng.choice([0, 3]), "stop": rng.choice([4, 50]),
                         "length": rng.choice([None, 60, 5000])}[a]
                    new = {"units": cr.units, "start": cr.start, "stop": cr.stop, "length": cr.length}
                    new[a] = v
                    if new["units"] is None or not _valid_range(new["start"], new["stop"], new["length"]):
                        continue        # attribute assignment leading to a state is_byte_range_valid rejects: outside the domain
                    op = ("attr", a, v)
                    setattr(cr, a, v)
                elif k == "assign":
                    op = ("assign", start, stop, length)
                    r.content_range = ContentRange("bytes", start, stop, length)
                    cr = r.content_range
                elif k == "assign_str":
                    op = ("assign_str", "bytes 2-5/9")
                    r.content_range = "bytes 2-5/9"
                    cr = r.content_range
                else:
                    op = ("assign_none",)
                    r.content_range = None
                    cr = r.content_range
            except Exception as e:  # noqa: BLE001
                chk.fail("content-range-raises", f"{k} raised {e!r}", {"kind": "content_range", "history": hist})
                break
            hist.append(op)
            text = r.headers.get("Content-Range")
            rr = r.content_range
            state = (cr.units, cr.start, cr.stop, cr.length)
            want = cr.to_header() if cr.units is not None else None
            rstate = (rr.units, rr.start, rr.stop, rr.length)
            if cr.units is None:
                state = rstate = (None, rr.units)
            if text != want or rstate != state:
                chk.fail("content-range-drift", f"after {op!r}: header {text!r}, view {state!r} serialises to {want!r}, re-read "
                         f"{(rr.units, rr.start, rr.stop, rr.length)!r}", {"kind": "content_range", "history": hist})
                break
        chk.case(("content_range", i, tuple(hist)), nontrivial=True)
    chk.count("content_range(oracle only)", n)


def oracle_www_authenticate(chk, rng, n):
    from werkzeug.datastructures import WWWAuthenticate
    keys = ["realm", "nonce", "qop", "x-ext", "charset"]
    vals = ["x", "a b", "auth,auth-int", "UTF-8", "q't"]
    for i in range(n):
        r = new_response(rng.choice([(), (("WWW-Authenticate", 'Basic realm="r"'),), (("www-authenticate", "Bearer abc"),)]))
        w = r.www_authenticate
        attached = r.headers.get("WWW-Authenticate") is not None
        hist = []
        dirty = False
        prev = (w.type, w.token, dict(w.parameters))
        for _ in range(rng.randint(1, 8)):
            k = rng.choice(["assign", "attr", "attr", "item", "delitem", "delattr", "type", "token", "params", "pdict", "ppop", "list", "none", "del"])
            try:
                if k == "assign":
                    tok = rng.choice([None, None, "abc=="])
                    w = WWWAuthenticate(rng.choice(["basic", "digest", "bearer", "x-custom"]),
                                        None if tok else {rng.choice(keys): rng.choice(vals)}, tok)
                    op = ("assign", w.type, dict(w.parameters), w.token)
                    r.www_authenticate = w
                    attached = True
                elif k == "attr":
                    op = ("attr", rng.choice(keys[:3]), rng.choice(vals + [None]))
                    setattr(w, op[1], op[2])
                elif k == "item":
                    op = ("item", rng.choice(keys), rng.choice(vals + [None]))
                    w[op[1]] = op[2]
                elif k == "delitem":
                    op = ("delitem", rng.choice(keys))
                    del w[op[1]]
                elif k == "delattr":
                    op = ("delattr", rng.choice(keys[:3]))
                    delattr(w, op[1])
                elif k == "type":
                    op = ("type", rng.choice(["basic", "digest", "bearer"]))
                    w.type = op[1]
                elif k == "token":
                    op = ("token", rng.choice(["tok", "abc==", None]))
                    w.token = op[1]
                elif k == "params":
                    op = ("params", {rng.choice(keys): rng.choice(vals)})
                    w.parameters = dict(op[1])
                elif k == "pdict":
                    op = ("pdict", rng.choice(keys), rng.choice(vals))
                    w.parameters[op[1]] = op[2]
                elif k == "ppop":
                    op = ("ppop", rng.choice(keys))
                    w.parameters.pop(op[1], None)
                elif k == "list":
                    a, b = WWWAuthenticate("basic", {"realm": "a"}), WWWAuthenticate("bearer", token="t")
                    op = ("list",)
                    r.www_authenticate = [a, b]
                    if r.headers.getlist("WWW-Authenticate") != [a.to_header(), b.to_header()]:
                        chk.fail("www-authenticate-drift", "list assignment does not produce one header line per item",
                                 {"kind": "www_authenticate", "history": hist + [op]})
                    w = r.www_authenticate
                    attached = True
                elif k == "none":
                    op = ("none",)
                    r.www_authenticate = None
                    w = r.www_authenticate
                    attached = False
                else:
                    op = ("del",)
                    del r.www_authenticate
                    w = r.www_authenticate
                    attached = False
            except Exception as e:  # noqa: BLE001
                chk.fail("www-authenticate-raises", f"{k} raised {e!r}", {"kind": "www_authenticate", "history": hist})
                break
            hist.append(op)
            now = (w.type, w.token, dict(w.parameters))
            if k in ("assign", "list", "none", "del"):
                dirty = k == "assign"
            elif now != prev:
                dirty = True
            prev = now
            if k in ("attr", "item", "delitem", "delattr", "type", "token", "params", "pdict", "ppop") :
                attached = attached or r.headers.get("WWW-Authenticate") is not None
            # domain of the WWW-Authenticate codec: a token, or at least one parameter
            if w.token is None and not w.parameters:
                break
            if w.token is not None and w.parameters:
                break       # documented: only one of the two should be set
            if k in ("list",):
                continue
            text = r.headers.get("WWW-Authenticate")
            rr = r.www_authenticate
            if not attached and text is None:
                continue
            state = (w.type, w.token, dict(w.parameters))
            if (dirty and text != w.to_header()) or (rr.type, rr.token, dict(rr.parameters)) != state:
                chk.fail("www-authenticate-drift", f"after {op!r}: header {text!r}, view {state!r} serialises to {w.to_header()!r}, "
                         f"re-read {(rr.type, rr.token, dict(rr.parameters))!r}", {"kind": "www_authenticate", "history": hist})
                break
            if k == "token" and w.token != op[1] or k == "type" and w.type != op[1] or k == "params" and dict(w.parameters) != op[1]:
                chk.fail("www-authenticate-drift", f"{op!r} read back as {state!r}", {"kind": "www_authenticate", "history": hist})
                break
        chk.case(("www_authenticate", i, repr(hist)), nontrivial=True)
    chk.count("www_authenticate(oracle only)", n)


def oracle_mimetype_params(chk, rng, n):
    """one held mimetype_params view, interleaved with changes of the media type behind its back (response.mimetype,
    response.content_type, a direct Content-Type edit): a mutation of the view writes the parameters next to the
    response's current media type, and re-reading the property gives the held view's parameters"""
    from werkzeug.http import dump_options_header, parse_options_header
    for i in range(n):
        r = new_response([("Content-Type", rng.choice(["text/html; charset=utf-8", "application/json", 'multipart/form-data; boundary="a b"']))])
        d = r.mimetype_params
        hist = []
        dirty = False
        for _ in range(rng.randint(1, 8)):
            k = rng.random()
            if k < 0.3:
                kind = rng.choice(["mimetype", "content_type", "header", "refetch"])
                if kind == "mimetype":
                    v = rng.choice(["application/json", "text/csv", "image/png"])
                    r.mimetype = v
                elif kind == "content_type":
                    v = rng.choice(["multipart/related; boundary=abc", "text/plain", "application/xml; charset=latin1"])
                    r.content_type = v
                elif kind == "header":
                    v = rng.choice(["text/csv; charset=utf-8", "application/octet-stream"])
                    r.headers["Content-Type"] = v
                else:
                    v = None
                    d = r.mimetype_params
                hist.append((kind, v))
                dirty = False
                continue
            op = rng.choice([("si", rng.choice(["charset", "boundary", "x"]), rng.choice(["utf-8", "a b", 'q"t', "latin1"])),
                             ("di", rng.choice(["charset", "boundary"])), ("pop", "charset"), ("clear",),
                             ("up", (("x", "1"), ("charset", "ascii"))), ("sd", "y", "2")])
            want_mt = r.mimetype          # the media type of the response just before the view is used
            before = dict(d)
            try:
                dop_apply(d, op)
            except KeyError:
                pass
            hist.append(op)
            changed = dict(d) != before
            dirty = dirty or changed
            if not dirty:
                continue
            rr = r.mimetype_params
            text = r.headers.get("Content-Type")
            if r.mimetype != want_mt or dict(rr) != dict(d) or text != dump_options_header(want_mt, d):
                chk.fail("mimetype-params-drift", f"after {hist!r}: Content-Type {text!r} (mimetype {r.mimetype!r}), the held view {dict(d)!r} next to the "
                         f"current media type {want_mt!r} serialises to {dump_options_header(want_mt, d)!r}; re-read params {dict(rr)!r}",
                         {"kind": "mimetype_params", "history": [list(h) for h in hist]})
                break
        chk.case(("mimetype_params", i, repr(hist)), nontrivial=True)
    chk.count("mimetype_params(oracle only, held view)", n)


def _tzs():
    """time zones for the date-valued properties: fixed offsets, and zero-offset zones that are not the timezone.utc object"""
    from datetime import timedelta, timezone, tzinfo

    class ZeroOffset(tzinfo):          # like dateutil.tz.tzutc / pytz.utc
        def utcoffset(self, dt):
            return timedelta(0)

        def dst(self, dt):
            return timedelta(0)

        def tzname(self, dt):
            return "UTC"

        def __repr__(self):
            return "ZeroOffset()"

    class Shifting(tzinfo):            # offset depends on the date, zero in winter (like Europe/London)
        def utcoffset(self, dt):
            return timedelta(hours=1) if dt is not None and 4 <= dt.month <= 9 else timedelta(0)

        def dst(self, dt):
            return self.utcoffset(dt)

        def tzname(self, dt):
            return "SHIFT"

        def __repr__(self):
            return "Shifting()"
    out = [timezone(timedelta(hours=2)), timezone(timedelta(hours=-8)), timezone(timedelta(hours=5, minutes=30)),
           timezone(timedelta(0), "GMT"), ZeroOffset(), Shifting()]
    try:
        from zoneinfo import ZoneInfo
        out += [ZoneInfo("UTC"), ZoneInfo("Europe/London"), ZoneInfo("America/New_York")]
    except Exception:  # noqa: BLE001  (no tz database available offline)
        pass
    return out


TZS = _tzs()


def oracle_scalars(chk, rng, n):
    from datetime import datetime, timedelta, timezone
    from email.utils import format_datetime
    from werkzeug.datastructures import HeaderSet
    from werkzeug.http import COEP, COOP, http_date
    for i in range(n):
        r = new_response(())
        case = {"kind": "scalar"}

        def bad(what):
            chk.fail("scalar-drift", what, dict(case, assignment=what))
        # integers
        z = rng.choice([0, 1, 42, 10 ** 12])
        r.content_length = z
        if r.headers.get("Content-Length") != str(z) or r.content_length != z:
            bad(f"content_length = {z}")
        r.access_control_max_age = z
        if r.headers.get("Access-Control-Max-Age") != str(z) or r.access_control_max_age != z:
            bad(f"access_control_max_age = {z}")
        del r.content_length
        if "Content-Length" in r.headers or r.content_length is not None:
            bad("del content_length")
        r.headers["Content-Length"] = "abc"
        if r.content_length is not None:
            bad("content_length with a non-numeric header is not the default")
        # age
        a = rng.choice([0, 5, 86400 * 3 + 7])
        r.age = rng.choice([a, timedelta(seconds=a)])
        if r.headers.get("Age") != str(a) or r.age != timedelta(seconds=a):
            bad(f"age = {a}")
        # dates: one-second resolution, timezone-aware UTC on the way back
        t = datetime(2000 + rng.randint(0, 40), rng.randint(1, 12), rng.randint(1, 28), rng.randint(0, 23), rng.randint(0, 59),
                     rng.randint(0, 59), rng.choice([0, 123456]))
        for attr, hdr in (("date", "Date"), ("expires", "Expires"), ("last_modified", "Last-Modified"), ("retry_after", "Retry-After")):
            for tz in [None, timezone.utc] + (TZS if i < 2 else rng.sample(TZS, 3)):
                tv = t.replace(tzinfo=tz)
                utc = (tv if tv.tzinfo else tv.replace(tzinfo=timezone.utc)).astimezone(timezone.utc).replace(microsecond=0)
                text = format_datetime(utc, usegmt=True)
                try:
                    setattr(r, attr, tv)
                    got = getattr(r, attr)
                except Exception as e:  # noqa: BLE001
                    bad(f"{attr} = {tv!r} raised {type(e).__name__}: {e}")
                    continue
                if r.headers.get(hdr) != text or got != utc or got.tzinfo is None or got.utcoffset() != timedelta(0) or got.microsecond != 0:
                    bad(f"{attr} = {tv!r} reads back {got!r}, header {r.headers.get(hdr)!r}, expected {text!r}")
        r.retry_after = 120
        if r.headers.get("Retry-After") != "120":
            bad("retry_after = 120")
        r.retry_after = None
        if "Retry-After" in r.headers or r.retry_after is not None:
            bad("retry_after = None")
        # plain strings
        for attr, hdr in (("location", "Location"), ("content_type", "Content-Type"), ("content_md5", "Content-MD5"),
                          ("content_encoding", "Content-Encoding"), ("content_location", "Content-Location"),
                          ("accept_ranges", "Accept-Ranges"), ("access_control_allow_origin", "Access-Control-Allow-Origin")):
            v = rng.choice(["x", "http://a/b?c=d", "text/plain; charset=utf-8", "bytes", "*"])
            setattr(r, attr, v)
            if r.headers.get(hdr) != v or getattr(r, attr) != v:
                bad(f"{attr} = {v!r}")
            delattr(r, attr)
            if hdr in r.headers or getattr(r, attr) is not None:
                bad(f"del {attr}")
        # etag
        e, weak = rng.choice(["abc", "a-b", "x y"]), rng.random() < 0.5
        r.set_etag(e, weak)
        if r.get_etag() != (e, weak):
            bad(f"set_etag({e!r}, {weak}) reads back {r.get_etag()!r}")
        # CORS
        r.access_control_allow_credentials = True
        if r.headers.get("Access-Control-Allow-Credentials") != "true" or r.access_control_allow_credentials is not True:
            bad("access_control_allow_credentials = True")
        r.access_control_allow_credentials = False
        if "Access-Control-Allow-Credentials" in r.headers or r.access_control_allow_credentials is not False:
            bad("access_control_allow_credentials = False")
        for attr, hdr in (("access_control_allow_headers", "Access-Control-Allow-Headers"),
                          ("access_control_allow_methods", "Access-Control-Allow-Methods"),
                          ("access_control_expose_headers", "Access-Control-Expose-Headers")):
            items = rng.choice([["X-A", "Content-Type"], ["GET"], ["a b", "c"]])
            setattr(r, attr, items)
            got = getattr(r, attr)
            if not isinstance(got, HeaderSet) or list(got) != items:
                bad(f"{attr} = {items!r} reads back {got!r}")
        for attr, hdr, enum in (("cross_origin_opener_policy", "Cross-Origin-Opener-Policy", COOP),
                                ("cross_origin_embedder_policy", "Cross-Origin-Embedder-Policy", COEP)):
            v = rng.choice(list(enum))
            setattr(r, attr, v)
            if r.headers.get(hdr) != v.value or getattr(r, attr) is not v:
                bad(f"{attr} = {v!r}")
            delattr(r, attr)
            if getattr(r, attr) is not enum.UNSAFE_NONE:
                bad(f"default of {attr}")
        # mimetype
        r.mimetype = "text/html"
        if r.headers.get("Content-Type") != "text/html; charset=utf-8" or r.mimetype != "text/html" or r.mimetype_params != {"charset": "utf-8"}:
            bad("mimetype = text/html")
        chk.case(("scalar", i, z, a, str(t)), nontrivial=True)
    chk.count("scalar properties(oracle only)", n)


def oracle_handoff(chk, rng, n):
    """cross-object hand-off: a view (or its dict) read from one response is given to another response / to a new view object,
    then one side is changed.  What the code does at this commit: every hand-off copies (the setters serialise the value into
    the header text, the constructors and the WWWAuthenticate parameters setter wrap a private copy), so after a change through
    one side that response's header is the serialisation of its own view and the other response's header and view are as they
    were.  The one place that aliases by design: the SAME WWWAuthenticate object assigned to a second response serves that
    response from then on (one on_update slot), the first keeps the text it had."""
    from werkzeug.datastructures import ContentSecurityPolicy, HeaderSet, ResponseCacheControl, WWWAuthenticate

    def hdrs(r):
        return sorted(r.headers.items())

    for i in range(n):
        realm = rng.choice(["r", "a b", 'q"t'])

        def check(what, a, b, name, view_a, view_b, mutate_b, mutate_a):
            """mutate through b's view: b coherent, a untouched; then through a's view: a coherent, b untouched"""
            case = {"kind": "handoff", "how": what}
            for who, mut, mine, view_mine, other in (("the receiver", mutate_b, b, view_b, a), ("the giver", mutate_a, a, view_a, b)):
                before_other = hdrs(other)
                try:
                    mut()
                except Exception as e:  # noqa: BLE001
                    chk.fail("view-handoff-aliasing", f"{what}: changing {who}'s view raised {type(e).__name__}: {e}", case)
                    return
                want = view_mine().to_header()
                if (mine.headers.get(name) or "") != want:
                    chk.fail("view-handoff-aliasing", f"{what}: after a change through {who}'s view its own header is "
                             f"{mine.headers.get(name)!r}, the view serialises to {want!r}", case)
                    return
                if hdrs(other) != before_other:
                    chk.fail("view-handoff-aliasing", f"{what}: a change through {who}'s view rewrote the OTHER response's headers: "
                             f"{before_other!r} -> {hdrs(other)!r}", case)
                    return

        # ---- WWW-Authenticate
        for how in ("ctor(type, parameters)", "parameters = other.parameters", "www_authenticate = WWWAuthenticate(type, other.parameters)",
                    "ctor(type, dict(parameters))"):
            a, b = new_response(()), new_response(())
            a.www_authenticate = WWWAuthenticate("digest", {"realm": realm, "nonce": "n"})
            wa = a.www_authenticate
            if how == "parameters = other.parameters":
                b.www_authenticate = WWWAuthenticate("basic", {"realm": "x"})
                wb = b.www_authenticate
                wb.parameters = wa.parameters
            else:
                b.www_authenticate = WWWAuthenticate(wa.type, dict(wa.parameters) if "dict(" in how else wa.parameters)
                wb = b.www_authenticate
            check("WWWAuthenticate " + how, a, b, "WWW-Authenticate", lambda: wa, lambda: wb,
                  lambda: wb.parameters.__setitem__("realm", "B" + str(i)), lambda: wa.parameters.update(qop="auth"))
            if wa.parameters is wb.parameters:
                chk.fail("view-handoff-aliasing", f"WWWAuthenticate {how}: the two objects hold the same parameters dict", {"kind": "handoff", "how": how})
        a, b = new_response(()), new_response(())
        a.www_authenticate = WWWAuthenticate("basic", {"realm": realm})
        wa = a.www_authenticate
        text_a = a.headers.get("WWW-Authenticate")
        b.www_authenticate = wa                      # the same object: from now on it serves b
        wa.parameters["realm"] = "moved"
        if a.headers.get("WWW-Authenticate") != text_a or b.headers.get("WWW-Authenticate") != wa.to_header():
            chk.fail("view-handoff-aliasing", f"the same WWWAuthenticate object assigned to a second response: first {a.headers.get('WWW-Authenticate')!r} "
                     f"(was {text_a!r}), second {b.headers.get('WWW-Authenticate')!r}, object {wa.to_header()!r}", {"kind": "handoff", "how": "same object"})
        # ---- Cache-Control (no setter on the response: constructor hand-off only)
        a = new_response(())
        a.cache_control.max_age = 5
        a.cache_control.public = True
        held = a.cache_control
        cb = ResponseCacheControl(held, None)
        before = hdrs(a)
        cb.max_age = 7
        cb["x"] = "1"
        if hdrs(a) != before or held.max_age != 5 or "x" in held:
            chk.fail("view-handoff-aliasing", f"ResponseCacheControl(other view): a change of the copy reached the original: {hdrs(a)!r}, {dict(held)!r}", {"kind": "handoff", "how": "cache_control ctor"})
        held.no_store = True
        if "no-store" in cb or a.headers.get("Cache-Control") != held.to_header():
            chk.fail("view-handoff-aliasing", "ResponseCacheControl(other view): a change of the original reached the copy, or the original drifted", {"kind": "handoff", "how": "cache_control ctor"})
        # ---- CSP
        for attr, name in (("content_security_policy", "Content-Security-Policy"), ("content_security_policy_report_only", "Content-Security-Policy-Report-Only")):
            for how in ("assign the view", "assign ContentSecurityPolicy(view)", "assign dict(view)"):
                a, b = new_response(()), new_response(())
                getattr(a, attr).default_src = "'self'"
                ca = getattr(a, attr)
                setattr(b, attr, ca if how == "assign the view" else ContentSecurityPolicy(ca) if "Policy(" in how else ContentSecurityPolicy(dict(ca)))
                cb_ = getattr(b, attr)
                check(f"{attr}: {how}", a, b, name, lambda: ca, lambda: cb_, lambda: setattr(cb_, "img_src", "x" + str(i)), lambda: setattr(ca, "script_src", "y"))
        # ---- header sets
        for attr, name in (("vary", "Vary"), ("allow", "Allow"), ("content_language", "Content-Language")):
            for how in ("assign the view", "assign HeaderSet(view)", "assign list(view)"):
                a, b = new_response(()), new_response(())
                getattr(a, attr).add("Accept")
                va = getattr(a, attr)
                setattr(b, attr, va if how == "assign the view" else HeaderSet(va) if "HeaderSet(" in how else list(va))
                vb = getattr(b, attr)
                check(f"{attr}: {how}", a, b, name, lambda: va, lambda: vb, lambda: vb.add("Cookie" + str(i)), lambda: va.add("X"))
        # ---- Content-Range
        a, b = new_response(()), new_response(())
        a.content_range.set(0, 10, 100)
        ra = a.content_range
        b.content_range = ra
        rb = b.content_range
        check("content_range: assign the view", a, b, "Content-Range", lambda: ra, lambda: rb, lambda: rb.set(1, 2, 3), lambda: ra.set(4, 5, 6))
        chk.case(("handoff", i, realm), nontrivial=True)
    chk.count("cross-object hand-off of views (oracle only)", n)


def oracle_date_grid(chk, rng, quick):
    """the date contract (http_date / parse_date) on a grid: sub-second parts next to the rounding boundaries x years next to
    the places where a float timestamp loses microsecond resolution x zones; the instant read back is the assigned instant
    floored to the second, the header text is its RFC 5322 form"""
    from datetime import datetime, timezone
    from email.utils import format_datetime
    years = [1, 99, 100, 1000, 1425, 1426, 1969, 1970, 2038, 2514, 2515, 3059, 6326, 9999]
    micros = [0, 1, 499999, 500000, 999998, 999999]
    attrs = (("date", "Date"), ("expires", "Expires"), ("last_modified", "Last-Modified"), ("retry_after", "Retry-After"))
    n = 0
    grid = [(y, 6, 15, 12, 34, 56, us) for y in years for us in micros] + [(9999, 12, 31, 23, 59, 59, us) for us in micros] \
        + [(1, 1, 1, 0, 0, 0, us) for us in micros] + [(1970, 1, 1, 0, 0, 0, us) for us in micros] + [(1969, 12, 31, 23, 59, 59, us) for us in micros]
    for parts in grid:
        zones = [None, timezone.utc] + (TZS if not quick or parts[6] in (999999, 0) else rng.sample(TZS, 2))
        for tz in zones:
            tv = datetime(*parts, tzinfo=tz)
            try:
                utc = (tv if tv.tzinfo else tv.replace(tzinfo=timezone.utc)).astimezone(timezone.utc).replace(microsecond=0)
            except OverflowError:
                continue            # the instant has no UTC form inside datetime's range
            text = format_datetime(utc, usegmt=True)
            for attr, hdr in (attrs if parts[6] in (999999, 999998) else attrs[:rng.randint(1, 4)]):
                case = {"kind": "scalar", "assignment": f"{attr} = {tv!r}"}
                r = new_response(())
                n += 1
                try:
                    setattr(r, attr, tv)
                    got_text, got = r.headers.get(hdr), getattr(r, attr)
                except Exception as e:  # noqa: BLE001
                    chk.fail("scalar-drift", f"{attr} = {tv!r} raised {type(e).__name__}: {e}", case)
                    continue
                if got_text != text:
                    chk.fail("scalar-drift", f"{attr} = {tv!r} writes {got_text!r}, the instant floored to the second is {text!r}", case)
                elif got != utc or got.tzinfo is None:
                    chk.fail("date-year-below-100" if utc.year < 100 else "scalar-drift",
                             f"{attr} = {tv!r} (header {got_text!r}) reads back {got!r}, expected {utc!r}", case)
        chk.case(("date-grid",) + parts, nontrivial=True)
    chk.count("date grid (contract validation, oracle only)", n)


# ====================================================================== harness: header_property pairs over the table

HP_STR = ["x", "", "http://a/b?c=d", "text/plain; charset=utf-8", "bytes", "*", "a, b", '"q"', "é", " lead", "Tab\there"]
HP_INT = [0, 1, 7, 42, 3600, 10 ** 12, -3]
HP_LIST = [[], ["GET"], ["GET", "POST"], ["X-A", "Content-Type"], ["a b", "c"], ['q"t'], ["a,b", "x"], ["Dup", "dup"], [""], ["é"]]
HP_TEXT = ["0", "7", "007", "-3", "-0", "abc", "", "-", "12a", "3600", "a, b", '"x y", z', "GET, get", "x"]


def _hp_table():
    """(attribute, header name, codec) rows, read from the class the same way the translator reads them"""
    from werkzeug.sansio.response import Response as SR
    from werkzeug.utils import header_property
    rows = []
    for attr, d in vars(SR).items():
        if isinstance(d, header_property):
            lf, df = getattr(d.load_func, "__name__", None), getattr(d.dump_func, "__name__", None)
            codec = {(None, None): "CStr", ("int", "str"): "CInt", ("parse_age", "dump_age"): "CAge",
                     ("parse_set_header", "dump_header"): "CSet", ("parse_date", "http_date"): "CDate"}.get((lf, df), "CEnum")
            rows.append((attr, d.name, codec))
    return rows


def _hp_out(v) -> str:
    from datetime import timedelta
    from werkzeug.datastructures import HeaderSet
    if isinstance(v, timedelta):
        return O(int(v.total_seconds())) if v == timedelta(seconds=int(v.total_seconds())) else "RAISED:fractional"
    if isinstance(v, HeaderSet):
        return OL(list(v))
    return O(v)


def header_properties(chk, R, rng, quick):
    from datetime import timedelta
    rows = _hp_table()
    n = 0
    for attr, hdr, codec in rows:
        if codec in ("CDate", "CEnum"):
            continue
        vals = {"CStr": HP_STR, "CInt": HP_INT, "CAge": HP_INT, "CSet": HP_LIST}[codec]
        for init in ((), ((hdr, "old"),), ((hdr.lower(), "7"), ("X-Other", "1"), (hdr.upper(), "second"))):
            # reading whatever text the header holds
            for text in HP_TEXT:
                ini = tuple(init) + ((hdr, text),) if init != ((hdr, "old"),) else ((hdr, text),)
                case = {"kind": "hp", "attr": attr, "init": [list(p) for p in ini]}
                r = new_response(ini)
                try:
                    got = _hp_out(getattr(r, attr))
                except Exception as e:  # noqa: BLE001
                    chk.fail("scalar-drift", f"reading {attr} raised {type(e).__name__}: {e}", case)
                    got = "RAISED:" + type(e).__name__
                R.codec("hpg", f"{kvs(ini, S)} {S(attr)}", got)
            for v in vals:
                case = {"kind": "hp", "attr": attr, "init": [list(p) for p in init], "value": v}
                r = new_response(init)
                tok = {"CStr": lambda: "s" + S(v), "CInt": lambda: "i" + str(v), "CAge": lambda: "i" + str(v), "CSet": lambda: "l" + L(v)}[codec]()
                pv = timedelta(seconds=v) if codec == "CAge" and rng.random() < 0.5 else v
                try:
                    setattr(r, attr, pv)
                except (ValueError, TypeError) as e:
                    R.codec("hp", f"{kvs(init, S)} {S(attr)} {tok}", "E" + ("TypeError" if codec == "CAge" else exn_name(e)))
                    continue
                obs = []
                try:
                    obs.append(O(r.headers.get(hdr)))
                    obs.append(_hp_out(getattr(r, attr)))
                    # oracle, independent of the model: exactly one line under the name, holding the dumped text; the read gives the value back
                    lines = r.headers.getlist(hdr)
                    want_text = {"CStr": lambda: v, "CInt": lambda: str(v), "CAge": lambda: str(v), "CSet": lambda: None}[codec]()
                    if len(lines) != 1 or (want_text is not None and lines[0] != want_text):
                        chk.fail("scalar-drift", f"{attr} = {pv!r} leaves {lines!r} under {hdr}", case)
                    back = getattr(r, attr)
                    want = timedelta(seconds=v) if codec == "CAge" else v
                    if (list(back) if codec == "CSet" else back) != want:
                        chk.fail("scalar-drift", f"{attr} = {pv!r} reads back {back!r}", case)
                    delattr(r, attr)
                    obs.append(_hp_out(getattr(r, attr)))
                    obs.append(O(r.headers.get(hdr)))
                    if hdr in r.headers or getattr(r, attr) is not None:
                        chk.fail("scalar-drift", f"del {attr} leaves {r.headers.getlist(hdr)!r}", case)
                except Exception as e:  # noqa: BLE001
                    chk.fail("implementation-raised", f"{type(e).__name__}: {e} escaped while reading / deleting {attr}", case)
                    obs.append("RAISED:" + type(e).__name__)
                R.codec("hp", f"{kvs(init, S)} {S(attr)} {tok}", "|".join(obs))
                n += 1
    chk.count("header_property rows exercised", sum(1 for r in rows if r[2] not in ("CDate", "CEnum")))
    chk.count("header_property rows left to the oracle only (date via contract, enum)", sum(1 for r in rows if r[2] in ("CDate", "CEnum")))


# ====================================================================== harness: the run

class Runner:
    def __init__(self, chk):
        self.chk = chk
        self.lines: list[str] = []
        self.impl: list[str] = []

    def _guard(self, fn, *a, case=None):
        try:
            return with_timeout(fn, 20, *a)
        except Exception as e:  # noqa: BLE001
            self.chk.fail("implementation-raised", f"{type(e).__name__}: {e} escaped while operating / observing", case)
            return "RAISED:" + type(e).__name__

    def _push(self, line, out, nontrivial, bucket, sample=None):
        self.lines.append(line)
        self.impl.append(out)
        self.chk.case(line, nontrivial=nontrivial, sample=sample)
        self.chk.count(bucket)

    def sv(self, attr, init, ops, oracle=True):
        out = self._guard(run_sv, self.chk, attr, init, ops, oracle, case={"kind": "sv", "attr": attr, "init": [list(p) for p in init], "ops": [list(o) if o[0] != "v" else ["v", list(o[1])] for o in ops]})
        self._push(" ".join(["sv", S(SV[attr]), kvs(init, S)] + [sv_tok(o) for o in ops]), out, bool(ops),
                   f"set-view:len{min(len(ops), 4)}{'+' if len(ops) > 4 else ''}",
                   {"view": attr, "init": repr(init), "ops": [repr(o) for o in ops]} if len(ops) == 3 else None)

    def cc(self, init, ops, oracle=True):
        out = self._guard(run_cc, self.chk, init, ops, oracle, case={"kind": "cc", "init": [list(p) for p in init], "ops": [list(o) for o in ops]})
        self._push(" ".join(["cc", kvs(init, S)] + [cc_tok(o) for o in ops]), out, bool(ops),
                   f"cache-control:len{min(len(ops), 4)}{'+' if len(ops) > 4 else ''}",
                   {"view": "cache_control", "init": repr(init), "ops": [repr(o) for o in ops]} if len(ops) == 2 else None)

    def csp(self, init, ops, oracle=True):
        out = self._guard(run_csp, self.chk, init, ops, oracle, case={"kind": "csp", "init": [list(p) for p in init], "ops": [list(o) for o in ops]})
        self._push(" ".join(["csp", kvs(init, S)] + [csp_tok(o) for o in ops]), out, bool(ops),
                   f"csp:len{min(len(ops), 4)}{'+' if len(ops) > 4 else ''}")

    def cr(self, init, ops, oracle=True):
        out = self._guard(run_cr, self.chk, init, ops, oracle, case={"kind": "cr", "init": [list(p) for p in init], "ops": [list(o) for o in ops]})
        self._push(" ".join(["cr", kvs(init, S)] + [cr_tok(o) for o in ops]), out, bool(ops),
                   f"content-range:len{min(len(ops), 4)}{'+' if len(ops) > 4 else ''}")

    def wa(self, init, ops, oracle=True):
        out = self._guard(run_wa, self.chk, init, ops, oracle, case={"kind": "wa", "init": [list(p) for p in init], "ops": [list(o) for o in ops]})
        self._push(" ".join(["wa", kvs(init, S)] + [wa_tok(o) for o in ops]), out, bool(ops),
                   f"www-authenticate:len{min(len(ops), 4)}{'+' if len(ops) > 4 else ''}")

    def mp(self, init, ops, oracle=True):
        out = self._guard(run_mp, self.chk, init, ops, oracle, case={"kind": "mp", "init": [list(p) for p in init], "ops": [list(o) for o in ops]})
        if isinstance(out, str):
            return
        toks, d0, obs = out
        self._push(" ".join(["mp", kvs(init, S), kvs(d0.items(), S)] + toks), obs, bool(ops),
                   f"mimetype_params:len{min(len(ops), 4)}{'+' if len(ops) > 4 else ''}")

    def codec(self, cmd, arg_tok, out):
        self._push(f"{cmd} {arg_tok}", out, True, "codec:" + cmd)


def _case_ops(c):
    ops = []
    for o in c["ops"]:
        if o[0] == "v":
            ops.append(("v", tuple(tuple(x) if isinstance(x, list) else x for x in o[1])))
        elif o[0] == "up":
            ops.append(("up", tuple(tuple(p) for p in o[1])))
        else:
            ops.append(tuple(tuple(x) if isinstance(x, list) else x for x in o))
    return ops


def _wa_case_ops(c):
    ops = []
    for o in c["ops"]:
        if o[0] == "params":
            ops.append(("params", tuple(tuple(p) for p in o[1])))
        elif o[0] == "p":
            inner = o[1]
            ops.append(("p", tuple(tuple(tuple(p) for p in x) if isinstance(x, list) else x for x in inner)))
        else:
            ops.append(tuple(o))
    return ops


def run_case(R: Runner, c: dict, oracle=True):
    init = tuple(tuple(p) for p in c.get("init", []))
    if c["kind"] == "sv":
        R.sv(c["attr"], init, _case_ops(c), oracle)
    elif c["kind"] == "cc":
        R.cc(init, _case_ops(c), oracle)
    elif c["kind"] == "csp":
        R.csp(init, _case_ops(c), oracle)
    elif c["kind"] == "cr":
        R.cr(init, _case_ops(c), oracle)
    elif c["kind"] == "wa":
        R.wa(init, _wa_case_ops(c), oracle)
    elif c["kind"] == "mp":
        R.mp(init, _case_ops(c), oracle)


def load_corpus():
    import json
    with open(os.path.join(os.path.dirname(COQ), "corpus", PID, "cases.json"), encoding="utf-8") as f:
        return json.load(f)


def run(chk: Check) -> None:
    import itertools
    import werkzeug.http as whttp
    rng = chk.rng
    quick = chk.tier == "quick"
    R = Runner(chk)
    for c in load_corpus():
        run_case(R, c)

    # ---- HeaderSet views
    full, red = sv_alphabet(True), sv_alphabet(False)
    for attr in SV:
        for init in SV_INITS:
            R.sv(attr, init, [])
            for o in full:
                R.sv(attr, init, [o])
    for attr, inits in (("vary", SV_INITS[:3]), ("allow", SV_INITS[2:3]), ("content_language", SV_INITS[3:4])):
        for init in inits if quick else SV_INITS:
            for ops in itertools.product(full, repeat=2):
                R.sv(attr, init, ops)
    for init in (SV_INITS[1:2] if quick else SV_INITS[1:3]):
        for ops in itertools.product(red if quick else full, repeat=3):
            R.sv("vary", init, ops)
    for _ in range(3000 if quick else 40000):
        R.sv(rng.choice(list(SV)), rng.choice(SV_INITS), [sv_random_op(rng) for _ in range(rng.randint(3, 25))])

    # ---- cache_control
    full, red = cc_alphabet(True), cc_alphabet(False)
    for init in CC_INITS:
        R.cc(init, [])
        for o in full:
            R.cc(init, [o])
    for init in (CC_INITS[:2] if quick else CC_INITS):
        for ops in itertools.product(full, repeat=2):
            R.cc(init, ops)
    for ops in itertools.product(red if quick else full, repeat=3):
        R.cc(CC_INITS[1], ops)
    if not quick:
        for init in CC_INITS[2:]:
            for ops in itertools.product(red, repeat=3):
                R.cc(init, ops)
    for _ in range(3000 if quick else 40000):
        R.cc(rng.choice(CC_INITS), [cc_random_op(rng) for _ in range(rng.randint(3, 25))])

    # ---- content_security_policy
    full, red = csp_alphabet(True), csp_alphabet(False)
    for init in CSP_INITS:
        R.csp(init, [])
        for ops in itertools.product(full, repeat=1 if quick else 2):
            R.csp(init, ops)
    for ops in itertools.product(full if not quick else red, repeat=2 if quick else 3):
        R.csp(CSP_INITS[1], ops)
    for _ in range(2000 if quick else 30000):
        R.csp(rng.choice(CSP_INITS), [csp_random_op(rng) for _ in range(rng.randint(3, 20))])

    # ---- content_range
    cra = cr_alphabet()
    for init in CR_INITS:
        R.cr(init, [])
        for o in cra:
            R.cr(init, [o])
    for init in (CR_INITS[:2] if quick else CR_INITS):
        for ops in itertools.product(cra, repeat=2):
            R.cr(init, ops)
    for _ in range(1000 if quick else 20000):
        R.cr(rng.choice(CR_INITS), [rng.choice(cra) for _ in range(rng.randint(3, 12))])

    # ---- www_authenticate
    full, red = wa_alphabet(True), wa_alphabet(False)
    for init in WA_INITS:
        R.wa(init, [])
        for o in full:
            R.wa(init, [o])
    for init in (WA_INITS[:2] if quick else WA_INITS):
        for ops in itertools.product(full, repeat=2):
            R.wa(init, ops)
    for ops in itertools.product(red, repeat=3):
        R.wa(WA_INITS[1], ops)
    for _ in range(1500 if quick else 30000):
        R.wa(rng.choice(WA_INITS), [wa_random_op(rng) for _ in range(rng.randint(3, 15))])

    # ---- mimetype_params: one held view, media type changed in between
    mpa = mp_alphabet()
    for init in MP_INITS:
        R.mp(init, [])
        for ops in itertools.product(mpa, repeat=2):
            R.mp(init, ops)
    for ops in itertools.product(mpa[:9] if quick else mpa, repeat=3):
        R.mp(MP_INITS[0], ops)
    for _ in range(1000 if quick else 20000):
        R.mp(rng.choice(MP_INITS), [mp_random_op(rng) for _ in range(rng.randint(3, 12))])

    # ---- www_authenticate = [a, b, ...]
    from werkzeug.datastructures import WWWAuthenticate
    wl = [("basic", None, (("realm", "a b"),)), ("bearer", "t0k", ()), ("digest", None, (("realm", "r"), ("nonce", "n"), ("stale", "x"))),
          ("negotiate", "abc==", ())]
    for init in WA_INITS[:3]:
        for k in (1, 2, 3):
            for items in itertools.permutations(wl, k):
                r = new_response(init)
                objs = [WWWAuthenticate(t, dict(ps) if tok is None else None, tok) for t, tok, ps in items]
                r.www_authenticate = objs
                if r.headers.getlist("WWW-Authenticate") != [o.to_header() for o in objs]:
                    chk.fail("www-authenticate-drift", "list assignment does not produce one header line per item, in order",
                             {"kind": "walist", "init": [list(p) for p in init], "items": [list(i) for i in items]})
                R.codec("walist", kvs(init, S) + " " + " ".join(f"{S(t)};{ov(tok)};{kvs(ps, ov)}" for t, tok, ps in items), OQ(list(r.headers)))

    # ---- codecs directly: parse_list_header / parse_dict_header / dump_header / int
    atoms = ['"', ",", " ", "\\", "=", "a", "b", "Accept", "x y", "\t", ";", "*", "k", "é", "\x1c", "\xa0", '""', '\\"', ", ", "=v", "k="]
    for _ in range(3000 if quick else 60000):
        s = "".join(rng.choice(atoms) for _ in range(rng.randint(0, 9)))
        R.codec("pl", S(s), OL(whttp.parse_list_header(s)))
        try:
            d = whttp.parse_dict_header(s)
            out = kvs(d.items(), ov)
            if any(k.endswith("*") for k in d) or "*" in s:
                out = None
        except Exception as e:  # noqa: BLE001
            out = None
        if out is not None:
            R.codec("pd", S(s), out)
    items = ["a", "Accept", "x y", "", '"', "\\", 'q"t', "a,b", " lead", "trail ", '"x"', "é", "a\\\\b", "=", "a=b"]
    for _ in range(1500 if quick else 30000):
        l = [rng.choice(items) for _ in range(rng.randint(0, 4))]
        R.codec("dl", L(l), O(whttp.dump_header(l)))
        if whttp.parse_list_header(whttp.dump_header(l)) != l:
            chk.fail("codec-list-roundtrip", f"parse_list_header(dump_header({l!r})) = {whttp.parse_list_header(whttp.dump_header(l))!r}", {"kind": "codec", "list": l})
        d = {rng.choice(["max-age", "x", "private", "k.1"]): rng.choice(items + [None]) for _ in range(rng.randint(0, 3))}
        R.codec("dd", kvs(d.items(), ov), O(whttp.dump_header(d)))
        if whttp.parse_dict_header(whttp.dump_header(d)) != d:
            chk.fail("codec-dict-roundtrip", f"parse_dict_header(dump_header({d!r})) = {whttp.parse_dict_header(whttp.dump_header(d))!r}", {"kind": "codec", "dict": d})
    for s in ["0", "7", "007", "-3", "-0", "abc", "", "-", "12a", "3600", "999999999999999"]:
        try:
            v = O(int(s))
        except ValueError:
            v = "N"
        R.codec("int", S(s), v)

    # ---- scalar header properties, over the regenerated table
    header_properties(chk, R, rng, quick)

    # ---- views judged by oracles only
    oracle_content_range(chk, rng, 300 if quick else 6000)
    oracle_www_authenticate(chk, rng, 600 if quick else 12000)
    oracle_mimetype_params(chk, rng, 300 if quick else 6000)
    oracle_scalars(chk, rng, 200 if quick else 4000)
    oracle_date_grid(chk, rng, quick)
    oracle_handoff(chk, rng, 40 if quick else 800)

    # ---- model side
    exe = chk.build_modelrun(PID)
    if exe:
        res = chk.run_model(exe, R.lines)
        if res is not None:
            mism = unsup = 0
            for ln, a, b in zip(R.lines, R.impl, res):
                if b == "unsupported":
                    unsup += 1
                    continue
                if a != b:
                    mism += 1
                    if mism <= 5:
                        sa, sb = a.split(" "), b.split(" ")
                        step = next((i for i, (x, y) in enumerate(zip(sa, sb)) if x != y), min(len(sa), len(sb)))
                        chk.broken("correspondence", "C16 model vs werkzeug response views",
                                   f"case {ln!r}: first difference at step {step}: impl {sa[step] if step < len(sa) else None!r} "
                                   f"model {sb[step] if step < len(sb) else None!r}", case={"line": ln, "impl": a, "model": b})
            chk.count("model:compared", len(R.lines) - unsup)
            chk.count("model:unsupported(key ending in *)", unsup)
            chk.count("model:mismatches", mism)


def replay(rep) -> int:
    import json
    chk = Check(PID, "quick", 0)
    R = Runner(chk)
    inp = rep.get("input") or {}
    if isinstance(inp, dict) and inp.get("kind") in ("sv", "cc", "csp", "cr", "wa", "mp"):
        run_case(R, inp)
        print("case:", json.dumps(inp))
        for i, s in enumerate(R.impl[0].split(" ")):
            print(f"  step {i}: {s}")
        for f in chk.failures:
            print(f"PROPERTY FAILS key={f['key']}: {f['what']}")
        return 1 if chk.failures else 0
    print(json.dumps(rep, indent=1))
    return 0


def main(chk: Check) -> None:
    try:
        gen()
    except px.Unsupported as e:
        chk.broken("translator", "C16/Gen.v", str(e))
    chk.forbidden_scan()
    if chk.coq_make(["C16/ProofsCSP.vo", "C16/ProofsCR.vo", "C16/ProofsWA.vo", "C16/ProofsMisc.vo", "C16/Extract.vo"]):
        chk.audit_props("C16/Props.v")
    else:
        chk.cov["obligations"] += 1
    chk.trusted += [
        "translator tools/c16.py (+ tools/c08.py for the shared Headers / HeaderSet definitions): on_update decision functions, "
        "_set_cache_value decision chain, property tables, UpdateDictMixin notification tables; statement shapes pinned",
        "extraction ExtrOcamlBasic (no Extract Constant) + tools/conv.ml + coq/C16/driver.ml, OCaml 4.13.1",
        "hand-written models of urllib.request.parse_http_list, str.strip (29 white-space code points), str.partition/split, "
        "int() on ASCII decimal strings; validated by differential execution",
        "contract: http_date has no CR/LF and parse_date(http_date(t)) is t at one-second resolution in UTC (email.utils / datetime; "
        "validated by the harness over naive, UTC, fixed-offset, zero-offset non-singleton and ZoneInfo zones)",
        "contract: parse_options_header(dump_options_header(mt, d)) = (mt, d) (property C06; validated by the harness on the held-view runs)",
    ]
    try:
        run(chk)
    except Exception:  # noqa: BLE001
        import traceback
        chk.broken("harness-exception", "run", "an exception escaped the harness (the implementation raised where the harness does "
                   "not expect it):\n" + traceback.format_exc())
    chk.finish(rule="views vary / allow / content_language, cache_control, content_security_policy: every operation sequence of length "
                    "1-2 over the full operation alphabet (view operations, whole-property assignment, direct header edits) from several "
                    "initial header sets, length 3 over a reduced alphabet, random sequences of length 3-25; header text, full header list, "
                    "live view and re-read view after every step. Codecs on random header texts. content_range, www_authenticate, "
                    "mimetype_params and scalar properties by oracle over random histories. A case is non-trivial if it has at least one "
                    "operation; distinct by hash of the case line.")
