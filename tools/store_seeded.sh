#!/bin/sh
# tools/store_seeded.sh PID IDX NAME "check result note"  : copy a confirmed mutant from /tmp/mut-PID-out into seeded/
d=/verif/seeded/$1-$3; mkdir -p $d; cp /tmp/mut-$1-out/mutant$2.diff $d/patch.diff; cp /tmp/mut-$1-out/demo$2.py $d/demo.py
python3 - "$1" "$2" "$3" "$4" <<'PY'
import json,sys
pid,idx,name,note=sys.argv[1:5]
m=json.load(open(f"/tmp/mut-{pid}-out/meta{idx}.json"))
out={"property":pid,"id":f"{pid}-{name}","breaks":m.get("summary"),"needs_to_manifest":m.get("needs_to_manifest"),"files":m.get("files"),
     "source":"independent sub-agent given only the property text and a scratch worktree",
     "confirmed":"tools/trymutant.sh: demo exits 0 on the clean tree and 1 with the patch; full test suite (947) passes with the patch",
     "check_result":note}
json.dump(out,open(f"/verif/seeded/{pid}-{name}/meta.json","w"),indent=1)
PY
