#!/bin/sh
# tools/trymutant.sh <PROPERTY-ID> <patch.diff> [demo.py]  : confirm a seeded change and run the check against it.
# Uses a scratch worktree of /repo HEAD under /tmp (removed afterwards); /repo itself is not touched.
PID="$1"; DIFF="$(realpath "$2")"; DEMO="${3:+$(realpath "$3")}"
WT="/tmp/try-$PID-$$"
cd /verif || exit 2
git -C /repo worktree add -q "$WT" HEAD || exit 2
# the evidence file of the real tree must survive the trial
cp "evidence/$PID.json" "/tmp/evidence-$PID-$$.json" 2>/dev/null
LOW="$(echo "$PID" | tr 'A-Z' 'a-z')"
trap 'mv "/tmp/evidence-$PID-$$.json" "/verif/evidence/$PID.json" 2>/dev/null; git -C /repo worktree remove --force "$WT" >/dev/null 2>&1; cd /verif && PYTHONPATH=/repo/src:/verif /venv/bin/python -c "from tools import $LOW as m, c03; (m.gen if hasattr(m, \"gen\") else (lambda: c03.write_gen(\"C03\")))()" >/dev/null 2>&1' EXIT
if [ -n "$DEMO" ]; then
  PYTHONPATH="$WT/src" /venv/bin/python "$DEMO" >/dev/null 2>&1; echo "demo on clean tree: exit $?"
fi
git -C "$WT" apply "$DIFF" || { echo "patch does not apply"; exit 2; }
if [ -n "$DEMO" ]; then
  PYTHONPATH="$WT/src" /venv/bin/python "$DEMO" >/dev/null 2>&1; echo "demo on mutant: exit $?"
fi
if [ -z "$SKIP_TESTS" ]; then
  (cd "$WT" && PYTHONPATH="$WT/src" /venv/bin/python -m pytest -q -p no:cacheprovider --timeout=900 -x 2>&1 | tail -1)
fi
VERIF_REPO="$WT" ./check "$PID" --tier "${TIER:-quick}" 2>&1 | grep -E "^VIOLATION|^KNOWN|BROKEN|done rc" | cut -c1-260
