#!/bin/sh
# tools/seedsweep.sh "<seeds>" [props...] : run the quick check of each (claimed) property for each seed; print non-zero exits
cd /verif || exit 2
SEEDS="$1"; shift
PROPS="${*:-$(cat tools/claimed.txt)}"
for p in $PROPS; do
  cp evidence/$p.json /tmp/sweep-evidence-$p.json 2>/dev/null
  for s in $SEEDS; do
    out=$(VERIF_SEED=$s timeout 1800 ./check $p --tier quick 2>&1); rc=$?
    if [ $rc -ne 0 ]; then echo "FAIL $p seed=$s rc=$rc"; echo "$out" | grep -E "VIOLATION|BROKEN" | head -5 | cut -c1-300; else echo "ok $p seed=$s $(echo "$out" | tail -1 | sed 's/.*wall=//')"; fi
  done
  mv /tmp/sweep-evidence-$p.json evidence/$p.json 2>/dev/null
done
