"""C10  Configured form limits are enforced and are pure guards."""
from __future__ import annotations

import ast
import io
import os

from . import pyextract as px
from .c01 import chunks_of, gen_body, impl_trace, model_lines, norm_model_trace, splits_random
from .vlib import COQ, Check, hexs, with_timeout

PID = "C10"
CLAIM = dict(
    text="Coq theorems over the multipart decoder model shared with C01 and a model of the form-level fold and of the "
         "urlencoded limited read: the buffer never exceeds max_form_memory_size in any reachable configuration, a run that "
         "returns never counted more than max_form_parts parts, a returned non-file field never exceeds the limit however it is "
         "split over Data events, the limited urlencoded read returns at most the limit, and limits are pure guards (a run that "
         "succeeds under limits is the unlimited run); a declared length above max_content_length is refused before a byte is read "
         "and a server-terminated stream is capped at the maximum under every read pattern (corollaries of C09). The three limit conditions are regenerated from the source (T2) and proved "
         "equal to the model's on every run; the model is compared with the real decoder/form parser on bodies around each limit.",
    note="Trusted: Coq kernel; translator (T2 conditions, request-level defaults); extraction + driver; the decoder model of C01 "
         "(validated differentially); part kind (field/file) is an input of the fold model computed by werkzeug's header parser; "
         "LimitedStream / get_input_stream (max_content_length) are C09's models (regenerated table + validated stream model); the "
         "C10 theorems on them are corollaries and the clause is also exercised end to end.",
    design="6/C10")


def gen() -> None:
    mp = px.load("sansio/multipart.py")
    fp = px.load("formparser.py")
    rq = px.load("wrappers/request.py")
    dec = px.find_class(mp, "MultipartDecoder")
    c_recv = px.ifs_raising(px.find_method(dec, "receive_data"), "RequestEntityTooLarge")
    c_next = px.ifs_raising(px.find_method(dec, "next_event"), "RequestEntityTooLarge")
    c_fold = px.ifs_raising(px.find_method(px.find_class(fp, "MultiPartParser"), "parse"), "RequestEntityTooLarge")
    c_url = px.ifs_raising(px.find_method(px.find_class(fp, "FormDataParser"), "_parse_urlencoded"), "RequestEntityTooLarge")
    if [len(c_recv), len(c_next), len(c_fold), len(c_url)] != [1, 1, 1, 2]:
        raise px.Unsupported(f"limit checks found: {[len(c_recv), len(c_next), len(c_fold), len(c_url)]}, expected [1, 1, 1, 2]")
    # the fold's check is nested in `if self.max_form_memory_size is not None and field_size is not None:`
    outer = None
    for n in ast.walk(px.find_method(px.find_class(fp, "MultiPartParser"), "parse")):
        if isinstance(n, ast.If) and any(x is c_fold[0] for x in ast.walk(n)) and n is not c_fold[0]:
            t = ast.unparse(n.test)
            if "field_size" in t:
                outer = n
    if outer is None:
        raise px.Unsupported("the guard around the field_size check was not found")
    # field_size += len(event.data) must precede the comparison inside that guard
    body_txt = [ast.unparse(s) for s in outer.body]
    if body_txt[:1] != ["field_size += len(event.data)"] or not isinstance(outer.body[1], ast.If) or outer.body[1] is not c_fold[0]:
        raise px.Unsupported(f"field_size accounting changed: {body_txt}")
    A = px.Atoms({
        "self.max_form_memory_size": ("mm", "optnat"), "len(self.buffer)": ("buflen", "nat"), "len(data)": ("datalen", "nat"),
        "self.max_parts": ("mp", "optnat"), "self._parts_decoded": ("decoded", "nat"),
        "field_size": ("fsize", "optnat"), "content_length": ("clen", "optnat"), "remaining": ("remaining", "Z"),
        "0": ("0%Z", "Z"),
    })
    defs = []
    defs.append("Definition gen_recv_too_large (mm : option nat) (buflen datalen : nat) : bool :=\n  "
                + px.bool_expr(c_recv[0].test, A) + ".")
    defs.append("Definition gen_too_many_parts (mp : option nat) (decoded : nat) : bool :=\n  "
                + px.bool_expr(c_next[0].test, A) + ".")
    defs.append("(* fsize is the field size after `field_size += len(event.data)` *)\n"
                "Definition gen_field_guard (mm fsize : option nat) : bool :=\n  " + px.bool_expr(outer.test, A) + ".")
    defs.append("Definition gen_field_too_large (mm fsize : option nat) : bool :=\n  " + px.bool_expr(c_fold[0].test, A) + ".")
    url_decl = [c for c in c_url if "content_length" in ast.unparse(c.test)]
    url_read = [c for c in c_url if "remaining" in ast.unparse(c.test)]
    if len(url_decl) != 1 or len(url_read) != 1:
        raise px.Unsupported("urlencoded limit checks not recognised")
    defs.append("Definition gen_url_declared_too_large (mm clen : option nat) : bool :=\n  " + px.bool_expr(url_decl[0].test, A) + ".")
    defs.append("Definition gen_url_read_too_large (remaining : Z) : bool :=\n  " + px.bool_expr(url_read[0].test, A) + ".")
    # the limited read loop: while remaining > 0 / remaining = limit + 1 / read(remaining) / remaining -= len(chunk)
    meth = px.find_method(px.find_class(fp, "FormDataParser"), "_parse_urlencoded")
    txt = ast.unparse(meth)
    for needle in ("remaining = self.max_form_memory_size + 1", "while remaining > 0:", "chunk = stream.read(remaining)",
                   "if not chunk:", "remaining -= len(chunk)", "if self.max_form_memory_size is None:\n        body = stream.read()"):
        if needle not in txt:
            raise px.Unsupported(f"_parse_urlencoded read loop changed: missing {needle!r}")
    req = px.find_class(rq, "Request")
    # statement skeletons of the glue that carries the limits from the request to the parsers (the conditions themselves are
    # translated above and left as holes; the decoder and MultiPartParser.parse are pinned by C01's tools/pins/c01_decoder.txt)
    fdp = px.find_class(fp, "FormDataParser")
    holes = {ast.unparse(c.test): "<LIMIT-CONDITION>" for c in c_url}
    sk = [("formparser.FormDataParser", px.find_method(fdp, "__init__"), None), ("formparser.FormDataParser", px.find_method(fdp, "parse_from_environ"), None),
          ("formparser.FormDataParser", px.find_method(fdp, "_parse_multipart"), None),
          ("formparser.FormDataParser", meth, holes),
          ("formparser.MultiPartParser", px.find_method(px.find_class(fp, "MultiPartParser"), "__init__"), None),
          ("formparser", px.find_def(fp, "parse_form_data"), None),
          ("wrappers.request.Request", px.find_method(req, "make_form_data_parser"), None),
          ("wrappers.request.Request", px.find_method(req, "_load_form_data"), None)]
    px.check_pin("C10", "c10_limits_glue.txt", "\n".join(f"## {o}.{f.name}\n" + px.skeleton(f, h) for o, f, h in sk) + "\n",
                 "statement skeleton of the form-limit glue")
    d_mem = px.const(px.find_assign(req, "max_form_memory_size"))
    d_parts = px.const(px.find_assign(req, "max_form_parts"))
    text = px.HEADER.format(tool="c10.py", src="sansio/multipart.py, formparser.py, wrappers/request.py")
    text += "From Coq Require Import ZArith.\n"
    text += "\n\n".join(defs) + "\n\n"
    text += f"Definition default_max_form_memory_size : option nat := {'None' if d_mem is None else f'Some (Z.to_nat {int(d_mem)}%Z)'}.\n"
    text += f"Definition default_max_form_parts : option nat := {'None' if d_parts is None else f'Some {int(d_parts)}%nat'}.\n"
    px.write_if_changed(os.path.join(COQ, "C10", "Gen.v"), text)


# ====================================================================== harness

class SchedStream(io.RawIOBase):
    """raw stream returning at most sched[i] bytes on the i-th read (0 / exhausted = unbounded)"""

    def __init__(self, data: bytes, sched):
        self.data, self.pos, self.sched, self.calls, self.consumed = data, 0, list(sched), 0, 0

    def readable(self):
        return True

    def read(self, n=-1):
        k = self.sched[self.calls] if self.calls < len(self.sched) else 0
        self.calls += 1
        avail = len(self.data) - self.pos
        if n is None or n < 0:
            n, k = avail, 0       # read() / readall(): everything up to end of stream
        if k:
            n = min(n, k)
        r = self.data[self.pos:self.pos + n]
        self.pos += len(r)
        self.consumed = self.pos
        return r

    def readinto(self, b):
        r = self.read(len(b))
        b[:len(r)] = r
        return len(r)


def sized_body(rng, target_sizes):
    """multipart body whose field / file payload sizes are drawn around the limits"""
    B = rng.choice([b"B", b"bound", b"----WebKitFormBoundaryAb12"])
    out = bytearray()
    n = rng.choice([0, 1, 2, 3, 4, 6])
    for i in range(n):
        out += b"--" + B + b"\r\n"
        isfile = rng.random() < 0.35
        out += b'Content-Disposition: form-data; name="n%d"' % i
        if isfile:
            out += b'; filename="f%d.bin"' % i
        if rng.random() < 0.15:
            out += b"\r\nX-Pad: " + b"p" * rng.choice(target_sizes)
        out += b"\r\n\r\n"
        size = max(0, rng.choice(target_sizes) + rng.choice([-2, -1, 0, 0, 1, 2, 7]))
        kind = rng.random()
        if kind < 0.12:
            # a line that starts like a delimiter but is not one, followed by a long run without line breaks:
            # it can never be emitted as data, so it must hit the buffer limit
            payload = b"\r\n--" + B + rng.choice([b"x", b"-", b" x", b"--x"]) + b"y" * (size * rng.choice([1, 3]) + 5)
        elif kind < 0.6:
            payload = bytes(rng.choice(b"abcxyz01") for _ in range(size))
        elif kind < 0.8:
            payload = bytes(rng.choice(b"\r\n") for _ in range(size))
        else:
            payload = bytes(rng.choice(b"ab\r\n-") for _ in range(size))
        if kind >= 0.12:     # (the look-alike line of the first kind is deliberate and is not a delimiter line)
            for l in (b"\r\n", b"\n", b"\r"):
                payload = payload.replace(l + b"--" + B, l + b"-~" + B)
        out += payload + b"\r\n"
    out += b"--" + B + b"--\r\n"
    return B, bytes(out)


def reads_of(body: bytes, bs: int, short: int):
    out, pos = [], 0
    while pos < len(body):
        n = min(bs, short) if short else bs
        out.append(body[pos:pos + n])
        pos += n
    return out


def impl_form_parse(B, body, bs, short, mm, mp):
    from werkzeug.exceptions import RequestEntityTooLarge
    from werkzeug.formparser import MultiPartParser
    raw_files = []

    def factory(total_content_length=None, filename=None, content_type=None, content_length=None):
        f = io.BytesIO()
        raw_files.append(f)
        return f
    try:
        form, files = MultiPartParser(stream_factory=factory, max_form_memory_size=mm, max_form_parts=mp,
                                      buffer_size=bs).parse(SchedStream(body, [short] * (len(body) + 2)), B, len(body))
    except RequestEntityTooLarge:
        return "X:413"
    except ValueError:
        return "X:value"
    except Exception as e:  # noqa: BLE001
        return "X:" + type(e).__name__
    return (list(form.items(multi=True)), [(k, f.filename, f.stream.getvalue()) for k, f in files.items(multi=True)])


def kinds_and_parts(B, body):
    """kinds of the parts in order (from werkzeug's own header parser), via the unlimited sans-io run"""
    from werkzeug.sansio import multipart as M
    dec = M.MultipartDecoder(B)
    kinds = []
    try:
        dec.receive_data(body)
        dec.receive_data(None)
        while True:
            ev = dec.next_event()
            if isinstance(ev, (M.NeedData, M.Epilogue)):
                break
            if isinstance(ev, M.File):
                kinds.append(1)
            elif isinstance(ev, M.Field):
                kinds.append(0)
    except Exception:  # noqa: BLE001
        # a rejected header block (missing Content-Disposition, undecodable header) ends the run there
        if dec.state == M.State.PART or "Content-Disposition" in repr(__import__("sys").exc_info()[1]):
            kinds.append(2)
    return kinds


def run(chk: Check) -> None:
    from werkzeug.exceptions import RequestEntityTooLarge
    from werkzeug.formparser import FormDataParser, MultiPartParser
    from werkzeug.sansio import multipart as M
    from werkzeug.wrappers import Request
    from urllib.parse import parse_qsl
    rng = chk.rng
    quick = chk.tier == "quick"
    lines, impl, metas = [], [], []

    # ---------------- multipart: form-level model comparison + oracles
    n_cases = 1200 if quick else 20000
    # systematic sweep first: one or two fields whose size straddles the limit, every small buffer size
    # (a field that only its LAST Data event pushes over the limit, a field exactly at the limit, ...)
    sweep = []
    for mm_ in (100, 150):          # (large enough for the header block to fit in the buffer)
        for size_ in (mm_ - 1, mm_, mm_ + 1, mm_ + 2, mm_ + 9, 2 * mm_):
            for bs_ in (1, 3, 7, 11, 16, 33, 64):
                for pre_ in (0, 3):
                    B_ = b"bnd"
                    body_ = b""
                    if pre_:
                        body_ += b"--bnd\r\nContent-Disposition: form-data; name=\"p\"\r\n\r\n" + b"q" * pre_ + b"\r\n"
                    body_ += b"--bnd\r\nContent-Disposition: form-data; name=\"f\"\r\n\r\n" + b"x" * size_ + b"\r\n--bnd--\r\n"
                    sweep.append((mm_, None, B_, body_, bs_, 0))
    for i in range(n_cases + len(sweep)):
        if i < len(sweep):
            mm, mp, B, body, bs, short = sweep[i]
        else:
            mm = rng.choice([None, 0, 1, 5, 16, 60, 100, 150, 400])
            mp = rng.choice([None, None, 0, 1, 2, 3, 1000])
            sizes = [0, 1, 5] + ([mm - 1, mm, mm + 1, mm // 2] if mm else [30, 100])
            if rng.random() < 0.85:
                B, body = sized_body(rng, sizes)
            else:
                B, body, _ = gen_body(rng, malformed=rng.random() < 0.5)
            if rng.random() < 0.05:   # a body with no delimiter at all / one huge line
                body = bytes(rng.choice(b"ab\r\n") for _ in range(rng.choice([10, 50, 150])))
            bs = rng.choice([1, 2, 3, 7, 16, 64, 1 << 16])
            short = rng.choice([0, 0, 1, 5])
        chunks = reads_of(body, bs, short)
        got = with_timeout(impl_form_parse, 30, B, body, bs, short, mm, mp)
        kinds = kinds_and_parts(B, body)
        lines.append(f"form {hexs(B)} {'~' if mm is None else mm} {'~' if mp is None else mp} "
                     f"{''.join(str(k) for k in kinds) or '~'} {','.join(hexs(c) for c in chunks) or '~'}")
        impl.append(got)
        metas.append((B, body, kinds))
        chk.case(("form", B, body, bs, short, mm, mp), True,
                 sample={"boundary": B.decode(), "body_len": len(body), "buffer_size": bs, "short_read": short,
                         "max_form_memory_size": mm, "max_form_parts": mp, "impl": repr(got)[:100]})
        chk.count("multipart:" + ("413" if got == "X:413" else "error" if isinstance(got, str) else "ok"))
        # --- oracles (the property on the implementation)
        if not isinstance(got, str):
            form, files = got
            if mm is not None:
                # a returned non-file field holds at most mm bytes: measure on the raw payloads
                dec_parts = []
                try:
                    from .c01 import impl_parts
                    dec_parts = impl_parts(B, chunks)
                except Exception:  # noqa: BLE001
                    dec_parts = []
                if isinstance(dec_parts, list):
                    for p in dec_parts:
                        if p[0] == "field" and len(p[4]) > mm:
                            chk.fail("field-exceeds-limit", f"field of {len(p[4])} bytes returned with max_form_memory_size={mm}",
                                     {"boundary": B.hex(), "body": body.hex(), "mm": mm, "buffer_size": bs})
            if mp is not None and len(form) + len(files) > mp:
                chk.fail("parts-exceed-limit", f"{len(form) + len(files)} parts returned with max_form_parts={mp}",
                         {"boundary": B.hex(), "body": body.hex(), "mp": mp})
            # pure guard: the unlimited parse on the same read schedule gives the identical result
            ref = impl_form_parse(B, body, bs, short, None, None)
            if ref != got:
                chk.fail("limits-change-result", "parsing under limits succeeded with a result different from the unlimited parse",
                         {"boundary": B.hex(), "body": body.hex(), "mm": mm, "mp": mp, "buffer_size": bs, "short": short,
                          "limited": repr(got)[:300], "unlimited": repr(ref)[:300]})
        elif got != "X:413" and (mm is not None or mp is not None):
            # limits are pure guards with ONE way of refusing: under limits the outcome is the unlimited outcome (result or
            # error) or RequestEntityTooLarge, never a different error or a silently different result
            ref = impl_form_parse(B, body, bs, short, None, None)
            if ref != got:
                chk.fail("limit-outcome-not-413", f"under max_form_memory_size={mm} / max_form_parts={mp} the parse ended with {got!r}; "
                         f"without limits: {repr(ref)[:120]} (exceeding a limit must raise RequestEntityTooLarge)",
                         {"boundary": B.hex(), "body": body.hex(), "mm": mm, "mp": mp, "buffer_size": bs, "short": short})
        # buffer bound on the sans-io decoder, after every successful receive_data
        if mm is not None:
            dec = M.MultipartDecoder(B, max_form_memory_size=mm, max_parts=mp)
            try:
                for ch in chunks + [None]:
                    dec.receive_data(ch)
                    if len(dec.buffer) > mm:
                        chk.fail("buffer-exceeds-limit", f"decoder buffer holds {len(dec.buffer)} bytes with max_form_memory_size={mm}",
                                 {"boundary": B.hex(), "body": body.hex(), "mm": mm, "chunks": [c.hex() for c in chunks]})
                        break
                    while True:
                        ev = dec.next_event()
                        if isinstance(ev, (M.NeedData, M.Epilogue)):
                            break
            except Exception:  # noqa: BLE001
                pass

    # ---------------- urlencoded: model comparison + oracles
    n_url = 1500 if quick else 25000
    for i in range(n_url):
        mm = rng.choice([None, 0, 5, 20, 100])
        n = max(0, (mm if mm is not None else 30) + rng.choice([-3, -1, 0, 1, 2, 50]))
        # raw (not percent-encoded) UTF-8 is legal in a urlencoded body: multi-byte characters can be cut by a short read
        body = b"&".join(rng.choice([b"a=1", b"b", b"k=" + b"v" * rng.randint(0, 9), b"%E2%82%AC=x", b"=", b"x=%ff",
                                     "k=é".encode(), "€=x€y".encode(), "n=\U0001f600".encode(), "ü".encode() * rng.randint(1, 4),
                                     b"bad=\xff" if rng.random() < 0.15 else b"z=\xc3\xa9"])
                         for _ in range(rng.randint(0, 6)))
        body = (body + b"&pad=" + b"p" * n)[:n] if rng.random() < 0.7 else body
        declared = rng.choice(["exact", "absent", "absent", "smaller", "larger"])
        clen = {"exact": len(body), "absent": None, "smaller": max(0, len(body) - 3), "larger": len(body) + 5}[declared]
        sched = [rng.choice([0, 1, 2, 3, 7]) for _ in range(rng.randint(0, 9))]
        st = SchedStream(body, sched)
        try:
            _, form, _ = FormDataParser(max_form_memory_size=mm, silent=False).parse(
                st, "application/x-www-form-urlencoded", clen, {})
            got = "ok " + repr(list(form.items(multi=True)))
        except RequestEntityTooLarge:
            got = "X:413"
        except Exception as e:  # noqa: BLE001
            got = "X:" + type(e).__name__
        lines.append(f"url {'~' if mm is None else mm} {'~' if clen is None else clen} {hexs(body)} {','.join(map(str, sched)) or '~'}")
        impl.append(got)
        metas.append(("url", body, None))
        chk.case(("url", body, mm, clen, tuple(sched)), True)
        chk.count("urlencoded:" + got[:5].strip())
        # oracles
        if got.startswith("ok") and mm is not None and len(body) > mm:
            chk.fail("urlencoded-exceeds-limit", f"urlencoded body of {len(body)} bytes parsed with max_form_memory_size={mm} "
                     f"(declared length {clen})", {"body": body.hex(), "mm": mm, "content_length": clen, "sched": sched})
        if got != "X:413":
            # pure guard, both ways: a limit that is not exceeded changes neither the result nor the exception
            try:
                ref = "ok " + repr(list(FormDataParser(silent=False).parse(io.BytesIO(body), "application/x-www-form-urlencoded", None, {})[1].items(multi=True)))
            except Exception as e:  # noqa: BLE001
                ref = "X:" + type(e).__name__
            if got != ref:
                chk.fail("limits-change-result", "urlencoded parse under a limit differs from the unlimited parse",
                         {"body": body.hex(), "mm": mm, "content_length": clen, "sched": sched, "limited": got[:200], "unlimited": ref[:200]})
        if got == "X:413" and mm is not None and len(body) <= mm and (clen is None or clen <= mm):
            chk.fail("spurious-413", "RequestEntityTooLarge although body and declared length are within the limit",
                     {"body": body.hex(), "mm": mm, "content_length": clen, "sched": sched})
        if mm is not None and st.consumed > mm + 1:
            chk.fail("urlencoded-overread", f"{st.consumed} bytes read from the stream with max_form_memory_size={mm}",
                     {"body": body.hex(), "mm": mm, "content_length": clen, "sched": sched})

    # ---------------- request level: declared length beyond max_content_length is never read;
    # a terminated stream is read at most max_content_length bytes; defaults
    n_req = 300 if quick else 4000
    for i in range(n_req):
        mcl = rng.choice([None, 10, 50, 200])
        body = b"a=" + b"x" * rng.choice([0, 5, 9, 48, 49, 60, 300])
        with_len = rng.random() < 0.5
        terminated = rng.random() < 0.6
        raw = SchedStream(body, [rng.choice([0, 3, 16]) for _ in range(4)])
        env = {"REQUEST_METHOD": "POST", "CONTENT_TYPE": "application/x-www-form-urlencoded", "wsgi.input": raw,
               "SERVER_NAME": "x", "SERVER_PORT": "80", "wsgi.url_scheme": "http"}
        lie = with_len and terminated and rng.random() < 0.4
        if with_len:
            env["CONTENT_LENGTH"] = str(len(body) // 3 if lie else len(body))
        if terminated:
            env["wsgi.input_terminated"] = True
        req = Request(env)
        req.max_content_length = mcl
        try:
            form = list(req.form.items(multi=True))
            res = "ok"
        except RequestEntityTooLarge:
            res = "413"
        except Exception as e:  # noqa: BLE001
            res = type(e).__name__
        chk.case(("req", body, mcl, with_len, terminated), True)
        chk.count("request:" + res)
        if lie:
            # a terminated stream that delivers more than it declared: the maximum still applies to what is read
            if mcl is not None and raw.consumed > mcl + 1:
                chk.fail("stream-overread", f"{raw.consumed} bytes consumed with max_content_length={mcl} (declared {len(body) // 3}, terminated)",
                         {"body_len": len(body), "mcl": mcl, "declared": len(body) // 3})
            continue
        if mcl is not None and (with_len or terminated) and len(body) > mcl and res == "ok":
            chk.fail("content-length-exceeds-limit", f"body of {len(body)} bytes parsed with max_content_length={mcl}",
                     {"body_len": len(body), "mcl": mcl, "content_length": with_len, "terminated": terminated})
        if mcl is not None and with_len and len(body) > mcl and raw.consumed > 0:
            chk.fail("declared-too-long-but-read", f"{raw.consumed} bytes read although the declared length exceeds max_content_length",
                     {"body_len": len(body), "mcl": mcl})
        if mcl is not None and raw.consumed > max(mcl, 0) + 1 and len(body) > mcl:
            chk.fail("stream-overread", f"{raw.consumed} bytes consumed with max_content_length={mcl}", {"body_len": len(body), "mcl": mcl})
        if res == "ok" and (with_len or terminated) and form != _group(parse_qsl(body.decode(), keep_blank_values=True)):
            chk.fail("limits-change-result", "request form differs from the plain parse", {"body": body.hex(), "mcl": mcl})
    # the limits do not depend on what the request DECLARES: FormDataParser.parse with every content_length (absent, 0, smaller
    # than the limit, exact, larger) on a stream that delivers the whole body (a server-terminated input): a non-file field
    # above max_form_memory_size is refused whatever was declared, and a parse that succeeds equals the unlimited one
    for _ in range(150 if quick else 3000):
        mm = rng.choice([5, 20, 100])
        fsize = rng.choice([0, mm - 1, mm, mm + 1, mm * 3])
        kind = rng.choice(["multipart", "urlencoded"])
        if kind == "multipart":
            body = b"--b\r\nContent-Disposition: form-data; name=\"a\"\r\n\r\n" + b"x" * fsize + b"\r\n--b--\r\n"
            mt, opts = "multipart/form-data", {"boundary": "b"}
        else:
            body = b"a=" + b"x" * fsize
            mt, opts = "application/x-www-form-urlencoded", {}
        for clen in (None, 0, 1, mm - 1, mm, len(body), len(body) + 10):
            st = SchedStream(body, [rng.choice([0, 3, 16]) for _ in range(3)])
            try:
                _, form, _ = FormDataParser(max_form_memory_size=mm, silent=False).parse(st, mt, clen, dict(opts))
                res = "ok " + repr(list(form.items(multi=True)))
            except RequestEntityTooLarge:
                res = "413"
            except Exception as e:  # noqa: BLE001
                res = "X:" + type(e).__name__
            over = fsize > mm if kind == "multipart" else len(body) > mm
            chk.case(("declared-indep", kind, mm, fsize, clen), True)
            if over and res != "413":
                chk.fail("limit-depends-on-declared-length", f"{kind} body with a {fsize}-byte field under max_form_memory_size={mm}, "
                         f"content_length={clen}: {res[:80]} (expected RequestEntityTooLarge whatever is declared)",
                         {"kind": kind, "mm": mm, "field_size": fsize, "content_length": clen})

    # declared lengths of every SPELLING a server may pass through: huge values (more digits than any machine integer), zero
    # padding, surrounding blanks: a declared length above max_content_length is refused (413) before a byte is read,
    # whatever its width; the declared value is the integer the digits denote (C09_content_length_digits)
    spellings = ["1" + "0" * k for k in (2, 9, 17, 18, 19, 20, 21, 25, 40, 100)] + ["9" * k for k in (18, 19, 20, 21, 30)] \
        + ["0" * k + "300" for k in (1, 5, 17, 18, 19, 20, 30)] + [" 300", "300 ", "\t300"] + [str(2 ** 63), str(2 ** 64), str(2 ** 64 + 1)]
    for sp in spellings:
        for mcl in (10, 200):
            for terminated in (False, True):
                raw = SchedStream(b"a=" + b"x" * 20, [0])
                env = {"REQUEST_METHOD": "POST", "CONTENT_TYPE": "application/x-www-form-urlencoded", "wsgi.input": raw,
                       "SERVER_NAME": "x", "SERVER_PORT": "80", "wsgi.url_scheme": "http", "CONTENT_LENGTH": sp}
                if terminated:
                    env["wsgi.input_terminated"] = True
                req = Request(env)
                req.max_content_length = mcl
                try:
                    req.form  # noqa: B018
                    res = "ok"
                except RequestEntityTooLarge:
                    res = "413"
                except Exception as e:  # noqa: BLE001
                    res = type(e).__name__
                try:
                    declared = int(sp) if sp.strip(" \t").isdigit() and sp == sp.strip() else None   # _plain_int: digits only
                except ValueError:
                    declared = None
                chk.case(("decl", sp, mcl, terminated), True)
                if declared is not None and declared > mcl and (res != "413" or raw.consumed > 0):
                    chk.fail("declared-length-spelling", f"CONTENT_LENGTH {sp!r} (= {declared}) with max_content_length={mcl}: "
                             f"{res}, {raw.consumed} bytes read (expected 413 before any read)",
                             {"content_length": sp, "mcl": mcl, "terminated": terminated})
    # parse_form_data(environ, max_content_length=N) / FormDataParser.parse_from_environ: a server-terminated stream
    # (no usable Content-Length) is read at most N bytes; longer bodies raise RequestEntityTooLarge
    from werkzeug.formparser import parse_form_data
    for i in range(200 if quick else 3000):
        mcl = rng.choice([5, 20, 60])
        kind = rng.choice(["urlencoded", "multipart"])
        size = rng.choice([0, 3, mcl - 1, mcl, mcl + 1, mcl * 3])
        if kind == "urlencoded":
            body = (b"a=" + b"x" * max(0, size - 2))[:size] if size >= 2 else b"a"[:size]
            ctype = "application/x-www-form-urlencoded"
        else:
            body = b"--b\r\nContent-Disposition: form-data; name=\"a\"\r\n\r\n" + b"x" * size + b"\r\n--b--\r\n"
            ctype = "multipart/form-data; boundary=b"
        declared = rng.choice(["absent", "absent", "chunked", "exact", "smaller"])
        raw = SchedStream(body, [rng.choice([0, 2, 7]) for _ in range(5)])
        env = {"REQUEST_METHOD": "POST", "CONTENT_TYPE": ctype, "wsgi.input": raw, "wsgi.input_terminated": True,
               "SERVER_NAME": "x", "SERVER_PORT": "80", "wsgi.url_scheme": "http"}
        if declared == "exact":
            env["CONTENT_LENGTH"] = str(len(body))
        elif declared == "smaller":
            env["CONTENT_LENGTH"] = str(min(len(body) // 2, mcl))
        elif declared == "chunked":
            env["HTTP_TRANSFER_ENCODING"] = "chunked"
        try:
            _, form, files = parse_form_data(env, max_content_length=mcl, silent=False)
            res = "ok"
        except RequestEntityTooLarge:
            res = "413"
        except Exception as e:  # noqa: BLE001
            res = type(e).__name__
        chk.case(("pfd", kind, size, mcl, declared), True)
        chk.count("parse_form_data:" + res)
        if res == "ok" and len(body) > mcl and len(form) + len(files) > 0:
            chk.fail("parse-form-data-max-content-length-ignored",
                     f"parse_form_data(max_content_length={mcl}) parsed a {len(body)}-byte {kind} body ({declared} length)",
                     {"kind": kind, "body_len": len(body), "max_content_length": mcl, "declared": declared})
        if raw.consumed > mcl + 1 and len(body) > mcl:
            chk.fail("stream-overread", f"{raw.consumed} bytes consumed by parse_form_data with max_content_length={mcl}",
                     {"kind": kind, "body_len": len(body), "max_content_length": mcl, "declared": declared})
    # request-level limits travel through Request.make_form_data_parser: 0, small, None
    for i in range(200 if quick else 3000):
        mfp = rng.choice([None, 0, 1, 2, 5])
        mfm = rng.choice([None, 0, 3, 20, 1000])
        nparts = rng.choice([0, 1, 2, 3])
        fsize = rng.choice([0, 1, 4, 25])
        B = b"bnd"
        body = b"".join(b"--bnd\r\nContent-Disposition: form-data; name=\"f%d\"\r\n\r\n" % j + b"x" * fsize + b"\r\n" for j in range(nparts)) + b"--bnd--\r\n"
        env = {"REQUEST_METHOD": "POST", "CONTENT_TYPE": "multipart/form-data; boundary=bnd", "CONTENT_LENGTH": str(len(body)),
               "wsgi.input": io.BytesIO(body), "SERVER_NAME": "x", "SERVER_PORT": "80", "wsgi.url_scheme": "http"}
        req = Request(env)
        req.max_form_parts = mfp
        req.max_form_memory_size = mfm
        try:
            got = len(list(req.form.items(multi=True)))
            res = "ok"
        except RequestEntityTooLarge:
            res = "413"
        except Exception as e:  # noqa: BLE001
            res = type(e).__name__
        chk.case(("reqlim", mfp, mfm, nparts, fsize), True)
        chk.count("request-limits:" + res)
        if res == "ok" and mfp is not None and nparts > mfp:
            chk.fail("request-parts-limit-ignored", f"{nparts} parts accepted through Request with max_form_parts={mfp}",
                     {"max_form_parts": mfp, "parts": nparts})
        if res == "ok" and mfm is not None and nparts > 0 and fsize > mfm:
            chk.fail("request-memory-limit-ignored", f"field of {fsize} bytes accepted through Request with max_form_memory_size={mfm}",
                     {"max_form_memory_size": mfm, "field_size": fsize})
        if res == "413" and (mfp is None or nparts <= mfp) and (mfm is None or len(body) <= mfm):
            chk.fail("spurious-413", "RequestEntityTooLarge through Request although every limit is respected",
                     {"max_form_parts": mfp, "max_form_memory_size": mfm, "parts": nparts, "field_size": fsize})
    lines.append("defaults")
    impl.append(f"{Request.max_form_memory_size} {Request.max_form_parts}")
    metas.append(("defaults", None, None))

    exe = chk.build_modelrun("C10")
    if not exe:
        return
    res = chk.run_model(exe, lines)
    if res is None:
        return
    from werkzeug.http import parse_options_header
    mism = 0
    for ln, a, b, (B, body, kinds) in zip(lines, impl, res, metas):
        if B == "defaults":
            ok = a == b
        elif B == "url":
            if b.startswith("ok "):
                raw = b"" if b[3:] == "-" else bytes.fromhex(b[3:])
                try:
                    b = "ok " + repr(_group(parse_qsl(raw.decode(), keep_blank_values=True, errors="werkzeug.url_quote")))
                except UnicodeDecodeError:       # body.decode() is strict: the whole body, whatever the reads were
                    b = "X:UnicodeDecodeError"
            ok = a == b
        else:
            ok = _same_form(a, b, B)
        if not ok:
            mism += 1
            if mism <= 3:
                chk.broken("correspondence", "C10 model vs MultiPartParser / _parse_urlencoded",
                           f"case {ln[:300]!r}: impl {str(a)[:300]!r} model {b[:300]!r}", case={"line": ln, "impl": repr(a), "model": b})
    chk.count("model:compared", len(lines))
    chk.count("model:mismatches", mism)


def _group(items):
    """MultiDict.items(multi=True) order: grouped by key, keys in first-occurrence order"""
    order = []
    for it in items:
        if it[0] not in order:
            order.append(it[0])
    return [it for k in order for it in items if it[0] == k]


def _same_form(a, b: str, B: bytes) -> bool:
    """implementation result (fields, files) / 'X:…' vs the model line"""
    from werkzeug.formparser import MultiPartParser
    from werkzeug.http import parse_options_header
    from werkzeug.sansio import multipart as M
    if b.startswith("X:413H:"):
        # the implementation parses the header block (and may fail on it) before counting the part
        try:
            h = M.MultipartDecoder(b"x")._parse_headers(bytes.fromhex(b[7:]) if b[7:] != "-" else b"")
            if "content-disposition" not in h:
                raise ValueError
            b = "X:413"
        except Exception:  # noqa: BLE001
            b = "X:value"
    if isinstance(a, str):
        if b.startswith("ok"):
            # a header-level error (missing Content-Disposition, undecodable header) is raised by werkzeug's header
            # code on a block the model passes through; accept only that
            return a in ("X:value", "X:UnicodeDecodeError") and _has_bad_header(b)
        return a == b or (a == "X:UnicodeDecodeError" and b == "X:value")
    if not b.startswith("ok"):
        return False
    fields, files = [], []
    for tok in (b[3:].split("|") if b[3:] else []):
        k, h, p = tok.split(":")
        raw_h = b"" if h == "-" else bytes.fromhex(h)
        payload = b"" if p == "-" else bytes.fromhex(p)
        hd = M.MultipartDecoder(b"x")._parse_headers(raw_h)
        _, extra = parse_options_header(hd["content-disposition"])
        if k == "F":
            files.append((extra.get("name"), extra.get("filename"), payload))
        else:
            fields.append((extra.get("name"), payload.decode(MultiPartParser().get_part_charset(hd), "replace")))
    # MultiDict.items(multi=True) groups by key in first-occurrence order
    def group(items):
        order = []
        for it in items:
            if it[0] not in order:
                order.append(it[0])
        return [it for k in order for it in items if it[0] == k]
    return a == (group(fields), group(files))


def _has_bad_header(b: str) -> bool:
    from werkzeug.http import parse_options_header
    from werkzeug.sansio import multipart as M
    for tok in (b[3:].split("|") if b[3:] else []):
        _, h, _ = tok.split(":")
        try:
            hd = M.MultipartDecoder(b"x")._parse_headers(b"" if h == "-" else bytes.fromhex(h))
            if "content-disposition" not in hd:
                return True
            parse_options_header(hd["content-disposition"])
        except Exception:  # noqa: BLE001
            return True
    return False


def main(chk: Check) -> None:
    try:
        gen()
        from . import c01, c09
        c01.gen()
        c09.gen()  # the max_content_length theorems are corollaries of C09's regenerated get_input_stream table
    except px.Unsupported as e:
        chk.broken("translator", "C10/Gen.v", str(e))
    chk.forbidden_scan()
    if chk.coq_make(["C10/Proofs.vo", "C10/Declared.vo", "C10/Extract.vo"]):
        chk.audit_props("C10/Props.v")
    else:
        chk.cov["obligations"] += 1
    chk.trusted += [
        "translator tools/c10.py (T2: the RequestEntityTooLarge conditions of receive_data, next_event, MultiPartParser.parse and "
        "_parse_urlencoded; shape of the limited read loop pinned textually; request-level defaults) + tools/pyextract.py",
        "extraction ExtrOcamlBasic + tools/conv.ml + coq/C10/driver.ml",
        "decoder model coq/C01/Model.v (validated differentially by C01 and here); part kind supplied by werkzeug's header parser",
        "max_content_length: get_input_stream decision table and LimitedStream model are C09's (coq/C09/Gen.v regenerated here too, "
        "coq/C09/Model.v validated differentially by ./check C09); the C10 theorems about it are corollaries, and the clause is "
        "also exercised end to end through Request and parse_form_data",
    ]
    run(chk)
    chk.finish(rule="multipart bodies with field/file sizes around each limit, many small parts, huge header blocks, bodies without "
                    "delimiter, CR/LF runs x max_form_memory_size x max_form_parts x buffer_size x short reads; urlencoded bodies "
                    "around the limit x declared length (exact, absent, smaller, larger) x read schedules; Request-level "
                    "max_content_length with and without CONTENT_LENGTH / wsgi.input_terminated. Distinct by hash of the case tuple.")
