"""regenerates DESIGN.md section 11.3 from known_findings.txt (run after editing that file)"""
