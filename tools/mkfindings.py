"""regenerates DESIGN.md section 11.3 from known_findings.txt (run after editing that file)"""
import re

p = '/verif/DESIGN.md'
s = open(p).read()
fixed, known = [], []
for l in open('/verif/known_findings.txt'):
    m = re.match(r"fixed:\s+property=(\S+)\s+(\S+)\s+(.*)", l.strip())
    if m:
        fixed.append(m.groups())
    m = re.match(r"known:\s+property=(\S+)\s+key=(\S+)\s+(.*)", l.strip())
    if m:
        known.append(m.groups())
sec = "### 11.3 Findings on the unchanged tree and their disposition (from `known_findings.txt`)\n\n"
ncommits = len({c for _, c, _ in fixed})
sec += (f"{ncommits} genuine defects were repaired with one minimal unguarded `fix:` commit each ({len(fixed)} rows below: a commit that "
        "serves two properties is listed under both; the existing suite, unedited, "
        f"passes after every one: 947 passed), and {len(known)} are recorded as known findings (the check replays the listed input, "
        "prints `KNOWN-FINDING` and exits 0; any violation under another key is still reported). Each fixed defect keeps its replay in "
        "the check's corpus, so a regression is reported again; each known finding has a `_refuted` witness and a `_partial` theorem "
        "under an explicit guard where the model covers it.\n\n")
sec += "| Prop | Commit | What failed before the repair |\n|---|---|---|\n"
for p_, c, t in sorted(fixed):
    sec += f"| {p_} | `{c}` | {t[:260].replace('|', '/')} |\n"
sec += "\n| Prop | Key | Known finding (why it is not repaired here) |\n|---|---|---|\n"
for p_, k, t in sorted(known):
    sec += f"| {p_} | `{k}` | {t[:420].replace('|', '/')} |\n"
sec += "\n"
a = s.index("### 11.3 Findings on the unchanged tree")
b = s.index("### 11.3b False alarms") if "### 11.3b False alarms" in s else s.index("### 11.4 Trusted base")
open(p, 'w').write(s[:a] + sec + s[b:])
print(len(fixed), "fixed,", len(known), "known")
