"""C18  Context-local data never leaks between concurrent contexts (werkzeug/local.py)."""
from __future__ import annotations

import ast
import os

from . import pyextract as px
from .vlib import COQ, Check

PID = "C18"
CLAIM = dict(
    text="Coq theorems over a world model (append-only heap of dict/list objects + context -> ContextVar -> location) in which the "
         "bodies of Local.__getattr__/__setattr__/__delattr__/__iter__/__release_local__ and LocalStack.push/pop/top/"
         "__release_local__ are heap programs regenerated from local.py on every run: a verified syntactic copy-on-write check "
         "(cow_safe, re-evaluated on the regenerated programs) implies no existing heap cell is ever written; for every step list "
         "(every interleaving at operation granularity, any number of contexts) each context's view and every observation equal "
         "a reference model holding one immutable mapping/stack per context; sibling operations never change another context's "
         "view; a child starts from the parent's snapshot; release affects only the releasing context; proxies resolve in the "
         "accessing context and are unbound exactly where nothing is bound, for EVERY entry of the regenerated table of proxied "
         "operations; a snapshot persists whatever other contexts do later; request end (middleware close: application close, then "
         "cleanup, in the regenerated order) empties the managed locals of the closing context only; and below operation granularity "
         "no pre-existing cell is written under arbitrary interference between instructions. Tied to the code by the translator and by differential "
         "execution (extracted model vs werkzeug) on exhaustive and random schedules realised with copy_context, real threads "
         "and asyncio tasks.",
    note="Trusted: Coq kernel; translator tools/c18.py; contextvars contract (a context is an immutable map var -> object reference, "
         "copy_context is a snapshot, a new thread starts empty, a task starts from a copy); dict/list primitive semantics of the "
         "heap language (validated differentially); _ProxyLookup/LocalProxy layer hand-modelled (fallback table and "
         "_get_current_object closures translated to generated terms the model interprets; ContextVar / callable proxies harness-only). Preemption inside one operation and event-loop scheduling are "
         "not exhibited by the model; C18_cow_sound is the argument that they cannot matter.",
    design="6/C18")

# ====================================================================== translator (T3)


class _Tr:
    """one method body -> a `prog` term.  Fail closed: anything outside the subset raises Unsupported."""

    def __init__(self, cls: str, fn: ast.FunctionDef, storage_attr: str, kind: str):
        self.cls, self.fn, self.storage, self.kind = cls, fn, storage_attr, kind
        args = fn.args
        if args.vararg or args.kwarg or args.kwonlyargs or args.posonlyargs or args.defaults:
            raise px.Unsupported(f"{cls}.{fn.name}: unexpected signature")
        names = [a.arg for a in args.args]
        if not names or names[0] != "self":
            raise px.Unsupported(f"{cls}.{fn.name}: first parameter is not self")
        self.params = {n: i for i, n in enumerate(names[1:])}
        self.nreg = 0

    def where(self, node) -> str:
        return f"{self.cls}.{self.fn.name} line {getattr(node, 'lineno', '?')}: {ast.unparse(node)!r}"

    def fresh(self) -> int:
        self.nreg += 1
        return self.nreg - 1

    # ---- recognisers
    def is_storage(self, e) -> bool:
        return (isinstance(e, ast.Attribute) and isinstance(e.value, ast.Name) and e.value.id == "self"
                and e.attr == self.storage)

    def storage_call(self, e, meth: str):
        """self.<storage>.<meth>(args) -> args, else None"""
        if (isinstance(e, ast.Call) and isinstance(e.func, ast.Attribute) and e.func.attr == meth
                and self.is_storage(e.func.value) and not e.keywords):
            return e.args
        return None

    def empty_literal(self, e):
        if isinstance(e, ast.Dict) and not e.keys:
            return "KDict"
        if isinstance(e, ast.List) and not e.elts:
            return "KList"
        return None

    def param(self, e, node) -> int:
        if isinstance(e, ast.Name) and e.id in self.params:
            return self.params[e.id]
        raise px.Unsupported(f"{self.where(node)}: {ast.unparse(e)!r} is not a method parameter")

    def is_minus_one(self, e) -> bool:
        return (isinstance(e, ast.UnaryOp) and isinstance(e.op, ast.USub)
                and isinstance(e.operand, ast.Constant) and e.operand.value == 1 and type(e.operand.value) is int)

    # ---- object expressions: returns (instrs, reg) ; target = register to define when given
    def objexpr(self, e, env, node, target=None):
        a = self.storage_call(e, "get")
        if a is not None:
            if len(a) != 1:
                raise px.Unsupported(f"{self.where(node)}: ContextVar.get without the fresh default")
            k = self.empty_literal(a[0])
            if k != self.kind:
                raise px.Unsupported(f"{self.where(node)}: ContextVar.get default is not the fresh empty {self.kind}")
            r = self.fresh() if target is None else target
            return [f"IGet {r} {k}"], r
        k = self.empty_literal(e)
        if k is not None:
            r = self.fresh() if target is None else target
            return [f"INew {r} {k}"], r
        if isinstance(e, ast.Call) and isinstance(e.func, ast.Attribute) and e.func.attr == "copy" and not e.args and not e.keywords:
            ins, s = self.objexpr(e.func.value, env, node)
            r = self.fresh() if target is None else target
            return ins + [f"ICopy {r} {s}"], r
        if isinstance(e, ast.Call) and isinstance(e.func, ast.Name) and e.func.id in ("dict", "list") and len(e.args) == 1 and not e.keywords:
            # dict(x) / list(x): a shallow copy
            ins, s = self.objexpr(e.args[0], env, node)
            r = self.fresh() if target is None else target
            return ins + [f"ICopy {r} {s}"], r
        if isinstance(e, ast.Subscript) and isinstance(e.slice, ast.Slice):
            sl = e.slice
            ins, s = self.objexpr(e.value, env, node)
            r = self.fresh() if target is None else target
            if sl.lower is None and sl.step is None and sl.upper is not None and self.is_minus_one(sl.upper):
                return ins + [f"ISliceInit {r} {s}"], r
            if sl.lower is None and sl.step is None and sl.upper is None:
                return ins + [f"ICopy {r} {s}"], r
            raise px.Unsupported(f"{self.where(node)}: slice other than [:-1] / [:]")
        if isinstance(e, ast.Name) and env.get(e.id, (None,))[0] == "obj":
            s = env[e.id][1]
            if target is None or target == s:
                return [], s
            return [f"IMove {target} {s}"], target
        raise px.Unsupported(f"{self.where(node)}: object expression not in the T3 subset")

    def obj_local(self, e, env, node) -> int:
        if isinstance(e, ast.Name) and env.get(e.id, (None,))[0] == "obj":
            return env[e.id][1]
        raise px.Unsupported(f"{self.where(node)}: {ast.unparse(e)!r} is not a dict/list local")

    def cond(self, e, env, node):
        """returns (instrs, cond-term, negated)"""
        neg = False
        if isinstance(e, ast.UnaryOp) and isinstance(e.op, ast.Not):
            neg, e = True, e.operand
        if isinstance(e, ast.Compare) and len(e.ops) == 1:
            op, left, right = e.ops[0], e.left, e.comparators[0]
            if isinstance(op, (ast.In, ast.NotIn)):
                if self.kind != "KDict":
                    raise px.Unsupported(f"{self.where(node)}: membership test on a list")
                ins, r = self.objexpr(right, env, node)
                return ins, f"CIn {self.param(left, node)} {r}", neg ^ isinstance(op, ast.NotIn)
            if (isinstance(op, (ast.Eq, ast.NotEq)) and isinstance(left, ast.Call) and isinstance(left.func, ast.Name)
                    and left.func.id == "len" and len(left.args) == 1 and not left.keywords
                    and isinstance(right, ast.Constant) and right.value == 0 and type(right.value) is int):
                if self.kind != "KList":
                    raise px.Unsupported(f"{self.where(node)}: len() of a dict")
                ins, r = self.objexpr(left.args[0], env, node)
                return ins, f"CEmpty {r}", neg ^ isinstance(op, ast.NotEq)
        if isinstance(e, ast.Name) and env.get(e.id, (None,))[0] == "obj" and self.kind == "KList":
            # truthiness of a dict/list local: `if stack:` is `len(stack) != 0`
            return [], f"CEmpty {env[e.id][1]}", not neg
        raise px.Unsupported(f"{self.where(node)}: condition not in the T3 subset")

    def ret(self, e, env, node):
        """returns (instrs, rexp)"""
        if e is None or (isinstance(e, ast.Constant) and e.value is None):
            return [], "RNone"
        if isinstance(e, ast.Name) and e.id in env:
            k, r = env[e.id]
            return [], (f"RObj {r}" if k == "obj" else f"RVal {r}")
        if isinstance(e, ast.Subscript) and not isinstance(e.slice, ast.Slice):
            ins, r = self.objexpr(e.value, env, node)
            if self.is_minus_one(e.slice):
                return ins, f"RLast {r}"
            return ins, f"RItem {r} {self.param(e.slice, node)}"
        if (isinstance(e, ast.Call) and isinstance(e.func, ast.Name) and e.func.id == "iter" and len(e.args) == 1
                and not e.keywords):
            inner = e.args[0]
            if (isinstance(inner, ast.Call) and isinstance(inner.func, ast.Attribute) and inner.func.attr == "items"
                    and not inner.args and not inner.keywords):
                ins, r = self.objexpr(inner.func.value, env, node)
                return ins, f"RItems {r}"
        raise px.Unsupported(f"{self.where(node)}: return expression not in the T3 subset")

    # ---- statements
    def block(self, stmts, env) -> str:
        if not stmts:
            return "PRet RNone"
        s, rest = stmts[0], stmts[1:]
        if isinstance(s, ast.Expr) and isinstance(s.value, ast.Constant) and isinstance(s.value.value, str):
            return self.block(rest, env)            # docstring
        if isinstance(s, ast.Pass):
            return self.block(rest, env)
        if isinstance(s, ast.Return):
            ins, e = self.ret(s.value, env, s)
            return self.seq(ins, f"PRet ({e})")
        if isinstance(s, ast.Raise):
            x = s.exc
            if (s.cause is None and isinstance(x, ast.Call) and isinstance(x.func, ast.Name) and x.func.id == "AttributeError"
                    and len(x.args) == 1 and not x.keywords and self.param(x.args[0], s) == 0 and "name" in self.params):
                return "PRaiseAttr"
            raise px.Unsupported(f"{self.where(s)}: raise not in the T3 subset")
        if isinstance(s, ast.If):
            ins, c, neg = self.cond(s.test, env, s)
            a = self.block(list(s.body) + rest, dict(env))
            b = self.block(list(s.orelse) + rest, dict(env))
            if neg:
                a, b = b, a
            return self.seq(ins, f"PIf ({c}) ({a}) ({b})")
        if isinstance(s, (ast.Assign, ast.AnnAssign)):
            if isinstance(s, ast.Assign):
                if len(s.targets) != 1:
                    raise px.Unsupported(f"{self.where(s)}: multiple assignment targets")
                tgt, val = s.targets[0], s.value
            else:
                tgt, val = s.target, s.value
                if val is None:
                    return self.block(rest, env)
            if isinstance(tgt, ast.Name):
                if tgt.id in self.params or tgt.id == "self":
                    raise px.Unsupported(f"{self.where(s)}: assignment to a parameter")
                # value locals: x = y[-1] | x = y[name] | x = y.pop()
                if isinstance(val, ast.Subscript) and not isinstance(val.slice, ast.Slice):
                    ins, r = self.objexpr(val.value, env, s)
                    x = self.fresh()
                    if self.is_minus_one(val.slice):
                        ins = ins + [f"ILetLast {x} {r}"]
                    else:
                        ins = ins + [f"ILetItem {x} {r} {self.param(val.slice, s)}"]
                    env = dict(env)
                    env[tgt.id] = ("val", x)
                    return self.seq(ins, self.block(rest, env))
                if (isinstance(val, ast.Call) and isinstance(val.func, ast.Attribute) and val.func.attr == "pop"
                        and not val.args and not val.keywords):
                    r = self.obj_local(val.func.value, env, s)
                    x = self.fresh()
                    env = dict(env)
                    env[tgt.id] = ("val", x)
                    return self.seq([f"ILetLast {x} {r}", f"IPopLast {r}"], self.block(rest, env))
                # object locals
                old = env.get(tgt.id)
                target = old[1] if old and old[0] == "obj" else self.fresh()
                ins, r = self.objexpr(val, env, s, target=target)
                if r != target:
                    ins = ins + [f"IMove {target} {r}"]
                env = dict(env)
                env[tgt.id] = ("obj", target)
                return self.seq(ins, self.block(rest, env))
            if isinstance(tgt, ast.Subscript) and not isinstance(tgt.slice, ast.Slice):
                r = self.obj_local(tgt.value, env, s)
                return self.seq([f"ISetItem {r} {self.param(tgt.slice, s)} {self.param(val, s)}"], self.block(rest, env))
            raise px.Unsupported(f"{self.where(s)}: assignment target not in the T3 subset")
        if isinstance(s, ast.Delete):
            ins = []
            for t in s.targets:
                if not (isinstance(t, ast.Subscript) and not isinstance(t.slice, ast.Slice)):
                    raise px.Unsupported(f"{self.where(s)}: del target not in the T3 subset")
                ins.append(f"IDelItem {self.obj_local(t.value, env, s)} {self.param(t.slice, s)}")
            return self.seq(ins, self.block(rest, env))
        if isinstance(s, ast.Expr) and isinstance(s.value, ast.Call):
            c = s.value
            a = self.storage_call(c, "set")
            if a is not None:
                if len(a) != 1:
                    raise px.Unsupported(f"{self.where(s)}: ContextVar.set arity")
                ins, r = self.objexpr(a[0], env, s)
                return self.seq(ins + [f"ISet {r}"], self.block(rest, env))
            if isinstance(c.func, ast.Attribute) and not c.keywords:
                m = c.func.attr
                if m == "append" and len(c.args) == 1:
                    r = self.obj_local(c.func.value, env, s)
                    return self.seq([f"IAppend {r} {self.param(c.args[0], s)}"], self.block(rest, env))
                if m == "pop" and not c.args:
                    r = self.obj_local(c.func.value, env, s)
                    return self.seq([f"IPopLast {r}"], self.block(rest, env))
                if m == "clear" and not c.args:
                    ins, r = self.objexpr(c.func.value, env, s)
                    return self.seq(ins + [f"IClear {r}"], self.block(rest, env))
        raise px.Unsupported(f"{self.where(s)}: statement not in the T3 subset")

    @staticmethod
    def seq(ins, tail: str) -> str:
        for i in reversed(ins):
            tail = f"PDo ({i}) ({tail})"
        return tail

    def translate(self) -> str:
        return self.block(list(self.fn.body), {})


def _method(cls: ast.ClassDef, name: str, prop: bool = False) -> ast.FunctionDef:
    found = [n for n in cls.body if isinstance(n, ast.FunctionDef) and n.name == name]
    if len(found) != 1:
        raise px.Unsupported(f"expected exactly one def {cls.name}.{name}, found {len(found)}")
    fn = found[0]
    decos = [ast.unparse(d) for d in fn.decorator_list]
    if decos != (["property"] if prop else []):
        raise px.Unsupported(f"{cls.name}.{name}: decorators {decos}")
    return fn


def _check_storage_init(cls: ast.ClassDef, attr: str) -> None:
    """__init__ must store the ContextVar (given or freshly created) under `attr`, and nothing else may
    assign that attribute or define __getattribute__."""
    init = _method(cls, "__init__")
    mangled = attr if not attr.startswith("__") else f"_{cls.name}{attr}"
    ok = False
    for n in ast.walk(init):
        if (isinstance(n, ast.Assign) and len(n.targets) == 1 and isinstance(n.targets[0], ast.Attribute)
                and isinstance(n.targets[0].value, ast.Name) and n.targets[0].value.id == "self"
                and n.targets[0].attr == attr and isinstance(n.value, ast.Name) and n.value.id == "context_var"):
            ok = True
        if (isinstance(n, ast.Call) and ast.unparse(n.func) == "object.__setattr__" and len(n.args) == 3
                and ast.unparse(n.args[0]) == "self" and isinstance(n.args[1], ast.Constant) and n.args[1].value == mangled
                and isinstance(n.args[2], ast.Name) and n.args[2].id == "context_var"):
            ok = True
    if not ok:
        raise px.Unsupported(f"{cls.name}.__init__ does not store context_var as self.{attr}")
    made = [n for n in ast.walk(init) if isinstance(n, ast.Assign) and isinstance(n.value, ast.Call)
            and ast.unparse(n.value.func) == "ContextVar" and ast.unparse(n.targets[0]) == "context_var"]
    if len(made) != 1:
        raise px.Unsupported(f"{cls.name}.__init__ does not create exactly one ContextVar")
    if len(made[0].value.args) != 1 or made[0].value.keywords:
        raise px.Unsupported(f"{cls.name}.__init__: ContextVar created with a default (a shared default object)")
    for n in cls.body:
        if isinstance(n, ast.FunctionDef) and n.name in ("__getattribute__",):
            raise px.Unsupported(f"{cls.name} defines {n.name}")


LOCAL_METHODS = [("__getattr__", False), ("__setattr__", False), ("__delattr__", False), ("__iter__", False),
                 ("__release_local__", False)]
STACK_METHODS = [("push", False), ("pop", False), ("top", True), ("__release_local__", False)]


def _norm(node) -> str:
    return ast.unparse(node)


def _strip_doc(body):
    body = list(body)
    if body and isinstance(body[0], ast.Expr) and isinstance(body[0].value, ast.Constant) and isinstance(body[0].value.value, str):
        body = body[1:]
    return body


def _pin_release_and_manager(mod: ast.Module) -> None:
    """release_local(local) calls local.__release_local__(); LocalManager.cleanup releases every local."""
    rl = _strip_doc(px.find_def(mod, "release_local").body)
    if [_norm(s) for s in rl] != ["local.__release_local__()"]:
        raise px.Unsupported("release_local is no longer `local.__release_local__()`")
    lm = px.find_class(mod, "LocalManager")
    cu = _strip_doc(_method(lm, "cleanup").body)
    if [_norm(s) for s in cu] != ["for local in self.locals:\n    release_local(local)"]:
        raise px.Unsupported("LocalManager.cleanup is no longer `for local in self.locals: release_local(local)`")


ALLOWED_IMPORTS = {"__future__", "copy", "math", "operator", "typing", "contextvars", "functools", "wsgi",
                   "_typeshed.wsgi"}


def _pin_middleware(mod: ast.Module) -> str:
    """the middleware glue: the ONLY thing LocalManager arranges is that close() of the wrapped iterable calls
    cleanup() (in the closing context).  Anything that could run cleanup / a release anywhere else - weakref
    finalizers, atexit, threads, event-loop callbacks, __del__ - fails closed: the import list of local.py, every
    mention of cleanup / release_local / __release_local__, the statement structure of LocalManager and of
    wsgi.ClosingIterator are pinned."""
    for n in ast.walk(mod):
        if isinstance(n, ast.Import):
            for a in n.names:
                if a.name.split(".")[0] not in ALLOWED_IMPORTS:
                    raise px.Unsupported(f"local.py imports {a.name} (line {n.lineno}): not in the pinned import list")
        elif isinstance(n, ast.ImportFrom):
            m = n.module or ""
            if m not in ALLOWED_IMPORTS:
                raise px.Unsupported(f"local.py imports from {m} (line {n.lineno}): not in the pinned import list")
        elif isinstance(n, ast.Call) and isinstance(n.func, ast.Name) and n.func.id in ("__import__", "eval", "exec"):
            raise px.Unsupported(f"local.py calls {n.func.id} (line {n.lineno})")
        elif isinstance(n, ast.FunctionDef) and n.name in ("__del__", "__init_subclass__"):
            raise px.Unsupported(f"local.py defines {n.name} (line {n.lineno})")
    lm = px.find_class(mod, "LocalManager")
    meths = sorted(n.name for n in lm.body if isinstance(n, (ast.FunctionDef, ast.AsyncFunctionDef)))
    if meths != ["__init__", "__repr__", "cleanup", "make_middleware", "middleware"]:
        raise px.Unsupported(f"LocalManager methods changed: {meths}")
    init = [_norm(s) for s in _strip_doc(_method(lm, "__init__").body)]
    if init != ["if locals is None:\n    self.locals = []\nelif isinstance(locals, Local):\n    self.locals = [locals]\n"
                "else:\n    self.locals = list(locals)"]:
        raise px.Unsupported("LocalManager.__init__ changed")
    mm = _strip_doc(_method(lm, "make_middleware").body)
    ok = (len(mm) == 2 and isinstance(mm[0], ast.FunctionDef) and mm[0].name == "application"
          and [a.arg for a in mm[0].args.args] == ["environ", "start_response"] and not mm[0].decorator_list
          and [_norm(s) for s in _strip_doc(mm[0].body)] == ["return ClosingIterator(app(environ, start_response), self.cleanup)"]
          and _norm(mm[1]) == "return application")
    if not ok:
        raise px.Unsupported("LocalManager.make_middleware is no longer `return ClosingIterator(app(environ, start_response), "
                             "self.cleanup)` inside `application`: cleanup may be scheduled somewhere else than close()")
    mw = [_norm(s) for s in _strip_doc(_method(lm, "middleware").body)]
    if mw != ["return update_wrapper(self.make_middleware(func), func)"]:
        raise px.Unsupported("LocalManager.middleware changed")
    # every mention of the release entry points in the module
    n_cleanup = sum(1 for n in ast.walk(mod) if isinstance(n, ast.Attribute) and n.attr == "cleanup")
    n_rl = sum(1 for n in ast.walk(mod) if isinstance(n, ast.Name) and n.id == "release_local")
    n_dunder = sum(1 for n in ast.walk(mod) if isinstance(n, ast.Attribute) and n.attr == "__release_local__")
    n_str = sum(1 for n in ast.walk(mod) if isinstance(n, ast.Constant) and isinstance(n.value, str)
                and n.value in ("cleanup", "__release_local__", "release_local"))
    if (n_cleanup, n_rl, n_dunder, n_str) != (1, 1, 1, 0):
        raise px.Unsupported(f"cleanup / release_local / __release_local__ are mentioned {n_cleanup}/{n_rl}/{n_dunder} times "
                             f"(+{n_str} by name string) in local.py, expected 1/1/1: a release may run outside the pinned call chain")
    # wsgi.ClosingIterator: callbacks run in close() and nowhere else
    wsgi = px.load("wsgi.py")
    ci = px.find_class(wsgi, "ClosingIterator")
    meths = sorted(n.name for n in ci.body if isinstance(n, (ast.FunctionDef, ast.AsyncFunctionDef)))
    if meths != ["__init__", "__iter__", "__next__", "close"] or ci.bases or ci.decorator_list or ci.keywords:
        raise px.Unsupported(f"wsgi.ClosingIterator methods / bases changed: {meths}")
    if [_norm(s) for s in _strip_doc(_method(ci, "close").body)] != ["for callback in self._callbacks:\n    callback()"]:
        raise px.Unsupported("wsgi.ClosingIterator.close changed")
    uses = [n for n in ast.walk(wsgi) if isinstance(n, ast.Attribute) and n.attr == "_callbacks"]
    if len(uses) != 2:
        raise px.Unsupported("wsgi.ClosingIterator._callbacks is used outside __init__ / close")
    init = _method(ci, "__init__")
    for n in ast.walk(init):
        if isinstance(n, ast.Call) and _norm(n.func) not in ("iter", "t.cast", "partial", "callable", "list", "getattr",
                                                               "callbacks.insert", "callbacks.append"):
            raise px.Unsupported(f"wsgi.ClosingIterator.__init__ calls {_norm(n.func)}")
    for n in ast.walk(wsgi):
        if isinstance(n, (ast.Import, ast.ImportFrom)):
            names = [a.name for a in n.names] + [getattr(n, "module", "") or ""]
            if any(x.split(".")[0] in ("weakref", "atexit", "gc", "threading", "asyncio", "signal") for x in names):
                raise px.Unsupported(f"wsgi.py imports {names}")
    return "Definition middleware_cleanup_only_on_close : bool := true.\n"


FB_TEXT = {
    "lambda self: False": "FbFalse", "lambda self: True": "FbTrue",
    "lambda self: f'<{type(self).__name__} unbound>'": "FbUnboundRepr", "lambda self: []": "FbEmptyList",
    "lambda self: type(self).__doc__": "FbTypeDoc", "lambda self: self._LocalProxy__wrapped": "FbWrapped",
    "lambda self: type(self)": "FbTypeSelf",
}
EXN = {"AttributeError": "EAttributeError", "LookupError": "ELookupError", "RuntimeError": "ERuntimeError"}


def proxy_entries(mod: ast.Module | None = None):
    """T1: every `name = _ProxyLookup(...)` / `_ProxyIOp(...)` of LocalProxy's class body, in source order, as
    (name, has_f, fallback kind, is_attr, is_iop).  Any other statement in the class body (a special method
    defined directly on the proxy would bypass _get_current_object) fails closed."""
    mod = mod or px.load("local.py")
    lp = px.find_class(mod, "LocalProxy")
    out = []
    for n in lp.body:
        if isinstance(n, ast.Expr) and isinstance(n.value, ast.Constant) and isinstance(n.value.value, str):
            continue
        if isinstance(n, ast.Assign) and _norm(n.targets[0]) == "__slots__" and _norm(n.value) == "('__wrapped', '_get_current_object')":
            continue
        if isinstance(n, ast.AnnAssign) and _norm(n.target) == "_get_current_object" and n.value is None:
            continue
        if isinstance(n, ast.FunctionDef) and n.name == "__init__" and not n.decorator_list:
            continue
        if (isinstance(n, ast.Assign) and len(n.targets) == 1 and isinstance(n.targets[0], ast.Name)
                and isinstance(n.value, ast.Call) and isinstance(n.value.func, ast.Name)
                and n.value.func.id in ("_ProxyLookup", "_ProxyIOp")):
            call = n.value
            kw = {k.arg: k.value for k in call.keywords}
            if set(kw) - {"f", "fallback", "class_value", "is_attr"} or len(call.args) > 2:
                raise px.Unsupported(f"LocalProxy.{n.targets[0].id}: unexpected _ProxyLookup arguments")
            f = call.args[0] if call.args else kw.get("f")
            fb = call.args[1] if len(call.args) > 1 else kw.get("fallback")
            is_attr = "is_attr" in kw and px.const(kw["is_attr"]) is True
            if "is_attr" in kw and not is_attr:
                raise px.Unsupported(f"LocalProxy.{n.targets[0].id}: is_attr is not the literal True")
            kind = "FbNone" if fb is None else FB_TEXT.get(_norm(fb), "FbOther")
            out.append((n.targets[0].id, f is not None, kind, is_attr, call.func.id == "_ProxyIOp"))
            continue
        raise px.Unsupported(f"LocalProxy class body line {n.lineno}: {_norm(n)[:60]!r} is neither __init__ nor a _ProxyLookup: "
                             "an operation defined directly on the proxy does not go through _get_current_object")
    if len({e[0] for e in out}) != len(out):
        raise px.Unsupported("LocalProxy defines a proxied name twice")
    return out


def _handler(tr: ast.Try, what: str):
    if len(tr.handlers) != 1 or tr.orelse or tr.finalbody or tr.handlers[0].type is None or tr.handlers[0].name:
        raise px.Unsupported(f"{what}: try shape changed")
    return tr.handlers[0]


def _raises_unbound(stmts, what: str) -> None:
    if len(stmts) != 1 or not isinstance(stmts[0], ast.Raise) or _norm(stmts[0].exc) != "RuntimeError(unbound_message)":
        raise px.Unsupported(f"{what}: does not raise RuntimeError(unbound_message)")


def _proxy_tables(mod: ast.Module) -> str:
    """the proxy layer: T1 table of every proxied name; the four _get_current_object closures of LocalProxy.__init__
    and the exception flow of _ProxyLookup.__get__ translated to small generated terms the model interprets."""
    out = []
    ents = proxy_entries(mod)
    out.append("(* " + " ".join(f"{i}={e[0]}" for i, e in enumerate(ents)) + " *)")
    out.append("Definition proxy_table : list pentry :=\n  [" + ";\n   ".join(
        f"mkpentry {i} {str(e[1]).lower()} {e[2]} {str(e[3]).lower()} {str(e[4]).lower()}" for i, e in enumerate(ents)) + "].")
    idx = {e[0]: i for i, e in enumerate(ents)}
    for nm in ("__bool__", "__repr__", "__getattr__", "__setattr__"):
        if nm not in idx:
            raise px.Unsupported(f"LocalProxy.{nm} is not a _ProxyLookup")
        out.append(f"Definition entry_{nm.strip('_')} : nat := {idx[nm]}.")
    lp = px.find_class(mod, "LocalProxy")
    fs = {}
    for n in lp.body:
        if isinstance(n, ast.Assign) and isinstance(n.value, ast.Call) and _norm(n.value.func) == "_ProxyLookup" and n.value.args:
            fs[n.targets[0].id] = _norm(n.value.args[0])
    for nm, f in (("__bool__", "bool"), ("__repr__", "repr"), ("__getattr__", "getattr"), ("__setattr__", "setattr")):
        if fs.get(nm) != f:
            raise px.Unsupported(f"LocalProxy.{nm} no longer forwards to {f}")

    # _ProxyLookup.__get__ : try obj = instance._get_current_object() except <E>: fallback or re-raise
    pl = px.find_class(mod, "_ProxyLookup")
    get = _method(pl, "__get__")
    tries = [n for n in get.body if isinstance(n, ast.Try)]
    if len(tries) != 1:
        raise px.Unsupported("_ProxyLookup.__get__: expected one try statement")
    tr = tries[0]
    h = _handler(tr, "_ProxyLookup.__get__")
    if [_norm(s) for s in tr.body] != ["obj = instance._get_current_object()"]:
        raise px.Unsupported("_ProxyLookup.__get__: try body changed")
    out.append(f"Definition lookup_catch : exn := {EXN.get(_norm(h.type), 'EOther')}.")
    hb = [_norm(s) for s in h.body]
    if hb != ["if self.fallback is None:\n    raise", "fallback = self.fallback.__get__(instance, owner)",
              "if self.is_attr:\n    return fallback()", "return fallback"]:
        raise px.Unsupported("_ProxyLookup.__get__: handler changed")
    tail = [_norm(s) for s in get.body[get.body.index(tr) + 1:]]
    if tail != ["if self.bind_f is not None:\n    return self.bind_f(instance, obj)", "return getattr(obj, self.name)"]:
        raise px.Unsupported("_ProxyLookup.__get__: bound branch changed")
    # _ProxyIOp: the bound in-place operator calls f(obj, other), drops the result and returns <what>
    iinit = _method(px.find_class(mod, "_ProxyIOp"), "__init__")
    iops = [n for n in ast.walk(iinit) if isinstance(n, ast.FunctionDef) and n.name == "i_op"]
    if len(iops) != 1 or [a.arg for a in iops[0].args.args] != ["self", "other"]:
        raise px.Unsupported("_ProxyIOp.__init__: i_op(self, other) not found")
    ib = [_norm(x) for x in _strip_doc(iops[0].body)]
    if len(ib) != 2 or ib[0] != "f(self, other)" or ib[1] not in ("return instance", "return self"):
        raise px.Unsupported(f"_ProxyIOp i_op body {ib} not in the T2 subset (f(self, other); return instance)")
    out.append(f"Definition iop_result : iop_ret := {'RetInstance' if ib[1] == 'return instance' else 'RetObject'}.")
    for cname in ("_ProxyLookup", "_ProxyIOp"):
        init = _method(px.find_class(mod, cname), "__init__")
        for n in ast.walk(init):
            if isinstance(n, ast.Attribute) and n.attr in ("_get_current_object", "_LocalProxy__wrapped"):
                raise px.Unsupported(f"{cname}.__init__ touches the proxy's current object at definition time")

    # LocalProxy.__init__: get_name, default message, and the four closures
    init = _method(lp, "__init__")
    body = _strip_doc(init.body)
    if len(body) != 5:
        raise px.Unsupported(f"LocalProxy.__init__ has {len(body)} statements, expected 5")
    if _norm(body[0]) != "if name is None:\n    get_name = _identity\nelse:\n    get_name = attrgetter(name)":
        raise px.Unsupported("LocalProxy.__init__: get_name selection changed")
    if _norm(body[1]) != "if unbound_message is None:\n    unbound_message = 'object is not bound'":
        raise px.Unsupported("LocalProxy.__init__: default unbound message changed")
    if [_norm(x) for x in body[3:]] != ["object.__setattr__(self, '_LocalProxy__wrapped', local)",
                                        "object.__setattr__(self, '_get_current_object', _get_current_object)"]:
        raise px.Unsupported("LocalProxy.__init__: _get_current_object is no longer stored per instance")
    ident = _strip_doc(px.find_def(mod, "_identity").body)
    if [_norm(x) for x in ident] != ["return o"]:
        raise px.Unsupported("_identity changed")
    chain, node = [], body[2]
    while isinstance(node, ast.If):
        chain.append((_norm(node.test), node.body))
        node = node.orelse[0] if len(node.orelse) == 1 and isinstance(node.orelse[0], ast.If) else node.orelse
    if [c[0] for c in chain] != ["isinstance(local, Local)", "isinstance(local, LocalStack)", "isinstance(local, ContextVar)",
                                 "callable(local)"]:
        raise px.Unsupported(f"LocalProxy.__init__: dispatch chain changed: {[c[0] for c in chain]}")
    if len(node) != 1 or not isinstance(node[0], ast.Raise):
        raise px.Unsupported("LocalProxy.__init__: final else no longer raises")

    def closure(stmts, what, guard=None):
        stmts = list(stmts)
        if guard is not None:
            if not stmts or _norm(stmts[0]) != guard:
                raise px.Unsupported(f"{what}: guard changed")
            stmts = stmts[1:]
        if (len(stmts) != 1 or not isinstance(stmts[0], ast.FunctionDef) or stmts[0].name != "_get_current_object"
                or stmts[0].args.args or stmts[0].decorator_list):
            raise px.Unsupported(f"{what}: expected exactly def _get_current_object()")
        return stmts[0].body

    b = closure(chain[0][1], "Local closure",
                "if name is None:\n    raise TypeError(\"'name' is required when proxying a 'Local' object.\")")
    if len(b) != 1 or not isinstance(b[0], ast.Try) or [_norm(x) for x in b[0].body] != ["return get_name(local)"]:
        raise px.Unsupported("Local closure: body changed")
    h = _handler(b[0], "Local closure")
    _raises_unbound(h.body, "Local closure")
    out.append(f"Definition gco_local : gco_prog := GcoLocal {EXN.get(_norm(h.type), 'EOther')}.")

    b = closure(chain[1][1], "LocalStack closure")
    if (len(b) != 3 or _norm(b[0]) != "obj = local.top" or not isinstance(b[1], ast.If) or b[1].orelse
            or _norm(b[2]) != "return get_name(obj)"):
        raise px.Unsupported("LocalStack closure: body changed")
    _raises_unbound(b[1].body, "LocalStack closure")
    test = {"obj is None": "TIsNone", "not obj": "TFalsy", "obj is None or not obj": "TFalsy"}.get(_norm(b[1].test))
    if test is None:
        raise px.Unsupported(f"LocalStack closure: unbound test {_norm(b[1].test)!r} not in the T2 subset")
    out.append(f"Definition gco_stack : gco_prog := GcoStack {test}.")

    b = closure(chain[2][1], "ContextVar closure")
    if (len(b) != 2 or not isinstance(b[0], ast.Try) or [_norm(x) for x in b[0].body] != ["obj = local.get()"]
            or _norm(b[1]) != "return get_name(obj)"):
        raise px.Unsupported("ContextVar closure: body changed")
    h = _handler(b[0], "ContextVar closure")
    _raises_unbound(h.body, "ContextVar closure")
    out.append(f"Definition gco_var : gco_prog := GcoVar {EXN.get(_norm(h.type), 'EOther')}.")

    b = closure(chain[3][1], "callable closure")
    if [_norm(x) for x in b] != ["return get_name(local())"]:
        raise px.Unsupported("callable closure: body changed")
    out.append("Definition gco_call : gco_prog := GcoCall.")
    return "\n".join(out) + "\n"


def _closing_order() -> str:
    """wsgi.ClosingIterator: in which order close() runs the wrapped iterable's own close and the given callback"""
    ci = px.find_class(px.load("wsgi.py"), "ClosingIterator")
    init = _method(ci, "__init__")
    pos = None
    for n in ast.walk(init):
        if isinstance(n, ast.If) and _norm(n.test) == "iterable_close":
            body = [_norm(x) for x in n.body]
            if body == ["callbacks.insert(0, iterable_close)"]:
                pos = "[CbIterableClose; CbGiven]"
            elif body == ["callbacks.append(iterable_close)"]:
                pos = "[CbGiven; CbIterableClose]"
    if pos is None or "iterable_close = getattr(iterable, 'close', None)" not in [_norm(x) for x in init.body]:
        raise px.Unsupported("wsgi.ClosingIterator.__init__: position of the iterable's own close not recognised")
    if "self._callbacks = callbacks" not in [_norm(x) for x in init.body]:
        raise px.Unsupported("wsgi.ClosingIterator.__init__: callbacks not stored")
    return f"Definition closing_order : list close_cb := {pos}.\n"


def _abstract(cls: ast.ClassDef, translated: set, irrelevant: set) -> ast.ClassDef:
    """copy of the class with the bodies of the T3-translated methods replaced by `...` (their signatures and
    decorators stay pinned) and the bodies of methods irrelevant to the property replaced by `pass`"""
    import copy
    c = copy.deepcopy(cls)
    for n in c.body:
        if isinstance(n, ast.FunctionDef) and n.name in translated:
            n.body = [ast.Expr(ast.Constant(...))]
        elif isinstance(n, ast.FunctionDef) and n.name in irrelevant:
            n.body = [ast.Pass()]
    return _plain(c)


def _plain(node: ast.AST) -> ast.AST:
    """drop what does not matter: docstrings and annotations of every (nested) function"""
    import copy
    node = copy.deepcopy(node)
    for n in ast.walk(node):
        if isinstance(n, (ast.FunctionDef, ast.ClassDef)):
            if n.body and isinstance(n.body[0], ast.Expr) and isinstance(n.body[0].value, ast.Constant) \
                    and isinstance(n.body[0].value.value, str):
                n.body = n.body[1:] or [ast.Pass()]
        if isinstance(n, ast.FunctionDef):
            n.returns = None
            for a in n.args.args + n.args.kwonlyargs + n.args.posonlyargs + [x for x in (n.args.vararg, n.args.kwarg) if x]:
                a.annotation = None
            n.body = [x for x in n.body if not (isinstance(x, ast.AnnAssign) and x.value is None)] or [ast.Pass()]
    return node


def _statement_pins(mod: ast.Module) -> None:
    """statement skeletons (pin audit): everything in local.py - and wsgi.ClosingIterator, which the middleware model
    stands for - that the model or the oracle stands for and that is not translated, compared with tools/pins/c18_local.txt.
    Holes: the method bodies translated by T3 (`...`), and the sub-expressions translated by T2
    (<LOOKUP_CATCH>, <GCO_LOCAL_CATCH>, <GCO_STACK_TEST>, <GCO_VAR_CATCH>, <CLOSING_ORDER>)."""
    parts = []
    parts.append(px.skeleton(_plain(px.find_def(mod, "release_local"))))
    parts.append(px.skeleton(_abstract(px.find_class(mod, "Local"),
                                       {"__getattr__", "__setattr__", "__delattr__", "__iter__", "__release_local__"}, set())))
    parts.append(px.skeleton(_abstract(px.find_class(mod, "LocalStack"), {"push", "pop", "top", "__release_local__"}, set())))
    parts.append(px.skeleton(_abstract(px.find_class(mod, "LocalManager"), set(), {"__repr__"})))
    parts.append(px.skeleton(_abstract(px.find_class(mod, "_ProxyLookup"), set(), {"__repr__"}),
                             {"except RuntimeError:": "except <LOOKUP_CATCH>:"}))
    parts.append(px.skeleton(_abstract(px.find_class(mod, "_ProxyIOp"), set(), set()),
                             {"return instance": "return <IOP_RESULT>", "return self": "return <IOP_RESULT>"}))
    parts.append(px.skeleton(_plain(px.find_def(mod, "_l_to_r_op"))))
    parts.append(px.skeleton(_plain(px.find_def(mod, "_identity"))))
    lp = px.find_class(mod, "LocalProxy")
    init = _abstract(ast.ClassDef(name="LocalProxy", bases=[], keywords=[], decorator_list=[],
                                  body=[_method(lp, "__init__")]), set(), set())
    parts.append(px.skeleton(init, {"except AttributeError:": "except <GCO_LOCAL_CATCH>:",
                                    "except LookupError:": "except <GCO_VAR_CATCH>:",
                                    "if obj is None:": "if <GCO_STACK_TEST>:", "if not obj:": "if <GCO_STACK_TEST>:"}))
    parts.append("# LocalProxy class body: every other statement is an entry of the regenerated proxy_table (T1)")
    ci = px.find_class(px.load("wsgi.py"), "ClosingIterator")
    parts.append(px.skeleton(_abstract(ci, set(), set()),
                             {"callbacks.insert(0, iterable_close)": "<CLOSING_ORDER>",
                              "callbacks.append(iterable_close)": "<CLOSING_ORDER>"}))
    px.check_pin("C18", "c18_local.txt", "\n\n".join(parts) + "\n",
                 "local.py / wsgi.ClosingIterator statement skeleton (untranslated code the C18 model stands for)")


def gen_text() -> str:
    mod = px.load("local.py")
    text = ("(* GENERATED by tools/c18.py from local.py on every run - do not edit *)\n"
            "From Coq Require Import List NArith.\nImport ListNotations.\nFrom Wz Require Import C18.Lang.\n\n")
    for cname, attr, kind, methods in (("Local", "__storage", "KDict", LOCAL_METHODS),
                                       ("LocalStack", "_storage", "KList", STACK_METHODS)):
        cls = px.find_class(mod, cname)
        _check_storage_init(cls, attr)
        for mname, prop in methods:
            fn = _method(cls, mname, prop)
            tr = _Tr(cname, fn, attr, kind)
            term = tr.translate()
            ident = f"prog_{cname}_{mname.strip('_')}"
            text += f"(* {cname}.{mname}({', '.join(tr.params)}) *)\nDefinition {ident} : prog :=\n  {term}.\n"
            text += f"Definition arity_{cname}_{mname.strip('_')} : nat := {len(tr.params)}.\n\n"
        # every other method of the class that touches the storage would be outside the model
        known = {m for m, _ in methods} | {"__init__", "__call__"}
        for n in cls.body:
            if isinstance(n, ast.FunctionDef) and n.name not in known:
                for sub in ast.walk(n):
                    if isinstance(sub, ast.Attribute) and sub.attr == attr:
                        raise px.Unsupported(f"{cname}.{n.name} uses the storage and is not modelled")
        call = _method(cls, "__call__")
        last = _strip_doc(call.body)
        if [_norm(s) for s in last] != ["return LocalProxy(self, name, unbound_message=unbound_message)"]:
            raise px.Unsupported(f"{cname}.__call__ no longer returns LocalProxy(self, name, ...)")
    _pin_release_and_manager(mod)
    text += _pin_middleware(mod)
    _statement_pins(mod)
    text += _closing_order()
    text += _proxy_tables(mod)
    return text


def gen() -> None:
    px.write_if_changed(os.path.join(COQ, "C18", "Gen.v"), gen_text())


# ====================================================================== harness
import asyncio  # noqa: E402
import gc  # noqa: E402
import contextvars  # noqa: E402
import threading  # noqa: E402

NAMES = ["a", "b", "c"]
ACC = ["cur", "bool", "repr", "get", "set", "msg"]
_ENTRIES = None
EXPECTED_FB = {"__doc__": "FbTypeDoc", "__wrapped__": "FbWrapped", "__repr__": "FbUnboundRepr", "__bool__": "FbFalse",
               "__dir__": "FbEmptyList", "__class__": "FbTypeSelf"}    # the property: unbound = RuntimeError / falsy / fallback repr


def entry_names() -> list[str]:
    """the proxied names in the order of the regenerated proxy_table"""
    global _ENTRIES
    if _ENTRIES is None:
        try:
            _ENTRIES = [e[0] for e in proxy_entries()]
        except px.Unsupported:
            import werkzeug.local as wl
            _ENTRIES = [k for k, v in vars(wl.LocalProxy).items() if isinstance(v, wl._ProxyLookup)]
    return _ENTRIES
T_WAIT = 20.0


# values that are not Box objects: the singletons / interned constants for which `is` coincides across independent
# assignments, and one plain object() shared by every assignment that uses it.  Model identities >= 9000; truthy iff odd.
SHARED = object()
SINGLETONS = {9000: None, 9002: False, 9004: 0, 9006: "", 9008: (), 9011: SHARED}
NONE_ID = 9000
_TYPE_ID = {"NoneType": 9000, "bool": 9002, "int": 9004, "str": 9006, "tuple": 9008, "object": 9011}
_REPR_ID = {"None": 9000, "False": 9002, "0": 9004, "''": 9006, "()": 9008, repr(SHARED): 9011}


IOP_NAMES = ["iadd", "isub", "imul", "imatmul", "itruediv", "ifloordiv", "imod", "ipow", "ilshift", "irshift",
             "iand", "ixor", "ior"]


class Acc:
    """a target with every in-place method: records the operation and returns itself"""

    def __init__(self):
        self.log = []


def _acc_method(nm):
    def m(self, other):
        self.log.append((nm, other))
        return self
    return m


for _nm in IOP_NAMES:
    setattr(Acc, f"__{_nm}__", _acc_method(_nm))


def new_specials() -> dict:
    """targets of in-place operations through a proxy: 80xx have real in-place methods (mutated in place),
    81xx have none (the operator computes a new value, which _ProxyIOp drops)"""
    return {8001: [1], 8003: {1}, 8005: {1: 1}, 8007: Acc(),
            8101: 5, 8103: "s", 8105: (1,), 8107: frozenset({1}), 8109: 2.5}


_num = {k: 2 for k in ("iadd", "isub", "imul", "itruediv", "ifloordiv", "imod", "ipow", "ilshift", "irshift", "iand", "ixor", "ior")}
OPERAND = {}                      # (target id, operator name) -> right operand; absent = not applicable to that target
for _k, _v in _num.items():
    OPERAND[(8101, _k)] = _v
for _k in ("iadd", "isub", "imul", "itruediv", "ifloordiv", "imod", "ipow"):
    OPERAND[(8109, _k)] = 2
OPERAND.update({(8001, "iadd"): [2], (8001, "imul"): 2, (8003, "ior"): {2}, (8003, "iand"): {1, 3}, (8003, "isub"): {1}, (8003, "ixor"): {3},
                (8005, "ior"): {2: 2}, (8103, "iadd"): "x", (8103, "imul"): 2, (8105, "iadd"): (2,), (8105, "imul"): 2,
                (8107, "ior"): frozenset({2}), (8107, "iand"): frozenset({1, 3}), (8107, "isub"): frozenset({1}),
                (8107, "ixor"): frozenset({3})})
for _nm in IOP_NAMES:
    OPERAND[(8007, _nm)] = 3
_SPECIALS: dict = {}


def show(o) -> str:
    if isinstance(o, Acc):
        return repr(o.log).replace(" ", "")
    if isinstance(o, (set, frozenset)):
        return type(o).__name__ + repr(sorted(o)).replace(" ", "")
    if isinstance(o, dict):
        return repr(sorted(o.items())).replace(" ", "")
    return repr(o).replace(" ", "")


def vid(o) -> int:
    """identity of a stored value as the model names it"""
    if isinstance(o, Box):
        return o.n
    for k, v in _SPECIALS.items():
        if o is v:
            return k
    for k, v in SINGLETONS.items():
        if o is v:
            return k
    raise TypeError(f"unknown value {o!r}")


def _by_attr_error(e: AttributeError):
    """an operation forwarded to a singleton fails with the singleton's own AttributeError: which object was it"""
    import re
    m = re.match(r"'(\w+)' object has no attribute '(\w+)'", str(e))
    if m and m.group(2) != "twin" and m.group(1) in _TYPE_ID:
        return _TYPE_ID[m.group(1)]
    return None


class Box:
    """the objects stored in locals / pushed on stacks; identity n, truthy iff n is odd"""
    __slots__ = ("n", "tag", "twin")

    def __init__(self, n):
        self.n = n
        self.tag = None
        self.twin = None

    def __bool__(self):
        return self.n % 2 == 1

    def __repr__(self):
        return f"Box({self.n})"


class Env:
    def __init__(self, mod):
        self.mod = mod
        self.L = [mod.Local(), mod.Local()]
        self.S = [mod.LocalStack(), mod.LocalStack()]
        try:
            self.manager = mod.LocalManager([self.L[0], self.S[0], self.L[1], self.S[1]])
        except Exception:  # noqa: BLE001   (a changed signature must not stop the other scenarios)
            self.manager = None

        env = self

        class Body:
            """the application's response iterable; its own close() stores an object in managed local 0 (name c)"""

            def __init__(self, x):
                self.x, self.it = x, iter([b"x"])

            def __iter__(self):
                return self

            def __next__(self):
                return next(self.it)

            def close(self):
                setattr(env.L[0], NAMES[2], env.box(self.x))

        def app(environ, start_response):
            start_response("200 OK", [("Content-Type", "text/plain")])
            return Body(environ["x"]) if environ["x"] else [b"x"]
        try:
            self.wrapped = [self.manager.make_middleware(app), self.manager.middleware(app)]
        except Exception:  # noqa: BLE001
            self.wrapped = None
        self.reset()

    def reset(self):
        if not hasattr(self, "CV"):
            self.default_box = Box(DEFAULT_ID)
            self.default_box.twin = Box(DEFAULT_ID + 1001)
            self.default_box.twin.twin = Box(DEFAULT_ID + 2002)
            # bare ContextVars proxied by LocalProxy(var[, name]): number 0 has no default, number 1 has one
            self.CV = [contextvars.ContextVar("c18.cv0"), contextvars.ContextVar("c18.cv1", default=self.default_box)]
        self.default_box.tag = self.default_box.twin.tag = self.default_box.twin.twin.tag = None
        _SPECIALS.clear()
        _SPECIALS.update(new_specials())
        self.tokens = {}
        self.iters = []
        self.prox = []
        self.boxes = {DEFAULT_ID: self.default_box, DEFAULT_ID + 1001: self.default_box.twin,
                      DEFAULT_ID + 2002: self.default_box.twin.twin}
        self.tok = 0

    def box(self, n):
        if n in SINGLETONS:
            return SINGLETONS[n]
        if n in _SPECIALS:
            return _SPECIALS[n]
        b = self.boxes.get(n)
        if b is None:
            b = self.boxes[n] = Box(n)
            b.twin = self.boxes[n + 1001] = Box(n + 1001)      # the attribute a named proxy (stack("twin")) follows
            b.twin.twin = self.boxes[n + 2002] = Box(n + 2002)  # ... and a dotted one (stack("twin.twin"))
        return b

    def retrofit(self):
        """give every object a class of its own, so that __class__ / __doc__ / __wrapped__ and the AttributeError
        of a missing special method identify the object a proxied lookup was forwarded to"""
        for b in self.boxes.values():
            if type(b) is Box:
                b.__class__ = _box_class(b.n)


_BOX_CLASSES: dict = {}


def _box_class(n: int):
    c = _BOX_CLASSES.get(n)
    if c is None:
        c = _BOX_CLASSES[n] = type(f"Box{n}", (Box,), {"__slots__": (), "boxid": n, "__doc__": f"doc{n}",
                                                       "__wrapped__": ("w", n)})
    return c


def _lookup_entry(env: Env, p, name: str) -> str:
    """type(p).<name> looked up on the proxy instance, the way the interpreter finds a special method:
    which object was it forwarded to / which fallback answered"""
    import functools
    import re
    LP = env.mod.LocalProxy
    env.retrofit()
    try:
        r = vars(LP)[name].__get__(p, LP)
    except RuntimeError:
        return "rterr"
    except AttributeError as e:
        m = re.match(r"'Box(\d+)' object has no attribute", str(e))
        if m:
            return f"fwd:{m.group(1)}"
        sid = _by_attr_error(e)
        return f"fwd:{sid}" if sid is not None else "exn:AttributeError"
    if isinstance(r, functools.partial) and r.args and isinstance(r.args[0], Box):
        return f"fwd:{r.args[0].n}"
    if isinstance(r, functools.partial) and r.args and any(r.args[0] is v for v in SINGLETONS.values()):
        return f"fwd:{vid(r.args[0])}"
    owner = getattr(r, "__self__", None)
    if owner is not None and type(owner) is LP:
        v = r()                         # a fallback bound to the proxy itself: what does it answer
        if v is False:
            return "fb:FbFalse"
        if v is True:
            return "fb:FbTrue"
        if v == "<LocalProxy unbound>":
            return "fb:FbUnboundRepr"
        if v == []:
            return "fb:FbEmptyList"
        return "fb:FbOther"
    if isinstance(owner, Box):
        return f"fwd:{owner.n}"
    if isinstance(r, type) and issubclass(r, Box):
        return f"fwd:{r.boxid}"
    if r is LP:
        return "fb:FbTypeSelf"
    if isinstance(r, str) and r.startswith("doc"):
        return f"fwd:{r[3:]}"
    if r is LP.__dict__["__doc__"].class_value or (isinstance(r, str) and r == type(p).__doc__):
        return "fb:FbTypeDoc"
    if isinstance(r, tuple) and len(r) == 2 and r[0] == "w":
        return f"fwd:{r[1]}"
    if any(r is x for x in env.L + env.S):
        return "fb:FbWrapped"
    if hasattr(r, "__self__") and any(r.__self__ is v for v in SINGLETONS.values()):
        return f"fwd:{vid(r.__self__)}"
    if isinstance(r, type) and r.__name__ in _TYPE_ID:
        return f"fwd:{_TYPE_ID[r.__name__]}"
    return "fwd:any"                    # forwarded somewhere, but the result does not reveal to which singleton


def tok(step) -> str:
    c, op = step
    if op[0] == "clean":
        lst = ",".join(("s" if s else "l") + str(v) for s, v in op[1]) or "-"
        return f"{c}:clean:{lst}"
    return f"{c}:" + ":".join(str(x) for x in op)


MW_LOCALS = "l0,s0,l1,s1"          # what Env.manager manages


def mtok(step) -> str:
    """the step as the extracted model reads it: closing a middleware-wrapped iterable IS cleanup() in the closing
    context (structure pinned by the translator); wrapping and dropping are the model's no-effect steps"""
    c, op = step
    if op[0] in ("mwopen", "mwdrop"):
        return f"{c}:{op[0]}"
    return tok(step)


def mtoks(steps) -> str:
    """the schedule as the extracted model reads it: mwclose carries the managed locals and what the application's
    own close() of that iterable does (local0.c = x, from the mwopen that produced it)"""
    xs, out = [], []
    for st in steps:
        c, op = st
        if op[0] == "mwopen":
            xs.append(op[1] if len(op) > 1 else 0)
        if op[0] == "mwclose":
            x = xs[op[1]] if op[1] < len(xs) else 0
            out.append(f"{c}:mwclose:{MW_LOCALS}:" + (f"0.2.{x}" if x else "-"))
        else:
            out.append(mtok(st))
    return " ".join(out)


def untok(t: str):
    f = t.split(":")
    c, k, rest = int(f[0]), f[1], f[2:]
    if k == "clean":
        lst = [] if rest[0] == "-" else [(e[0] == "s", int(e[1:])) for e in rest[0].split(",")]
        return c, ("clean", tuple(lst))
    if k == "mkp":
        return c, ("mkp", rest[0]) + tuple(int(x) for x in rest[1:])
    if k == "px":
        return c, ("px", int(rest[0]), rest[1])
    return c, (k,) + tuple(int(x) for x in rest)


LNAMES = NAMES + ["a.twin", "a.twin.twin"]          # local("a.twin"): a dotted path starting at an attribute of the Local
PATHS = [None, "twin", "twin.twin"]                 # stack(), stack("twin"), stack("twin.twin"); same for LocalProxy(ContextVar, ...)
CV_KINDS = ("cvset", "cvreset")
DEFAULT_ID = 77                  # the object that is the `default=` of ContextVar number 1


def uses_contextvars(steps) -> bool:
    """schedules the extracted model cannot read: bare ContextVar operations, in-place operators / content observations"""
    return any(op[0] in CV_KINDS or (op[0] == "mkp" and (op[1] == "v" or op[3] >= (3 if op[1] == "l" else 2)))
               or (op[0] == "px" and (op[2] == "val" or op[2][0] == "i")) for _, op in steps)


def apply(env: Env, op, c: int = 0) -> str:
    """one operation on the real werkzeug objects, executed inside the issuing context"""
    k = op[0]
    try:
        if k == "set":
            setattr(env.L[op[1]], NAMES[op[2]], env.box(op[3]))
            return "none"
        if k == "get":
            try:
                return f"v{vid(getattr(env.L[op[1]], NAMES[op[2]]))}"
            except AttributeError:
                return "attrerr"
        if k == "del":
            try:
                delattr(env.L[op[1]], NAMES[op[2]])
                return "none"
            except AttributeError:
                return "attrerr"
        if k == "iter":
            items = list(iter(env.L[op[1]]))
            return "items:" + (",".join(f"{NAMES.index(n)}={vid(v)}" for n, v in items) or "-")
        if k == "lrel":
            env.mod.release_local(env.L[op[1]])
            return "none"
        if k == "push":
            r = env.S[op[1]].push(env.box(op[2]))
            return "obj:" + (",".join(str(vid(x)) for x in r) or "-")
        if k == "pop":
            r = env.S[op[1]].pop()
            return "none" if r is None else f"v{vid(r)}"
        if k == "top":
            r = env.S[op[1]].top
            return "none" if r is None else f"v{vid(r)}"
        if k == "srel":
            env.mod.release_local(env.S[op[1]])
            return "none"
        if k == "clean":
            env.mod.LocalManager([env.S[v] if s else env.L[v] for s, v in op[1]]).cleanup()
            return "none"
        if k == "mwopen":
            it = env.wrapped[len(env.iters) % 2]({"REQUEST_METHOD": "GET", "x": op[1] if len(op) > 1 else 0},
                                                 lambda status, headers, exc_info=None: None)
            next(it)
            env.iters.append(it)
            del it
            return "none"
        if k == "mwclose":
            if op[1] >= len(env.iters) or env.iters[op[1]] is None:
                return "invalid"
            env.iters[op[1]].close()
            return "none"
        if k == "mwdrop":
            if op[1] >= len(env.iters):
                return "invalid"
            env.iters[op[1]] = None          # the last reference goes away in THIS context
            if op[2]:
                gc.collect()
            return "none"
        if k == "cvset":
            env.tokens.setdefault((c, op[1]), []).append(env.CV[op[1]].set(env.box(op[2])))
            return "none"
        if k == "cvreset":
            stack = env.tokens.get((c, op[1]))
            if not stack:
                return "invalid"
            env.CV[op[1]].reset(stack.pop())
            return "none"
        if k == "mkp":
            kw = {"unbound_message": f"m{op[4]}"} if op[4] else {}
            if op[1] == "l":
                env.prox.append(env.L[op[2]](LNAMES[op[3]], **kw))
            elif op[1] == "v":
                env.prox.append(env.mod.LocalProxy(env.CV[op[2]], PATHS[op[3]], **kw))
            else:
                env.prox.append(env.S[op[2]](PATHS[op[3]], **kw))
            return f"proxy:{len(env.prox) - 1}"
        if k == "px":
            if op[1] >= len(env.prox):
                return "invalid"
            p, a = env.prox[op[1]], op[2]
            if a[0] == "e":
                names = entry_names()
                return _lookup_entry(env, p, names[int(a[1:])]) if int(a[1:]) < len(names) else "invalid"
            if a == "val":
                try:
                    o = p._get_current_object()
                except RuntimeError:
                    return "rterr"
                return f"val:{vid(o)}:{show(o) if 8000 <= vid(o) < 9000 else '-'}"
            if a[0] == "i":
                # name = proxy; name <op>= operand   (the statement calls type(name).__i<op>__(name, operand) and rebinds name)
                import operator
                nm = entry_names()[int(a[1:])].strip("_")
                try:
                    tid = vid(p._get_current_object())
                except RuntimeError:
                    tid = None
                if tid is not None and (tid, nm) not in OPERAND:
                    return "na"
                try:
                    r = getattr(operator, nm)(p, OPERAND[(tid, nm)] if tid is not None else 1)
                except RuntimeError:
                    return "rterr"
                return "proxy" if r is p else ("value:" + show(r))[:40]
            if a == "msg":
                try:
                    return f"v{vid(p._get_current_object())}"
                except RuntimeError as e:
                    return "msg:default" if str(e) == "object is not bound" else "msg:" + str(e)[1:]
            if a == "bool":
                return "bool:1" if bool(p) else "bool:0"
            if a == "repr":
                r = repr(p)
                if r == "<LocalProxy unbound>":
                    return "repr:unbound"
                if r in _REPR_ID:
                    return f"repr:{_REPR_ID[r]}"
                if r.startswith("<LocalProxy object at "):
                    return "repr:objectdefault"
                return "repr:" + r[4:-1] if r.startswith("Box(") else "repr?" + r
            try:
                if a == "cur":
                    return f"v{vid(p._get_current_object())}"
                if a == "get":
                    try:
                        return f"v{p.n}"
                    except AttributeError as e:       # forwarded to a singleton, which has no attribute n
                        sid = _by_attr_error(e)
                        if sid is None:
                            raise
                        return f"v{sid}"
                if a == "set":
                    env.tok += 1
                    try:
                        p.tag = env.tok
                    except AttributeError as e:
                        sid = _by_attr_error(e)
                        if sid is None:
                            raise
                        return f"v{sid}"
                    hit = [b.n for b in env.boxes.values() if b.tag == env.tok]
                    return f"v{hit[0]}" if len(hit) == 1 else f"set?{hit}"
            except RuntimeError:
                return "rterr"
        return "bad-op"
    except Exception as e:  # noqa: BLE001
        return "exn:" + type(e).__name__


# ---------------------------------------------------------------- three realisations of contexts
MUTATING = {"set", "del", "push", "pop", "lrel", "srel", "clean"}


def _freeze(o):
    return tuple((k, vid(v)) for k, v in o.items()) if isinstance(o, dict) else tuple(vid(v) for v in o)


class PayloadWatch:
    """white-box transcription of C18_cow_sound on the implementation: every dict / list object ever seen as the
    payload of a ContextVar in any context is remembered with its contents, and must never change afterwards"""

    def __init__(self, env: Env):
        self.vars = [v for v in [getattr(l, "_Local__storage", None) for l in env.L] + [getattr(s, "_storage", None) for s in env.S]
                     if isinstance(v, contextvars.ContextVar)]
        self.seen = {}

    def scan(self, ctxs):
        bad = None
        for o, fr in self.seen.values():
            if _freeze(o) != fr:
                bad = f"{type(o).__name__} {list(fr)} became {list(_freeze(o))}"
                break
        for ctx in ctxs:
            for var in self.vars:
                o = ctx.get(var)
                if o is not None and id(o) not in self.seen:
                    self.seen[id(o)] = (o, _freeze(o))
        return bad


def run_copy(env: Env, steps) -> list[str]:
    """contexts are contextvars.Context objects; a child is parent.run(copy_context)"""
    env.reset()
    ctxs = [contextvars.Context()]
    watch = PayloadWatch(env)
    outs = []
    for c, op in steps:
        if c >= len(ctxs):
            outs.append("invalid")
        elif op[0] == "spawn":
            ctxs.append(ctxs[c].run(contextvars.copy_context))
            outs.append(f"ctx:{len(ctxs) - 1}")
        elif op[0] == "thread":
            ctxs.append(contextvars.Context())
            outs.append(f"ctx:{len(ctxs) - 1}")
        else:
            r = ctxs[c].run(apply, env, op, c)
            if op[0] in MUTATING:
                bad = watch.scan(ctxs)
                if bad:
                    r += "|payload-mutated:" + bad.replace(" ", "")
            outs.append(r)
    return outs


class _Worker:
    def __init__(self):
        self.go = threading.Barrier(2)
        self.done = threading.Barrier(2)
        self.job = None
        self.res = None
        self.thread = None


def _worker_loop(w: _Worker) -> None:
    while True:
        w.go.wait(T_WAIT)
        job = w.job
        if job is None:
            w.done.wait(T_WAIT)
            return
        try:
            w.res = job()
        except BaseException as e:  # noqa: BLE001
            w.res = "exn:" + type(e).__name__
        w.done.wait(T_WAIT)


def _wcall(w: _Worker, job):
    w.job = job
    w.go.wait(T_WAIT)
    w.done.wait(T_WAIT)
    return w.res


def run_threads(env: Env, steps) -> list[str]:
    """every context is a real thread, stepped by two barriers per operation.  A child thread is started
    by its parent thread inside copy_context() (the snapshot semantics of the property); `thread` starts
    a plain thread, whose context is empty."""
    env.reset()
    root = _Worker()
    root.thread = threading.Thread(target=_worker_loop, args=(root,), daemon=True)
    root.thread.start()
    ws = [root]
    outs = []
    try:
        for c, op in steps:
            if c >= len(ws):
                outs.append("invalid")
            elif op[0] in ("spawn", "thread"):
                copy = op[0] == "spawn"

                def job(copy=copy):
                    nw = _Worker()
                    if copy:
                        ctx = contextvars.copy_context()
                        nw.thread = threading.Thread(target=ctx.run, args=(_worker_loop, nw), daemon=True)
                    else:
                        nw.thread = threading.Thread(target=_worker_loop, args=(nw,), daemon=True)
                    nw.thread.start()
                    return nw
                ws.append(_wcall(ws[c], job))
                outs.append(f"ctx:{len(ws) - 1}")
            else:
                outs.append(_wcall(ws[c], lambda op=op, c=c: apply(env, op, c)))
    finally:
        for w in ws:
            try:
                _wcall(w, None)
                w.thread.join(T_WAIT)
            except threading.BrokenBarrierError:
                pass
    return outs


async def _aworker(q) -> None:
    while True:
        job, fut = await q.get()
        if job is None:
            fut.set_result(None)
            return
        try:
            r = job()
        except BaseException as e:  # noqa: BLE001
            r = "exn:" + type(e).__name__
        fut.set_result(r)


async def _adrive(env: Env, steps) -> list[str]:
    loop = asyncio.get_running_loop()
    q0 = asyncio.Queue()
    qs = [q0]
    tasks = [loop.create_task(_aworker(q0), context=contextvars.Context())]

    async def call(c, job):
        fut = loop.create_future()
        await qs[c].put((job, fut))
        return await fut
    outs = []
    for c, op in steps:
        if c >= len(qs):
            outs.append("invalid")
        elif op[0] in ("spawn", "thread"):
            copy = op[0] == "spawn"

            def job(copy=copy):
                q = asyncio.Queue()
                if copy:
                    t = asyncio.create_task(_aworker(q))        # copies the creating task's context
                else:
                    t = loop.create_task(_aworker(q), context=contextvars.Context())
                return q, t
            q, t = await call(c, job)
            qs.append(q)
            tasks.append(t)
            outs.append(f"ctx:{len(qs) - 1}")
        else:
            outs.append(await call(c, lambda op=op, c=c: apply(env, op, c)))
    for i in range(len(qs)):
        await call(i, None)
    await asyncio.gather(*tasks)
    return outs


_LOOP = None


def run_async(env: Env, steps) -> list[str]:
    """every context is an asyncio task (create_task copies the creating task's context)"""
    global _LOOP
    if _LOOP is None:
        _LOOP = asyncio.new_event_loop()
    env.reset()
    return _LOOP.run_until_complete(_adrive(env, steps))


RUNNERS = {"copy": run_copy, "threads": run_threads, "async": run_async}


# ---------------------------------------------------------------- impl-level oracle: the property statement
def oracle(steps) -> list[str]:
    """reference model of the property: one immutable mapping / stack per (context, local); a child
    starts from the parent's values, a thread from nothing; every operation touches the issuing context only."""
    ctxs = [{}]                       # var -> tuple of pairs (mapping) or tuple of values (stack)
    prox = []
    iters = []
    outs = []

    objs = new_specials()              # the objects themselves: shared by reference between every context that holds them
    undo = {}                          # (ctx, var) -> previous bindings, for ContextVar.reset(token)
    MISSING = object()

    def bound(m, d):
        if d[0] == "l":
            if d[2] >= 3:
                # local("a.twin"), local("a.twin.twin"): attrgetter walks the path from the Local; EVERY AttributeError on the way
                # (attribute a unset, or its value has no such attribute) is caught by the Local closure: unbound
                base = dict(m.get(("l", d[1]), ())).get(0)
                return None if base is None or 8000 <= base < 10000 else base + 1001 * (d[2] - 2)
            return dict(m.get(("l", d[1]), ())).get(d[2])
        if d[0] == "v":
            # LocalProxy(ContextVar): unbound ONLY where var.get() raises LookupError - never set in this context (or its
            # ancestors at spawn time) and no default.  A variable bound to None is bound: the proxy resolves to None.
            val = m.get(("cv", d[1]), MISSING)
            if val is MISSING:
                val = DEFAULT_ID if d[1] == 1 else None
            if val is None:
                return None
            if d[2]:
                return "ERR" if 8000 <= val < 10000 else val + 1001 * d[2]   # attrgetter("twin") on None: the object's own AttributeError
            return val
        st = m.get(("s", d[1]), ())
        if not st or st[-1] == NONE_ID:         # the code: a stack proxy whose top IS None reports itself unbound
            return None
        if d[2] and 8000 <= st[-1] < 10000:
            return "ERR"
        return st[-1] + 1001 * d[2]
    for c, op in steps:
        if c >= len(ctxs):
            outs.append("invalid")
            continue
        m, k = ctxs[c], op[0]
        if k == "set":
            d = dict(m.get(("l", op[1]), ()))
            d[op[2]] = op[3]
            m[("l", op[1])] = tuple(d.items())
            outs.append("none")
        elif k == "get":
            d = dict(m.get(("l", op[1]), ()))
            outs.append(f"v{d[op[2]]}" if op[2] in d else "attrerr")
        elif k == "del":
            d = dict(m.get(("l", op[1]), ()))
            if op[2] in d:
                del d[op[2]]
                m[("l", op[1])] = tuple(d.items())
                outs.append("none")
            else:
                outs.append("attrerr")
        elif k == "iter":
            outs.append("items:" + (",".join(f"{a}={b}" for a, b in m.get(("l", op[1]), ())) or "-"))
        elif k == "lrel":
            m[("l", op[1])] = ()
            outs.append("none")
        elif k == "push":
            m[("s", op[1])] = m.get(("s", op[1]), ()) + (op[2],)
            outs.append("obj:" + ",".join(str(x) for x in m[("s", op[1])]))
        elif k == "pop":
            st = m.get(("s", op[1]), ())
            if st:
                m[("s", op[1])] = st[:-1]
                outs.append("none" if st[-1] == NONE_ID else f"v{st[-1]}")
            else:
                outs.append("none")
        elif k == "top":
            st = m.get(("s", op[1]), ())
            outs.append(f"v{st[-1]}" if st and st[-1] != NONE_ID else "none")
        elif k == "srel":
            m[("s", op[1])] = ()
            outs.append("none")
        elif k == "clean":
            for s, v in op[1]:
                m[("s" if s else "l", v)] = ()
            outs.append("none")
        elif k == "mwopen":
            iters.append(op[1] if len(op) > 1 and op[1] else True)
            outs.append("none")               # wrapping a response iterable touches no context
        elif k == "mwdrop":
            if op[1] >= len(iters):
                outs.append("invalid")
            else:
                iters[op[1]] = False
                outs.append("none")           # discarding it, wherever that happens, touches no context
        elif k == "mwclose":
            if op[1] >= len(iters) or not iters[op[1]]:
                outs.append("invalid")
                continue
            if iters[op[1]] is not True:       # the application's own close() first: local0.c = x, in the closing context
                d = dict(m.get(("l", 0), ()))
                d[2] = iters[op[1]]
                m[("l", 0)] = tuple(d.items())
            for kind, v in (("l", 0), ("s", 0), ("l", 1), ("s", 1)):
                m[(kind, v)] = ()              # ... then cleanup() - request end leaves nothing behind - in the CLOSING context only
            outs.append("none")
        elif k == "spawn":
            ctxs.append(dict(m))
            outs.append(f"ctx:{len(ctxs) - 1}")
        elif k == "thread":
            ctxs.append({})
            outs.append(f"ctx:{len(ctxs) - 1}")
        elif k == "cvset":
            undo.setdefault((c, op[1]), []).append(m.get(("cv", op[1]), MISSING))
            m[("cv", op[1])] = op[2]
            outs.append("none")
        elif k == "cvreset":
            if not undo.get((c, op[1])):
                outs.append("invalid")
                continue
            prev = undo[(c, op[1])].pop()
            if prev is MISSING:
                m.pop(("cv", op[1]), None)
            else:
                m[("cv", op[1])] = prev
            outs.append("none")
        elif k == "mkp":
            prox.append(op[1:])
            outs.append(f"proxy:{len(prox) - 1}")
        elif k == "px":
            if op[1] >= len(prox):
                outs.append("invalid")
                continue
            b, a = bound(m, prox[op[1]]), op[2]
            if b == "ERR":
                # the proxied object lacks the attribute a NAMED proxy follows: its own AttributeError comes through; only
                # repr() differs (CPython treats an AttributeError from the __repr__ descriptor as "no __repr__": object's repr)
                outs.append("repr:objectdefault" if a == "repr" else "exn:AttributeError")
            elif a == "val":
                outs.append("rterr" if b is None else f"val:{b}:{show(objs[b]) if b in objs else '-'}")
            elif a[0] == "i":
                import operator
                nm = entry_names()[int(a[1:])].strip("_")
                if b is None:
                    outs.append("rterr")            # nothing bound here: still RuntimeError, never a usable value
                elif (b, nm) not in OPERAND:
                    outs.append("na")
                else:
                    if b < 8100:                    # a real in-place method: THIS object is mutated, in every context holding it
                        objs[b] = getattr(operator, nm)(objs[b], OPERAND[(b, nm)])
                    outs.append("proxy")            # the name stays the late-bound proxy; an immutable target's binding is unchanged
            elif a[0] == "e":
                names = entry_names()
                if int(a[1:]) >= len(names):
                    outs.append("invalid")
                elif b is not None:
                    outs.append(f"fwd:{b}")           # EVERY operation is forwarded to the object bound HERE
                else:
                    fb = EXPECTED_FB.get(names[int(a[1:])])
                    outs.append(f"fb:{fb}" if fb else "rterr")
            elif a == "msg":
                mm = prox[op[1]][3]
                outs.append(f"v{b}" if b is not None else (f"msg:{mm}" if mm else "msg:default"))
            elif a == "bool":
                outs.append("bool:0" if b is None else f"bool:{b % 2}")
            elif a == "repr":
                outs.append("repr:unbound" if b is None else f"repr:{b}")
            else:
                outs.append("rterr" if b is None else f"v{b}")
        else:
            outs.append("bad-op")
    return outs


# ---------------------------------------------------------------- schedule generators
# proxy 0 = local0("a"), proxy 1 = stack0(), proxy 2 = stack0("twin", unbound_message="m5")
PREFIX = [(0, ("mkp", "l", 0, 0, 0)), (0, ("mkp", "s", 0, 0, 0)), (0, ("mkp", "s", 0, 1, 5))]


def observe(nctx: int, salt: int):
    out = []
    for c in range(nctx):
        out += [(c, ("iter", 0)), (c, ("get", 0, 0)), (c, ("top", 0)), (c, ("px", 0, ACC[(salt + c) % 6])),
                (c, ("px", 1 + (salt + c) % 2, ACC[(salt + c + 2) % 6])),
                (c, ("px", (salt + c) % 3, f"e{(salt * 31 + c * 17) % len(entry_names())}"))]
    return out


SMALL = ["seta", "dela", "push", "pop", "clean", "spawn"]
LARGE = ["seta", "setb", "dela", "lrel", "push", "pop", "srel", "clean", "spawn", "thread"]


def _mk(kind: str, n: int):
    return {"setN": ("set", 0, 0, 9000), "setF": ("set", 0, 0, 9002), "setS": ("set", 0, 0, 9011), "pushN": ("push", 0, 9000),
            "seta": ("set", 0, 0, n), "setb": ("set", 0, 1, n), "dela": ("del", 0, 0), "lrel": ("lrel", 0),
            "push": ("push", 0, n), "pop": ("pop", 0), "srel": ("srel", 0),
            "clean": ("clean", ((False, 0), (True, 0))), "spawn": ("spawn",), "thread": ("thread",)}[kind]


def enumerate_muts(alphabet, length: int, maxctx: int = 3):
    """every sequence of exactly `length` mutating steps (ctx, kind) over contexts that exist"""
    def rec(prefix, nctx):
        if len(prefix) == length:
            yield list(prefix)
            return
        for c in range(nctx):
            for k in alphabet:
                if k in ("spawn", "thread"):
                    if nctx >= maxctx:
                        continue
                    prefix.append((c, k))
                    yield from rec(prefix, nctx + 1)
                else:
                    prefix.append((c, k))
                    yield from rec(prefix, nctx)
                prefix.pop()
    yield from rec([], 1)


def inplace_schedule(e: int, tid: int):
    other = 8101 if tid != 8101 else 8103
    st = [(0, ("mkp", "l", 0, 0, 0)), (0, ("mkp", "s", 0, 0, 0)), (0, ("mkp", "v", 0, 0, 0)),
          (0, ("set", 0, 0, tid)), (0, ("push", 0, tid)), (0, ("cvset", 0, tid)),
          (0, ("spawn",)), (0, ("thread",)), (0, ("thread",)),            # 1: child (same objects), 2: own target, 3: nothing bound
          (2, ("set", 0, 0, other)), (2, ("push", 0, other)), (2, ("cvset", 0, other))]

    def look():
        return [(c, ("px", j, "val")) for c in range(4) for j in range(3)]
    st += look()
    for c, j in ((1, 0), (3, 0), (2, 0), (0, 1), (3, 1), (1, 2), (2, 2), (3, 2)):
        st.append((c, ("px", j, f"i{e}")))
        st += look()
    return st


DNALPHA = ["seta", "setN", "push", "pushN", "cvset0", "cvsetN1", "spawn", "thread"]
DN_PREFIX = [(0, ("mkp", "l", 0, 3, 0)), (0, ("mkp", "l", 0, 4, 3)), (0, ("mkp", "s", 0, 2, 0)), (0, ("mkp", "v", 0, 2, 4)),
             (0, ("mkp", "v", 1, 2, 0))]


def realise_dotted(muts):
    steps = list(DN_PREFIX)
    nctx = 1
    for i, (c, k) in enumerate(muts):
        if k in ("spawn", "thread"):
            steps.append((c, (k,)))
            nctx += 1
        elif k.startswith("cvset"):
            steps.append((c, ("cvset", int(k[-1]), NONE_ID if "N" in k else i + 1)))
        else:
            steps.append((c, _mk(k, i + 1)))
        for c2 in range(nctx):
            for j in range(5):
                steps.append((c2, ("px", j, ["cur", "bool", "repr", "get", "msg", "set"][(i + c2 + j) % 6])))
    return steps


CVALPHA = ["cvset0", "cvsetN0", "cvreset0", "cvset1", "cvsetN1", "cvreset1", "spawn", "thread"]
CV_PREFIX = [(0, ("mkp", "v", 0, 0, 0)), (0, ("mkp", "v", 1, 0, 0)), (0, ("mkp", "v", 1, 1, 4))]


def realise_cv(muts):
    steps = list(CV_PREFIX)
    nctx = 1
    for i, (c, k) in enumerate(muts):
        if k in ("spawn", "thread"):
            steps.append((c, (k,)))
            nctx += 1
        elif k.startswith("cvreset"):
            steps.append((c, ("cvreset", int(k[-1]))))
        else:
            steps.append((c, ("cvset", int(k[-1]), NONE_ID if "N" in k else i + 1)))
        for c2 in range(nctx):
            for j in range(3):
                a = ACC[(i + c2 + 2 * j) % 6] if (i + j) % 3 else f"e{(i * 31 + c2 * 17 + j * 7) % len(entry_names())}"
                steps.append((c2, ("px", j, a)))
    return steps


SGALPHA = ["setN", "setF", "setS", "seta", "dela", "pushN", "push", "pop", "spawn"]
MWALPHA = ["seta", "push", "mwopen", "mwclose", "mwdrop", "spawn", "thread"]


def realise(muts, every_step: bool, gcflag: int = 0):
    """mutating steps -> full schedule with fresh values and observations.  mwclose closes the most recently
    wrapped live iterable, mwdrop discards the oldest live one (whichever context created them); None when
    there is none (the enumeration skips such sequences)."""
    steps = list(PREFIX)
    nctx = 1
    live, nopen = [], 0
    for i, (c, k) in enumerate(muts):
        if k == "mwopen":
            live.append(nopen)
            nopen += 1
            steps.append((c, ("mwopen", (i + 1) if i % 2 == 0 else 0)))
        elif k == "mwclose":
            if not live:
                return None
            steps.append((c, ("mwclose", live[-1])))
        elif k == "mwdrop":
            if not live:
                return None
            steps.append((c, ("mwdrop", live.pop(0), gcflag)))
        else:
            steps.append((c, _mk(k, i + 1)))
        if k in ("spawn", "thread"):
            nctx += 1
        if every_step or i == len(muts) - 1:
            steps += observe(nctx, i)
    return steps


def random_schedule(rng, maxlen: int, maxctx: int):
    """all op kinds incl. explicit reads, proxy creation by any context, two locals, two stacks, three names;
    full observation of every context after every step"""
    steps = []
    nctx, nprox, val = 1, 0, 0
    live, nopen = [], 0
    n = rng.randint(1, maxlen)
    for i in range(n):
        c = rng.randrange(nctx)
        r = rng.random()
        v = 0 if rng.random() < 0.75 else 1
        if r < 0.10 and nctx < maxctx:
            op = ("spawn",) if rng.random() < 0.7 else ("thread",)
            nctx += 1
        elif rng.random() < 0.10:
            q = rng.random()
            if q < 0.4 or not live:
                live.append(nopen)
                nopen += 1
                val += 1
                op = ("mwopen", val if rng.random() < 0.6 else 0)
            elif q < 0.7:
                op = ("mwclose", rng.choice(live))
            else:
                op = ("mwdrop", live.pop(rng.randrange(len(live))), int(rng.random() < 0.15))
        elif r < 0.28:
            val += 1
            op = ("set", v, rng.randrange(3 if rng.random() < 0.3 else 2),
                  val if rng.random() < 0.8 else rng.choice([9000, 9000, 9002, 9004, 9006, 9008, 9011]))
        elif r < 0.36:
            op = ("del", v, rng.randrange(2))
        elif r < 0.40:
            op = ("get", v, rng.randrange(3))
        elif r < 0.44:
            op = ("lrel", v)
        elif r < 0.60:
            val += 1
            op = ("push", v, val if rng.random() < 0.9 else 9000)
        elif r < 0.72:
            op = ("pop", v)
        elif r < 0.75:
            op = ("srel", v)
        elif r < 0.79:
            op = ("clean", tuple((rng.random() < 0.5, rng.randrange(2)) for _ in range(rng.randint(0, 3))))
        elif r < 0.86:
            mm = rng.choice([0, 0, 3, 4])
            op = ("mkp", "l", v, rng.randrange(2), mm) if rng.random() < 0.5 else ("mkp", "s", v, rng.randrange(2), mm)
            nprox += 1
        elif nprox:
            op = ("px", rng.randrange(nprox), rng.choice(ACC) if rng.random() < 0.6 else f"e{rng.randrange(len(entry_names()))}")
        else:
            op = ("top", v)
        steps.append((c, op))
        for c2 in range(nctx):
            steps += [(c2, ("iter", 0)), (c2, ("iter", 1)), (c2, ("top", 0)), (c2, ("top", 1))]
            if nprox:
                steps.append((c2, ("px", rng.randrange(nprox), rng.choice(ACC) if rng.random() < 0.5 else f"e{rng.randrange(len(entry_names()))}")))
    return steps


def canon_model(steps, outs):
    """top / pop hand back the stored object itself: Python's None on top is observed as None, like an empty stack"""
    for k, (_, op) in enumerate(steps):
        if op[0] in ("top", "pop") and k < len(outs) and outs[k] == f"v{NONE_ID}":
            outs[k] = "none"
    return outs


def wildcard(out, exp):
    """a lookup forwarded to a singleton may not reveal which one: accept it where the reference names a singleton"""
    for k, o in enumerate(out):
        if o == "fwd:any" and k < len(exp) and exp[k].startswith("fwd:9") and len(exp[k]) == 8:
            out[k] = exp[k]
    return out


def first_diff(a, b):
    for i, (x, y) in enumerate(zip(a, b)):
        if x != y:
            return i
    return None if len(a) == len(b) else min(len(a), len(b))


def shrink(env, runner, steps):
    """greedy removal of steps while the implementation still disagrees with the oracle"""
    def bad(s):
        try:
            e = oracle(s)
            return first_diff(wildcard(RUNNERS[runner](env, s), e), e) is not None
        except Exception:  # noqa: BLE001
            return False
    cur = list(steps)
    changed = True
    while changed and len(cur) > 1:
        changed = False
        for i in range(len(cur) - 1, -1, -1):
            cand = cur[:i] + cur[i + 1:]
            if bad(cand):
                cur, changed = cand, True
    return cur


def _single_ctx_ops(rng, n: int, base: int):
    ops = []
    val = base
    for _ in range(n):
        r = rng.random()
        v = rng.randrange(2)
        if r < 0.22:
            val += 1
            ops.append(("set", v, rng.randrange(3), val))
        elif r < 0.32:
            ops.append(("del", v, rng.randrange(3)))
        elif r < 0.42:
            ops.append(("iter", v))
        elif r < 0.47:
            ops.append(("get", v, rng.randrange(3)))
        elif r < 0.65:
            val += 1
            ops.append(("push", v, val))
        elif r < 0.78:
            ops.append(("pop", v))
        elif r < 0.86:
            ops.append(("top", v))
        elif r < 0.89:
            ops.append(("clean", ((rng.random() < 0.5, v),)))
        else:
            ops.append(("px", rng.randrange(4), rng.choice(ACC[:4])))
    return ops


def free_running(chk: Check, env: Env, rng, trials: int) -> int:
    import sys
    bad = 0
    old_sw = sys.getswitchinterval()
    sys.setswitchinterval(1e-6)
    try:
        for trial in range(trials):
            mode = "threads" if trial % 2 == 0 else "async"
            env.reset()
            pre = [("mkp", "l", 0, 0, 0), ("mkp", "s", 0, 0, 0), ("mkp", "l", 1, 1, 3), ("mkp", "s", 1, 1, 0)] + _single_ctx_ops(rng, 12, 0)
            pre = [o for o in pre if o[0] != "px" or o[1] < 4]
            nchild = 3
            plans = [_single_ctx_ops(rng, 400, 100000 * (j + 1)) for j in range(nchild + 1)]   # plan 0: the parent goes on
            expected = [oracle([(0, o) for o in pre + pl])[len(pre):] for pl in plans]
            got = [None] * (nchild + 1)
            root = contextvars.Context()
            for o in pre:
                root.run(apply, env, o)
            if mode == "threads":
                start = threading.Barrier(nchild + 1)

                def body(j):
                    start.wait(T_WAIT)
                    got[j] = [apply(env, o) for o in plans[j]]
                ths = []
                for j in range(1, nchild + 1):
                    ctx = root.run(contextvars.copy_context)
                    ths.append(threading.Thread(target=ctx.run, args=(body, j), daemon=True))
                ths.append(threading.Thread(target=root.run, args=(body, 0), daemon=True))
                for t in ths:
                    t.start()
                for t in ths:
                    t.join(T_WAIT * 3)
            else:
                async def abody(j):
                    out = []
                    for o in plans[j]:
                        out.append(apply(env, o))
                        await asyncio.sleep(0)
                    got[j] = out

                async def amain():
                    loop = asyncio.get_running_loop()
                    ts = [loop.create_task(abody(j), context=root.run(contextvars.copy_context)) for j in range(1, nchild + 1)]
                    ts.append(loop.create_task(abody(0), context=root))
                    await asyncio.gather(*ts)
                global _LOOP
                if _LOOP is None:
                    _LOOP = asyncio.new_event_loop()
                _LOOP.run_until_complete(amain())
            for j in range(nchild + 1):
                d = first_diff(got[j] or [], expected[j])
                chk.case(("free", mode, trial, j), nontrivial=True)
                chk.count(f"free-running:{mode}")
                if d is not None:
                    bad += 1
                    if bad <= 3:
                        chk.fail("leak:free-running", f"[{mode}, unstepped] context {j} op {d} {plans[j][d] if d < len(plans[j]) else '?'}: observed "
                                 f"{(got[j] or ['?'] * (d + 1))[d] if got[j] and d < len(got[j]) else '?'}, its own sequential reference says {expected[j][d] if d < len(expected[j]) else '?'}",
                                 {"mode": mode, "parent_prefix": [tok((0, o)) for o in pre], "context": j,
                                  "plan": [tok((0, o)) for o in plans[j][:d + 1]],
                                  "note": "children start from copy_context() of the parent after parent_prefix and run concurrently; "
                                          "the interleaving is chosen by the interpreter / event loop"})
    finally:
        sys.setswitchinterval(old_sw)
    return bad


CORPUS = [
    [(0, "seta"), (0, "spawn"), (1, "seta"), (1, "dela")],
    [(0, "push"), (0, "spawn"), (1, "push"), (1, "pop"), (1, "pop")],
    [(0, "seta"), (0, "push"), (0, "spawn"), (1, "clean")],
    [(0, "spawn"), (0, "seta"), (0, "push"), (1, "setb"), (0, "thread")],
    [(0, "seta"), (0, "spawn"), (0, "spawn"), (1, "dela"), (2, "setb")],
]


MW_CORPUS = [
    # request in ctx 1 (data, wrap, close), then ctx 2 stores data and A's finished iterable is dropped while ctx 2 runs
    [(0, "spawn"), (0, "spawn"), (1, "seta"), (1, "push"), (1, "mwopen"), (1, "mwclose"), (2, "seta"), (2, "push"), (2, "mwdrop")],
    # never closed by the server, dropped in a sibling thread-like (empty) context holding data
    [(0, "thread"), (0, "seta"), (0, "mwopen"), (1, "seta"), (1, "push"), (1, "mwdrop")],
    # dropped in the parent, which holds data, after the child request finished
    [(0, "seta"), (0, "push"), (0, "spawn"), (1, "mwopen"), (1, "mwclose"), (0, "mwdrop")],
    # closed in another context than the one that wrapped it: releases the CLOSING context only
    [(0, "seta"), (0, "spawn"), (0, "mwopen"), (1, "push"), (1, "mwclose"), (0, "mwdrop")],
]


def other_proxy_kinds(chk: Check, wl) -> None:
    """harness-only (no werkzeug storage code involved, only the contextvars contract): proxies to a bare ContextVar
    and to a callable resolve in the accessing context; closures gco_var / gco_call are regenerated and pinned"""
    cv = contextvars.ContextVar("c18.cv")
    ns, stk = wl.Local(), wl.LocalStack()
    p_cv, p_tw = wl.LocalProxy(cv), wl.LocalProxy(cv, "twin", unbound_message="nothing here")
    p_fn = wl.LocalProxy(lambda: stk.top)
    p_fd = wl.LocalProxy(lambda: stk.top, "twin.twin")       # callable + dotted name
    b1, b2 = Box(1), Box(2)
    b1.twin, b2.twin = Box(1002), Box(1003)
    b1.twin.twin, b2.twin.twin = Box(2003), Box(2004)

    def obs():
        out = []
        for p in (p_cv, p_tw, p_fn):
            try:
                o = p._get_current_object()
                out.append("none" if o is None else f"v{o.n}")
            except RuntimeError as e:
                out.append("rterr:" + str(e))
        try:
            out.append(f"v{p_fd._get_current_object().n}")
        except AttributeError:
            out.append("attrerr")          # stk.top is None here: None has no attribute twin (a callable proxy does not catch it)
        return out + [bool(p_cv), repr(p_cv)]
    a = contextvars.Context()

    def in_a():
        cv.set(b1)
        stk.push(b1)
    a.run(in_a)
    child = a.run(contextvars.copy_context)

    def in_child():
        cv.set(b2)
        stk.push(b2)
    got = {"sibling": contextvars.Context().run(obs), "child-at-birth": child.run(obs)}
    child.run(in_child)
    got["child-after-set"] = child.run(obs)
    got["parent-after-child-set"] = a.run(obs)
    res = []
    th = threading.Thread(target=lambda: res.append(obs()))
    th.start()
    th.join(T_WAIT)
    got["new-thread"] = res[0] if res else None
    unbound = ["rterr:object is not bound", "rterr:nothing here", "none", "attrerr", False, "<LocalProxy unbound>"]
    want = {"sibling": unbound, "new-thread": unbound,
            "child-at-birth": ["v1", "v1002", "v1", "v2003", True, "Box(1)"],
            "child-after-set": ["v2", "v1003", "v2", "v2004", False, "Box(2)"],
            "parent-after-child-set": ["v1", "v1002", "v1", "v2003", True, "Box(1)"]}
    for k in want:
        chk.case(("other-proxy", k), nontrivial=True)
        if got[k] != want[k]:
            chk.fail("proxy:contextvar-or-callable", f"LocalProxy(ContextVar) / LocalProxy(callable) in context {k}: observed {got[k]}, "
                     f"the accessing context's own binding gives {want[k]}", {"context": k, "observed": got[k], "expected": want[k]})


def schedules(rng, quick: bool, exh: dict):
    """generator of (runner, steps): corpus, exhaustive enumerations, random; fills `exh` with the measured sizes"""
    # corpus first: the schedules that expose a removed copy() / release leaking upward, and minimised past failures
    for m in CORPUS:
        for r in RUNNERS:
            yield r, realise(m, True)
    cdir = os.path.join(os.path.dirname(COQ), "corpus", "C18")
    if os.path.isdir(cdir):
        for fn in sorted(os.listdir(cdir)):
            if fn.endswith(".txt"):
                with open(os.path.join(cdir, fn)) as fh:
                    for line in fh:
                        line = line.split("#")[0].strip()
                        if line:
                            for r in RUNNERS:
                                yield r, [untok(t) for t in line.split()]
    # middleware glue (DESIGN 6/C18, seeded change C18-middleware-finalizer-cleanup): a response iterable wrapped by
    # LocalManager.make_middleware in one context, properly closed there or not, outlives that context and is dropped /
    # garbage-collected inside ANOTHER context that holds data in the managed locals: that context's view must not change
    for m in MW_CORPUS:
        for g in (0, 1):
            for r in RUNNERS:
                yield r, realise(m, True, g)
    # EVERY proxied operation (each entry of the regenerated table) on each kind of proxy, in a context where the
    # object is bound (child of the creator) and in one where nothing is (a fresh thread), in all three realisations
    for e in range(len(entry_names())):
        st = list(PREFIX) + [(0, ("set", 0, 0, 1)), (0, ("push", 0, 2)), (0, ("spawn",)), (0, ("thread",)), (1, ("push", 0, 4))]
        for c in (0, 1, 2):
            for i in (0, 1, 2):
                st.append((c, ("px", i, f"e{e}")))
        for r in RUNNERS:
            yield r, st
    exh["proxy_entries"] = dict(entries=len(entry_names()), schedules=3 * len(entry_names()),
                                observation="every entry x 3 proxies (local attr, stack top, stack top.twin) x 3 contexts, all runners")
    # values that are not fresh objects: None (an ordinary value of an attribute; on top of a stack it makes stack proxies
    # unbound), False, and one object shared by every assignment - the values for which `is` coincides across assignments
    L_sg = 4 if quick else 5
    n = 0
    for ln in range(1, L_sg + 1):
        for m in enumerate_muts(SGALPHA, ln):
            if not any(k in ("setN", "setF", "setS", "pushN") for _, k in m):
                continue
            st = realise(m, True)
            for r in (RUNNERS if ln <= 2 else ("copy",)):
                n += 1
                yield r, st
    exh["singleton_values"] = dict(alphabet=SGALPHA, max_len=L_sg, contexts=3, schedules=n,
                                   observation="all contexts after every step (iter, getattr, top, proxies); all runners up to length 2")
    # LocalProxy over a bare ContextVar (number 0 without, number 1 WITH a default): set to an object, set to None (bound:
    # resolves to None), set then reset(token); siblings / child / parent / fresh thread; oracle-only
    L_cv = 4          # (thorough: the same; length 5 alone added 15 minutes of oracle-only schedules)
    n = 0
    for ln in range(1, L_cv + 1):
        for m in enumerate_muts(CVALPHA, ln):
            st = realise_cv(m)
            for r in (RUNNERS if ln <= 3 else ("copy",)):
                n += 1
                yield r, st
    exh["contextvar_proxies"] = dict(alphabet=CVALPHA, max_len=L_cv, contexts=3, schedules=n,
                                     observation="3 proxies (var0, var1 with default, var1.twin) x rotating access in every context "
                                                 "after every step; all runners up to length 3; implementation vs oracle only")
    # in-place operators through a proxy: every _ProxyIOp entry x every target kind (with real in-place methods: list,
    # set, dict, a class defining them all; without: int, str, tuple, frozenset, float), through a Local, a LocalStack
    # and a ContextVar proxy, issued by a child sharing the object, a thread with its own target, a thread with nothing
    n = 0
    for e, nm in enumerate(entry_names()):
        if nm.strip("_") not in IOP_NAMES:
            continue
        for tid in sorted(new_specials()):
            if (tid, nm.strip("_")) not in OPERAND:
                continue
            st = inplace_schedule(e, tid)
            for r in RUNNERS:
                n += 1
                yield r, st
    exh["inplace_through_proxy"] = dict(schedules=n, observation="result is the proxy; content of the target object and what every "
                                        "context resolves to, after every in-place operation; implementation vs oracle only")
    # dotted names: local("a.twin"), local("a.twin.twin"), stack("twin.twin"), LocalProxy(ContextVar, "twin.twin") resolve to
    # obj.twin.twin of the object bound in the accessing context; unbound iff nothing is bound; oracle-only
    L_dn = 3          # (thorough: the same)
    n = 0
    for ln in range(1, L_dn + 1):
        for m in enumerate_muts(DNALPHA, ln):
            st = realise_dotted(m)
            for r in RUNNERS:
                n += 1
                yield r, st
    exh["dotted_names"] = dict(alphabet=DNALPHA, max_len=L_dn, contexts=3, schedules=n,
                               observation="5 dotted-name proxies x rotating access in every context after every step; all runners")
    L_mw = 5 if quick else 6
    n = 0
    for ln in range(1, L_mw + 1):
        for m in enumerate_muts(MWALPHA, ln):
            if not any(k == "mwdrop" or k == "mwclose" for _, k in m):
                continue
            st = realise(m, True, int(ln <= 2))
            if st is None:
                continue
            for r in (RUNNERS if ln <= 3 else ("copy",)):
                n += 1
                yield r, st
    exh["middleware"] = dict(alphabet=MWALPHA, max_len=L_mw, contexts=3, schedules=n,
                             observation="all contexts after every step; all three runners up to length 3; gc.collect() after the "
                                         "drop up to length 2 and in the corpus scenarios")
    # exhaustive: every interleaving, prefix-closed (every length up to the bound, every context fully observed at
    # the end, so every prefix is observed, without intermediate reads) ...
    L_small, L_large = (5, 4) if quick else (6, 5)
    for name, alpha, L in (("small", SMALL, L_small), ("large", LARGE, L_large)):
        n = 0
        for ln in range(1, L + 1):
            for m in enumerate_muts(alpha, ln):
                n += 1
                yield "copy", realise(m, False)
        exh[name] = dict(alphabet=alpha, max_len=L, contexts=3, schedules=n, observation="all contexts after the last step")
    # ... and with every context observed after every step, in all three realisations
    L_every = 3 if quick else 4
    n = 0
    for ln in range(1, L_every + 1):
        for m in enumerate_muts(SMALL, ln):
            s = realise(m, True)
            for r in RUNNERS:
                n += 1
                yield r, s
    for m in enumerate_muts(SMALL, L_every + 1):
        n += 1
        yield "copy", realise(m, True)
    exh["every_step_all_runners"] = dict(alphabet=SMALL, max_len=L_every, contexts=3, schedules=n,
                                         observation="all contexts after every step",
                                         note=f"plus length {L_every + 1} with the copy_context runner only")
    # random, to 40 explicit steps, each followed by a full observation round
    n_rand = dict(copy=3000, threads=250, **{"async": 800}) if quick else dict(copy=40000, threads=3000, **{"async": 10000})
    for r, n in n_rand.items():
        for _ in range(n):
            yield r, random_schedule(rng, 40, 4 if rng.random() < 0.3 else 3)


def run(chk: Check) -> None:
    import collections
    import itertools
    import time

    import werkzeug.local as wl

    env = Env(wl)
    rng = chk.rng
    quick = chk.tier == "quick"
    runtime = [k for k, v in vars(wl.LocalProxy).items() if isinstance(v, wl._ProxyLookup)]
    special = sorted(k for k, v in vars(wl.LocalProxy).items() if k.startswith("__") and k.endswith("__") and callable(v)
                     and not isinstance(v, wl._ProxyLookup) and k not in ("__init__",))
    if runtime != entry_names() or special:
        chk.broken("correspondence", "regenerated proxy_table vs LocalProxy at run time",
                   f"table/runtime differ: {sorted(set(runtime) ^ set(entry_names()))}; special methods defined directly on the proxy: {special}")
    try:
        other_proxy_kinds(chk, wl)
    except Exception as e:  # noqa: BLE001
        chk.broken("harness", "other_proxy_kinds", f"{type(e).__name__}: {e}")
    kinds = collections.Counter()
    exh: dict = {}
    st = dict(n=0, bad=0, mism=0, spec_mism=0, first_bad=None, t_impl=0.0, t_model=0.0, samples=[])
    exe = chk.build_modelrun("C18")

    def process(chunk) -> None:
        t0 = time.time()
        gc.collect()
        gc.freeze()            # the schedules themselves are not garbage: keeps the gc.collect() of mwdrop steps cheap
        try:
            process_(chunk, t0)
        finally:
            gc.unfreeze()

    def process_(chunk, t0) -> None:
        impl_outs, orc_outs = [], []
        for runner, steps in chunk:
            try:
                out = RUNNERS[runner](env, steps)
            except Exception as e:  # noqa: BLE001
                chk.broken("harness", f"runner {runner}", f"{type(e).__name__}: {e}", case={"steps": [tok(s) for s in steps]})
                out = ["runner-failed"] * len(steps)
            exp = oracle(steps)
            wildcard(out, exp)
            impl_outs.append(out)
            orc_outs.append(exp)
            d = first_diff(out, exp)
            if d is not None:
                st["bad"] += 1
                if st["first_bad"] is None:
                    st["first_bad"] = (runner, steps, d)
                if st["bad"] <= 12:
                    opk = steps[d][1][0] if d < len(steps) else "?"
                    what = (f"[{runner}] step {d} ({tok(steps[d]) if d < len(steps) else '?'}): implementation observed "
                            f"{out[d] if d < len(out) else '?'}, one-immutable-value-per-context reference says "
                            f"{exp[d] if d < len(exp) else '?'}")
                    key = "cow:payload-mutated" if d < len(out) and "|payload-mutated" in out[d] else (
                        ("proxy:" if opk == "px" else "leak:") + opk)
                    if opk == "px" and any(op[0] == "mkp" and op[3] >= (3 if op[1] == "l" else 2) for _, op in steps):
                        key = "proxy:dotted-name"
                    elif opk == "px" and any(op[0] == "px" and op[2][0] == "i" and op[2] != "iter" for _, op in steps[:d + 1]):
                        key = "proxy:inplace"           # name op= x through a proxy: result / target / other contexts
                    elif opk == "px" and any(op[0] in CV_KINDS or (op[0] == "mkp" and op[1] == "v") for _, op in steps):
                        key = "proxy:contextvar"
                    if any(op[0] in ("mwdrop", "mwopen") for _, op in steps[:d + 1]) and key.startswith("leak:"):
                        key = "middleware-" + key
                    elif key.startswith("leak:") and not any(op[0] in ("spawn", "thread") for _, op in steps[:d + 1]):
                        key = "binding:" + opk      # wrong in the one context that exists: a binding lost / invented, not a leak
                    st.setdefault("first_bad_key", key)
                    chk.fail(key, what,
                             {"runner": runner, "steps": [tok(s) for s in steps], "bad_step": d,
                              "impl": out[max(0, d - 3):d + 1], "expected": exp[max(0, d - 3):d + 1]})
            nctx = 1
            for _, op in steps:
                kinds[op[0]] += 1
                if op[0] in ("spawn", "thread"):
                    nctx += 1
            chk.case((runner, tuple(steps)), nontrivial=nctx >= 2)
            chk.count(f"runner:{runner}")
            chk.count(f"contexts:{nctx}")
            if st["n"] in (0, 200, 60000) or (runner != "copy" and len(st["samples"]) < 5 and st["n"] % 97 == 0):
                st["samples"].append({"runner": runner, "steps": " ".join(tok(s) for s in steps[:14]) + " ...",
                                      "impl": " ".join(out[:14]) + " ..."})
            st["n"] += 1
        st["t_impl"] += time.time() - t0
        # extracted world model running the regenerated programs (g) and extracted reference model (s)
        if not exe:
            return
        t0 = time.time()
        # (schedules with bare ContextVar operations are oracle-only: no werkzeug storage code is involved in them)
        keep = [i for i, (_, steps) in enumerate(chunk) if not uses_contextvars(steps)]
        body = [mtoks(chunk[i][1]) for i in keep]
        res = chk.run_model(exe, ["g " + b for b in body] + ["s " + b for b in body])
        if res is None:
            return
        n = len(keep)
        st["oracle_only"] = st.get("oracle_only", 0) + len(chunk) - n
        for j, i in enumerate(keep):
            runner, steps = chunk[i]
            g, s = canon_model(steps, res[j].split(" ")), canon_model(steps, res[n + j].split(" "))
            if g != impl_outs[i]:
                st["mism"] += 1
                if st["mism"] <= 3:
                    d = first_diff(g, impl_outs[i])
                    chk.broken("correspondence", "C18 world model (generated programs) vs werkzeug.local",
                               f"[{runner}] step {d} {tok(steps[d]) if d is not None and d < len(steps) else '?'}: impl "
                               f"{impl_outs[i][d] if d is not None and d < len(impl_outs[i]) else '?'} model "
                               f"{g[d] if d is not None and d < len(g) else '?'}",
                               case={"runner": runner, "steps": [tok(x) for x in steps], "bad_step": d})
            if s != orc_outs[i]:
                st["spec_mism"] += 1
                if st["spec_mism"] <= 3:
                    d = first_diff(s, orc_outs[i])
                    chk.broken("oracle-vs-spec", "Python oracle vs extracted reference model (srun)",
                               f"step {d}: oracle {orc_outs[i][d] if d is not None and d < len(orc_outs[i]) else '?'} spec "
                               f"{s[d] if d is not None and d < len(s) else '?'}",
                               case={"steps": [tok(x) for x in steps], "bad_step": d})
        st["t_model"] += time.time() - t0

    it = schedules(rng, quick, exh)
    while True:
        chunk = list(itertools.islice(it, 25000))
        if not chunk:
            break
        process(chunk)

    if st["first_bad"] is not None:
        runner, steps, d = st["first_bad"]
        small = shrink(env, runner, steps)
        o, e = RUNNERS[runner](env, small), oracle(small)
        wildcard(o, e)
        dd = first_diff(o, e)
        chk.failures.insert(0, {"key": st.get("first_bad_key", chk.failures[0]["key"]), "what": "shrunk: " + (
            f"[{runner}] step {dd} ({tok(small[dd])}): implementation {o[dd]}, reference {e[dd]}"
            if dd is not None and dd < len(small) else "?"),
            "input": {"runner": runner, "steps": [tok(s) for s in small], "bad_step": dd, "impl": o, "expected": e}})
    # ------------------------------------------------ free-running contexts (real preemption / event-loop order)
    # a parent prepares state, children start from its snapshot and then run WITHOUT stepping; whatever the
    # interleaving, each context must behave exactly like the sequential reference run of its own operations
    t1 = time.time()
    st["bad"] += free_running(chk, env, rng, trials=(80 if quick else 1500))
    chk.notes.append(f"free-running trials: {time.time() - t1:.1f}s")
    chk.count("schedules-disagreeing-with-oracle", st["bad"])
    for k, v in kinds.items():
        chk.count(f"op:{k}", v)
    chk.cov["exhaustive"] = True
    chk.cov["exhaustive_detail"] = exh
    chk.cov["samples"] = st["samples"][:8]
    chk.notes.append(f"implementation + oracle over {st['n']} schedules: {st['t_impl']:.1f}s; extracted models (generated "
                     f"programs and reference) on the same schedules + comparison: {st['t_model']:.1f}s")
    if exe:
        res = chk.run_model(exe, ["cow"])
        if res is not None and res[0] != "true":
            chk.broken("proof", "cow_safe on the regenerated programs (extracted evaluation)", f"cow_safe_all gen_methods = {res[0]}")
        chk.count("model:compared", st["n"] - st.get("oracle_only", 0))
        chk.count("oracle-only (bare ContextVar proxies)", st.get("oracle_only", 0))
        chk.count("model:mismatches", st["mism"])
        chk.count("spec:mismatches", st["spec_mism"])

    # design note (DESIGN.md 8 / C18): push returns the live stored list; not part of the property's op set
    def probe():
        s = wl.LocalStack()
        r = s.push(1)
        return r is s._storage.get()
    live = contextvars.Context().run(probe)
    chk.notes.append(f"observation: LocalStack.push returns the live stored list: {live} (a caller mutating it would change what "
                     "children spawned later see; outside the property's operation set, recorded only)")
    if _LOOP is not None:
        _LOOP.close()


def replay(rep) -> int:
    import werkzeug.local as wl
    inp = rep.get("input") or (rep.get("broken") or [{}])[0].get("case") or {}
    if "steps" not in inp:
        print("nothing to replay (broken obligation without a schedule):", rep.get("no_longer_checks"))
        return 0
    steps = [untok(t) for t in inp["steps"]]
    runner = inp.get("runner", "copy")
    env = Env(wl)
    out, exp = RUNNERS[runner](env, steps), oracle(steps)
    bad = 0
    for i, (s, o, e) in enumerate(zip(steps, out, exp)):
        flag = "" if o == e else "   <-- differs from the reference model"
        bad += o != e
        print(f"{i:3d} {tok(s):24s} impl={o:18s} reference={e}{flag}")
    print(f"[{runner}] {bad} differing observations")
    return 1 if bad else 0


def _forbidden_scan(chk: Check) -> None:
    """the forbidden-vernacular scan of vlib.Check.forbidden_scan, restricted to what C18's theorems can depend on
    (coq/C18 and coq/lib), so that another property's work in progress cannot fail this check"""
    import glob
    import re

    from .vlib import FORBIDDEN
    bad = []
    for d in ("C18", "lib"):
        for path in glob.glob(os.path.join(COQ, d, "*.v")):
            with open(path, encoding="utf-8") as f:
                txt = re.sub(r"\(\*.*?\*\)", "", f.read(), flags=re.S)
            bad += [f"{os.path.relpath(path, COQ)}: {m.group(0)}" for m in FORBIDDEN.finditer(txt)]
    if bad:
        chk.broken("forbidden-vernacular", "coq sources", "; ".join(bad[:10]))


def main(chk: Check) -> None:
    try:
        gen()
    except px.Unsupported as e:
        chk.broken("translator", "C18/Gen.v", str(e))
    _forbidden_scan(chk)
    import time
    t0 = time.time()
    chk.coq_make(["C18/Extract.vo"])                     # the model first, so it runs even when a proof breaks
    if chk.coq_make(["C18/Isolation.vo"]):
        chk.cov["obligations"] += 18                     # 9 cow_safe examples + 9 refinement lemmas, re-proved on Gen.v
        chk.cov["discharged"] += 18
        chk.audit_props("C18/Props.v")
    else:
        chk.cov["obligations"] += 19
    chk.trusted += [
        "translator tools/c18.py (T3: method bodies of Local / LocalStack -> heap programs, statement subset only; pins "
        "release_local, LocalManager.cleanup, __call__, the _ProxyLookup fallback table, __get__ and the two "
        "_get_current_object closures structurally)",
        "contextvars contract: a context is an immutable map ContextVar -> object reference; copy_context / create_task "
        "snapshot it; a new thread / Context() is empty; ContextVar.set rebinds in the current context only",
        "dict / list primitive semantics of coq/C18/Lang.v (get with fresh default, copy, [:-1], item set / del, append, pop), "
        "validated by differential execution",
        "hand-written model of the LocalProxy / _ProxyLookup layer for __bool__, __repr__, __getattr__, __setattr__, "
        "_get_current_object (Model.gco / proxy_out), validated by differential execution",
        "statement pins tools/pins/c18_local.txt: every function / class of local.py the model stands for that is not translated "
        "(release_local; Local / LocalStack __slots__, __init__, __call__ and the signatures of the T3 methods; LocalManager; "
        "_ProxyLookup; _ProxyIOp; _l_to_r_op; _identity; LocalProxy.__init__) and wsgi.ClosingIterator, with holes where T2/T3 "
        "translate; the function argument f of each proxy_table entry (operator.add, ...) is not pinned: which built-in an entry "
        "forwards to is outside this property, only that it is forwarded to the current context's object",
        "validated differentially only (CPython library code, not werkzeug code, so no pin): contextvars.ContextVar / Context / "
        "copy_context, threading and asyncio context inheritance, dict / list methods, functools.partial, operator.attrgetter, "
        "functools.update_wrapper",
        "extraction ExtrOcamlBasic + tools/conv.ml + coq/C18/driver.ml, OCaml 4.13.1",
        "granularity: one Local / LocalStack method call is one step; preemption inside a call is covered only by "
        "C18_cow_sound (no existing cell is written), not exhibited by the harness",
    ]
    chk.notes.append(f"coq build + Print Assumptions audit: {time.time() - t0:.1f}s")
    run(chk)
    chk.finish(rule="schedules over <= 3 (random: <= 4) contexts created by spawn (snapshot) / thread (empty) steps inside the "
                    "schedule, so siblings, parent/child and chains all occur: exhaustive prefix-closed enumeration of mutating "
                    "steps (see coverage.exhaustive) with proxies created by context 0 and every context observed (iter, top, two "
                    "proxies with rotating access kind); random schedules to 40 explicit steps over all op kinds, each followed by "
                    "an observation round; realised with contextvars.copy_context().run, with real threads stepped by barriers, and "
                    "with asyncio tasks; every observation compared with the Python reference oracle and with the extracted Coq "
                    "models. Non-trivial = at least two contexts; distinct by (runner, schedule).")
