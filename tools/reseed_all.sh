#!/bin/sh
# tools/reseed_all.sh [ids...] : run every stored seeded change against its property's quick check (scratch worktree, /repo untouched)
# and record the outcome in seeded/<id>/meta.json ("current_result") and seeded/RESULTS.md
cd /verif || exit 2
IDS="${*:-$(ls seeded | grep -v RESULTS.md)}"
for id in $IDS; do
  d=seeded/$id; [ -f $d/patch.diff ] || continue
  pid=$(python3 -c "import json;print(json.load(open('$d/meta.json')).get('check_property') or json.load(open('$d/meta.json'))['property'])")
  out=$(SKIP_TESTS=1 tools/trymutant.sh $pid $d/patch.diff $d/demo.py 2>&1)
  if echo "$out" | grep -q "^VIOLATION.*no-failing-input-found"; then res="reported: broken obligation, no-failing-input-found";
  elif echo "$out" | grep -q "^VIOLATION"; then res="caught: VIOLATION with a concrete failing input";
  elif echo "$out" | grep -q "done rc=0"; then res="MISSED (check exits 0)";
  else res="ERROR: $(echo "$out" | tail -1 | cut -c1-100)"; fi
  demo=$(echo "$out" | grep -c "demo on mutant: exit 1")
  python3 - "$d/meta.json" "$res" "$pid" "$demo" <<'PY'
import json,sys
f,res,pid,demo=sys.argv[1:5]
m=json.load(open(f)); m["current_result"]=f"./check {pid} --tier quick -> {res}" + ("" if demo=="1" else " (demo did not fail on the mutant!)")
json.dump(m,open(f,"w"),indent=1)
PY
  echo "$id [$pid]: $res"
done
python3 - <<'PY'
import json,glob,os
rows=[]
for f in sorted(glob.glob('/verif/seeded/*/meta.json')):
    m=json.load(open(f)); rows.append((os.path.basename(os.path.dirname(f)), m.get('current_result','(not re-run)')))
open('/verif/seeded/RESULTS.md','w').write("# Seeded changes: latest outcome of each property's quick check\n\n| id | outcome |\n|---|---|\n"+"\n".join(f"| `{a}` | {b} |" for a,b in rows)+"\n")
PY
