"""C07  No client-controlled header or query text can crash request parsing."""
from __future__ import annotations

import ast
import io
import json
import os
import re
import sys

from . import pyextract as px
from .vlib import COQ, Check, ImplTimeout, cps, uncps, with_timeout
from . import c06 as c06mod

PID = "C07"
CLAIM = dict(
    text="Coq theorems (44; all closed under the global context): totality, in an explicit exception monad with every partial Python "
         "primitive marked (indexing, int() with the 4300-digit limit, str.encode / bytes.decode, base64.b64decode on non-ASCII text, "
         ".groups() of a failed match, tuple unpacking, constructor validation, dict[key], urlsplit(...).port), of parse_options_header, "
         "parse_list_header, parse_dict_header, parse_set_header, parse_etags, parse_range_header, parse_content_range_header, parse_age, "
         "both parse_cookie levels, Authorization / WWWAuthenticate.from_header, the loop of parse_accept_header (exact float thresholds "
         "for q), get_content_length and the query-string decoding of Request.args / full_path: the result is never an unrelated "
         "exception and never OutOfFuel (each loop has a progress lemma); the port of the reconstructed URL is refuted (Host x:abc) "
         "with a partial theorem under an explicit guard. The except clauses and decode modes of the repaired code are regenerated from "
         "the source, so narrowing one breaks the proof. Hostile-input fuzzing (~225k evaluations per quick run) of every parser named in "
         "the property and every public Request attribute compares value-or-exception-class with the model where there is one, under a "
         "per-call wall-clock watchdog, with the oracle: documented result type or a werkzeug HTTPException.",
    note="Trusted: Coq kernel; translator tools/c07.py; extraction + driver; the C06 and C13 models (validated differentially); "
         "binascii.a2b_base64 (non-strict) and urlsplit's netloc/port hand-modelled from their algorithms; str.lower on Latin-1; "
         "email.utils date parsing, float() beyond the q thresholds, Accept matching / sorting and codecs.lookup, the idna codec, "
         "ipaddress and NFKC checks inside urlsplit, the form/multipart parser and json are exercised by the harness only. "
         "Termination of the implementation is observed with a wall-clock limit. Known findings kept: Request.url & co. raise ValueError "
         "for a malformed port or bracket in Host.",
    design="6/C07")


# ====================================================================== translator

EXC_MAP = {
    "ValueError": "is_value_error", "UnicodeError": "is_unicode_error", "UnicodeDecodeError": "is_unicode_error",
    "UnicodeEncodeError": "is_unicode_error", "binascii.Error": "is_binascii_error", "TypeError": "is_type_error",
    "OverflowError": "is_overflow_error", "LookupError": "is_lookup_error", "KeyError": "is_key_error", "IndexError": "is_index_error",
}


def _handler_pred(h: ast.ExceptHandler, where: str) -> str:
    if h.type is None:
        return "(fun _ => true)"
    elts = h.type.elts if isinstance(h.type, ast.Tuple) else [h.type]
    preds = []
    for e in elts:
        name = ast.unparse(e)
        if name in ("Exception", "BaseException"):
            return "(fun _ => true)"
        if name not in EXC_MAP:
            raise px.Unsupported(f"{where}: except class {name} not in the translator's table")
        preds.append(EXC_MAP[name])
    return "(fun e => " + " || ".join(f"{p} e" for p in preds) + ")"


def _single_try(fn: ast.AST, where: str, contains: str) -> ast.Try:
    found = [n for n in ast.walk(fn) if isinstance(n, ast.Try) and contains in ast.unparse(n.body)]
    if len(found) != 1:
        raise px.Unsupported(f"{where}: expected exactly one try block around {contains!r}, found {len(found)}")
    t = found[0]
    if len(t.handlers) != 1 or t.orelse or t.finalbody:
        raise px.Unsupported(f"{where}: try block shape changed")
    return t


def _decode_errors(fn: ast.AST, where: str) -> str:
    """errors= of the single .decode(...) call in fn: strict | replace."""
    calls = [n for n in ast.walk(fn) if isinstance(n, ast.Call) and isinstance(n.func, ast.Attribute) and n.func.attr == "decode"]
    if len(calls) != 1:
        raise px.Unsupported(f"{where}: expected exactly one .decode() call, found {len(calls)}")
    c = calls[0]
    err = "strict"
    if len(c.args) >= 2:
        err = px.const(c.args[1])
    for kw in c.keywords:
        if kw.arg == "errors":
            err = px.const(kw.value)
    if c.args and px.const(c.args[0]).lower().replace("-", "") != "utf8":
        raise px.Unsupported(f"{where}: decode codec changed")
    if err not in ("strict", "replace"):
        raise px.Unsupported(f"{where}: decode errors={err!r} not modelled")
    return err


def gen() -> None:
    """T1: the exception-translation clauses and decode modes the totality theorems depend on."""
    http = px.load("http.py")
    auth = px.load("datastructures/auth.py")
    sreq = px.load("sansio/request.py")
    sutils = px.load("sansio/utils.py")

    cls = px.find_class(auth, "Authorization")
    fh = [n for n in cls.body if isinstance(n, ast.FunctionDef) and n.name == "from_header"]
    if len(fh) != 1:
        raise px.Unsupported("Authorization.from_header not found")
    t_auth = _single_try(fh[0], "Authorization.from_header", "b64decode")
    if "return None" not in ast.unparse(t_auth.handlers[0].body):
        raise px.Unsupported("Authorization.from_header: handler no longer returns None")
    t_date = _single_try(px.find_def(http, "parse_date"), "parse_date", "parsedate_to_datetime")
    pd_body = [x for x in px.find_def(http, "parse_date").body if not (isinstance(x, ast.Expr) and isinstance(x.value, ast.Constant))]
    tail = [ast.unparse(x) for x in pd_body[pd_body.index(t_date) + 1:]] if t_date in pd_body else None
    if tail != ["if dt.tzinfo is None:\n    return dt.replace(tzinfo=timezone.utc)", "return dt"]:
        raise px.Unsupported(f"parse_date: code after the try block changed (it runs outside the except clause): {tail}")
    pa = px.find_def(http, "parse_age")
    t_age_int = _single_try(pa, "parse_age", "int(value)")
    t_age_td = _single_try(pa, "parse_age", "timedelta(")
    cookie_err = _decode_errors(px.find_def(http, "parse_cookie"), "http.parse_cookie")
    rq = px.find_class(sreq, "Request")
    args = [n for n in rq.body if isinstance(n, ast.FunctionDef) and n.name == "args"]
    fpath = [n for n in rq.body if isinstance(n, ast.FunctionDef) and n.name == "full_path"]
    if len(args) != 1 or len(fpath) != 1:
        raise px.Unsupported("Request.args / Request.full_path not found")
    args_err = _decode_errors(args[0], "Request.args")
    fpath_err = _decode_errors(fpath[0], "Request.full_path")

    # Request.args: the keywords handed to urllib.parse.parse_qsl decide which ValueErrors it can raise
    qsl = [n for n in ast.walk(args[0]) if isinstance(n, ast.Call) and ast.unparse(n.func) in ("parse_qsl", "urllib.parse.parse_qsl")]
    if len(qsl) != 1:
        raise px.Unsupported(f"Request.args: expected exactly one parse_qsl call, found {len(qsl)}")
    if len(qsl[0].args) != 1:
        raise px.Unsupported("Request.args: parse_qsl positional arguments changed")
    kws = {}
    for kw in qsl[0].keywords:
        if kw.arg is None:
            raise px.Unsupported("Request.args: parse_qsl called with **kwargs")
        kws[kw.arg] = px.const(kw.value)
    unknown = set(kws) - {"keep_blank_values", "strict_parsing", "errors", "encoding", "max_num_fields", "separator"}
    if unknown:
        raise px.Unsupported(f"Request.args: parse_qsl keywords not modelled: {sorted(unknown)}")
    if kws.get("separator", "&") != "&" or kws.get("encoding", "utf-8").lower().replace("-", "") != "utf8":
        raise px.Unsupported("Request.args: parse_qsl separator / encoding changed")
    if kws.get("errors", "replace") not in ("replace", "werkzeug.url_quote", "ignore"):
        raise px.Unsupported(f"Request.args: parse_qsl errors={kws.get('errors')!r} can raise")
    mnf = kws.get("max_num_fields")
    if mnf is not None and not (isinstance(mnf, int) and not isinstance(mnf, bool) and mnf >= 0):
        raise px.Unsupported("Request.args: max_num_fields is not a literal")
    strict = bool(kws.get("strict_parsing", False))

    # get_host: default-port suffixes per scheme set
    gh = px.find_def(sutils, "get_host")
    strip_rules = []
    for n in ast.walk(gh):
        if isinstance(n, ast.If):
            t = n.test
            if (isinstance(t, ast.BoolOp) and isinstance(t.op, ast.And) and len(t.values) == 2
                    and isinstance(t.values[0], ast.Compare) and isinstance(t.values[0].ops[0], ast.In)
                    and isinstance(t.values[0].comparators[0], ast.Set)
                    and isinstance(t.values[1], ast.Call) and ast.unparse(t.values[1].func) == "host.endswith"):
                schemes = sorted(px.const(e) for e in t.values[0].comparators[0].elts)
                suffix = px.const(t.values[1].args[0])
                body = ast.unparse(n.body)
                if body != f"host = host[:-{len(suffix)}]":
                    raise px.Unsupported(f"get_host: port stripping statement changed: {body}")
                strip_rules.append((schemes, suffix))
    if len(strip_rules) != 2:
        raise px.Unsupported(f"get_host: expected two default-port rules, found {len(strip_rules)}")

    # get_content_length: shape check + constants
    gcl = px.find_def(sutils, "get_content_length")
    body = [s for s in gcl.body if not (isinstance(s, ast.Expr) and isinstance(s.value, ast.Constant))]
    want = ("if http_transfer_encoding == 'chunked' or http_content_length is None:\n    return None\n"
            "try:\n    return max(0, _plain_int(http_content_length))\nexcept ValueError:\n    return 0")
    got = "\n".join(ast.unparse(s) for s in body)
    if got != want:
        raise px.Unsupported("get_content_length body changed:\n" + got)

    # statement skeletons of the request-side code the environ-record model and the harness oracles stand for
    # (the header parsers, _plain_int and the typed header classes are pinned by tools/pins/c06_codecs.txt, cookies by c13_cookies.txt,
    #  Accept matching by the C17 translator)
    impl = c06mod.impl_def
    sk = ["## http.parse_accept_header\n" + px.skeleton(impl(http, "parse_accept_header"))]
    for name in ("get_host", "get_current_url", "get_content_length"):
        sk.append(f"## sansio.utils.{name}\n" + px.skeleton(impl(sutils, name)))
    for name in ("args", "access_route", "full_path", "url", "base_url", "root_url", "host_url", "host", "cookies", "content_length", "_parse_content_type",
                 "mimetype", "mimetype_params", "pragma", "accept_mimetypes", "accept_charsets", "accept_encodings", "accept_languages", "cache_control",
                 "if_match", "if_none_match", "if_modified_since", "if_unmodified_since", "if_range", "range", "user_agent", "authorization", "is_json", "__init__"):
        sk.append(f"## sansio.request.Request.{name}\n" + px.skeleton(impl(rq, name)))
    props = []
    for node in rq.body:
        val = node.value if isinstance(node, (ast.Assign, ast.AnnAssign)) else None
        if isinstance(val, ast.Call) and "header_property" in ast.unparse(val.func):
            tgt = ast.unparse(node.targets[0] if isinstance(node, ast.Assign) else node.target)
            args_ = [ast.unparse(a) for a in val.args] + [f"{k.arg}={ast.unparse(k.value)}" for k in val.keywords if k.arg != "doc"]
            props.append(f"{tgt} = header_property({', '.join(args_)})")
    sk.append("## sansio.request.Request header_property attributes (doc omitted)\n" + "\n".join(props))
    wreq = px.find_class(px.load("wrappers/request.py"), "Request")
    for name in ("__init__", "want_form_data_parsed", "make_form_data_parser", "_load_form_data", "_get_stream_for_parsing", "stream", "data", "get_data",
                 "form", "values", "files", "script_root", "url_root", "json", "get_json", "on_json_loading_failed"):
        sk.append(f"## wrappers.request.Request.{name}\n" + px.skeleton(impl(wreq, name)))
    urls_m = px.load("urls.py")
    for name in ("uri_to_iri", "_decode_idna", "_codec_error_url_quote", "_make_unquote_part"):
        sk.append(f"## urls.{name}\n" + px.skeleton(impl(urls_m, name)))
    sk.append("## wsgi._get_server\n" + px.skeleton(impl(px.load("wsgi.py"), "_get_server")))
    internal_m = px.load("_internal.py")
    dap = px.find_class(internal_m, "_DictAccessorProperty")
    sk.append("## _internal._DictAccessorProperty.__get__\n" + px.skeleton(impl(dap, "__get__")))
    sk.append("## _internal._wsgi_decoding_dance\n" + px.skeleton(impl(internal_m, "_wsgi_decoding_dance")))
    utils_m = px.load("utils.py")
    for cname in ("header_property", "environ_property"):
        sk.append(f"## utils.{cname}\n" + px.skeleton(px.find_class(utils_m, cname)))
    px.check_pin("C07", "c07_request.txt", "\n".join(sk) + "\n", "statement skeleton of the request-side code")

    def codes(s):
        return px.coq_string_codes(s)
    text = px.HEADER.format(tool="c07.py", src="http.py, datastructures/auth.py, sansio/request.py, sansio/utils.py")
    text += "From Wz Require Import C06.LibPy.\n\n"
    text += f"Definition auth_basic_catches : exn -> bool := {_handler_pred(t_auth.handlers[0], 'Authorization.from_header')}.\n"
    text += f"Definition parse_date_catches : exn -> bool := {_handler_pred(t_date.handlers[0], 'parse_date')}.\n"
    text += f"Definition parse_age_int_catches : exn -> bool := {_handler_pred(t_age_int.handlers[0], 'parse_age')}.\n"
    text += f"Definition parse_age_timedelta_catches : exn -> bool := {_handler_pred(t_age_td.handlers[0], 'parse_age')}.\n"
    text += f"Definition cookie_decode_replace : bool := {'true' if cookie_err == 'replace' else 'false'}.\n"
    text += f"Definition args_decode_replace : bool := {'true' if args_err == 'replace' else 'false'}.\n"
    text += f"Definition full_path_decode_replace : bool := {'true' if fpath_err == 'replace' else 'false'}.\n"
    text += f"Definition args_max_num_fields : option N := {'None' if mnf is None else f'(Some {mnf})'}.   (* parse_qsl(max_num_fields=...) in Request.args *)\n"
    text += f"Definition args_strict_parsing : bool := {'true' if strict else 'false'}.\n"
    text += "Definition default_port_rules : list (list (list N) * list N) :=\n  [" + ";\n   ".join(
        "([" + "; ".join(codes(s) for s in schemes) + "], " + codes(suffix) + ")" for schemes, suffix in strip_rules) + "].\n"
    px.write_if_changed(os.path.join(COQ, "C07", "Gen.v"), text)


# ====================================================================== harness

ATOMS = ['"', ';', ',', '=', '*', '%', "'", '\\', ' ', '-', '/', ':', '[', ']', '(', ')', '<', '>', '@', '?', '{', '}', '.', '+', '_', '#', '&',
         "utf-8''", "UTF-8'en'", "iso-8859-1''", "ascii''", "x''", '*0', '*1', '*0*', '*=', '%22', '%41', '%ff', '%C3%A9', '%4', '%u1234',
         'a', 'b', 'q', 'W/', 'w/', 'bytes', 'bytes=', 'basic', 'Basic ', 'BASIC ', 'Digest ', 'Bearer ', 'dXNlcjpwYXNz', 'YTpi', '==', 'Zm9v', 'w6k6w6k=', '/w==', 'QQ',
         'Thu, 01 Jan 2026 00:00:00 GMT', 'Thu', '01', 'Jan', '2026', '00:00:00', 'GMT', '+0100', '-9999', '+99999999999', '+' + '9' * 20,
         '1', '0', '9', '007', '123', '65535', '65536', '9' * 20, '1' * 4301,
         'q=0.5', 'q=1', 'q=', 'q=2', 'q=-1', 'q=1e3', 'q=1.' + '0' * 30 + '1', 'text/html', 'text/*', '*/*', 'en-US', 'en', 'utf-8', 'gzip', 'no-cache', 'max-age=', 'max-age=5',
         '\xff', '\xfe', '\xe9', '\xc3\xa9', '\xa0', '\x85', '\xc0', '\x80', '\xb2', 'xn--', 'xn--zz', 'xn--n3h', '[::1]', '[::1', ':80', ':443', ':abc', '::',
         '1.2.3.4', 'localhost', 'example.com', '..', 'user:pw@', 'a=b', 'a=b&c', 'k="v"', 'k="v', '; ', ', ', 'chunked', 'multipart/form-data; boundary=x',
         'application/x-www-form-urlencoded', 'application/json']
CTL = ['\n', '\r', '\t', '\x00', '\x7f', '\x0b', '\x1c']   # outside the property's domain: only for model-vs-implementation


def gen_hostile(rng, ctl=False) -> str:
    al = ATOMS + CTL if ctl else ATOMS
    return "".join(rng.choice(al) for _ in range(rng.randint(0, 10)))


NUMS = ["0", "1", "5", "9", "10", "123", "499", "500", "007", "", " ", "-1", "+1", "1_0", "x", "9" * 19, "1" * 4300, "1" * 4301, "\xb2", "1.5", "0x10", "٣" if False else "3"]
WS = ["", "", "", " ", "  ", "\xa0", "\x85"]
TOKS = ["a", "b", "k", "name", "filename", "q", "charset", "realm", "nonce", "max-age", "no-cache", "private", "*", "a*", "k*0", "k*1", "k*0*", "", "é", "A", "a b"]
VALS = ["v", "x y", '"x y"', '"a\\"b"', '"a\\\\"', '"', '""', "", "utf-8\'\'%C3%A9", "UTF-8\'en\'%E2%82%AC", "iso-8859-1\'\'%E9", "x\'\'y", "\'\'%41", "%22", "a%22b", '"%22"', "é", "\xff",
        "1", "0.5", "3600", "-1", "1" * 4301, "a,b", "a;b", "a=b", '"a;b"', '"a,b"', "dXNlcjpwYXNz", "w6k6w6k=", "/w=="]


def _pick(rng, xs):
    return rng.choice(xs)


def gen_structured(rng) -> str:
    """mostly-valid header text of one family of the property, with hostile fields."""
    fam = rng.randrange(11)
    w = lambda: _pick(rng, WS)  # noqa: E731
    if fam == 0:    # Range
        items = []
        for _ in range(rng.randint(1, 3)):
            k = rng.random()
            a, b = _pick(rng, NUMS), _pick(rng, NUMS)
            items.append(f"{w()}{a}{w()}-{w()}{b}{w()}" if k < 0.6 else f"-{b}" if k < 0.8 else f"{a}-" if k < 0.95 else a)
        return _pick(rng, ["bytes", "bytes", "BYTES", "items", "", "é", " bytes "]) + _pick(rng, ["=", "=", "=", " = ", "", "=="]) + ",".join(items)
    if fam == 1:    # Content-Range
        a, b, c = _pick(rng, NUMS), _pick(rng, NUMS), _pick(rng, NUMS + ["*", "*"])
        rng_ = _pick(rng, [f"{a}-{b}", f"{a}-{b}", "*", f"{a}", f"{a}-{b}-{c}"])
        return _pick(rng, ["bytes", "bytes", "items", ""]) + _pick(rng, [" ", " ", "  ", "\xa0", ""]) + rng_ + _pick(rng, ["/", "/", "", "//"]) + c
    if fam == 2:    # options header (Content-Type, Content-Disposition)
        parts = [_pick(rng, ["text/html", "form-data", "multipart/form-data", "application/json", "a", "", "é/x", "A/B"])]
        for _ in range(rng.randint(0, 4)):
            parts.append(f"{w()}{_pick(rng, TOKS)}{_pick(rng, ['=', '=', '=', ' = ', '', '*=', '=='])}{_pick(rng, VALS)}{w()}")
        return _pick(rng, [";", ";", "; ", " ;", ";;"]).join(parts)
    if fam == 3:    # entity tags / If-Range
        tags = []
        for _ in range(rng.randint(1, 4)):
            t = _pick(rng, ["a", "xyz", "", "*", "a b", 'a"b', "W/", "é", ","])
            tags.append(_pick(rng, ['"%s"', '"%s"', 'W/"%s"', 'w/"%s"', "%s", '"%s', '%s"', 'W/%s']) % t)
        return _pick(rng, [", ", ",", " , ", "\xa0,\x85", " "]).join(tags)
    if fam == 4:    # Authorization / WWW-Authenticate
        scheme = _pick(rng, ["Basic", "basic", "BASIC", "Digest", "Bearer", "Negotiate", "", "é", "Bäsic"])
        k = rng.random()
        if k < 0.4:
            rest = _pick(rng, ["dXNlcjpwYXNz", "YTpi", "Og==", "QQ", "QQ=", "Q", "====", "w6k6w6k=", "/w==", "\xe9", "QQ\xe9==", "a b", "", "dXNlcg", "_-_-"]) + _pick(rng, ["", "", "=", "==", " "])
        elif k < 0.8:
            rest = ", ".join(f"{_pick(rng, TOKS)}={_pick(rng, VALS)}" for _ in range(rng.randint(1, 3)))
        else:
            rest = _pick(rng, VALS)
        return scheme + _pick(rng, [" ", " ", "  ", "", "\xa0"]) + rest
    if fam == 5:    # Cookie
        return _pick(rng, ["; ", ";", " ; "]).join(f"{_pick(rng, TOKS)}{_pick(rng, ['=', '=', ' = ', ''])}{_pick(rng, VALS + ['\"\\\\377\"', '\"\\\\07\"', '\"\\\\\"'])}" for _ in range(rng.randint(1, 4)))
    if fam == 6:    # dates
        day = _pick(rng, ["Thu, ", "Thu,", "", "Xyz, ", "Thursday, "])
        d = _pick(rng, ["01", "1", "31", "32", "0", "99999999999999999999", "x"])
        mon = _pick(rng, ["Jan", "Feb", "jan", "Xxx", "13", "January"])
        y = _pick(rng, ["2026", "26", "99", "0", "10000", "99999999999999999999999", "1" * 4301, "x"])
        tm = _pick(rng, ["00:00:00", "23:59:60", "24:00:00", "0:0", "00:00:00.5", "99999999999:00:00", "x", ""])
        tz = _pick(rng, ["GMT", "UT", "+0000", "-0000", "+0100", "+2359", "+2400", "+9999", "-9999", "+99999999999999999999", "EST", "", "Z", "+1" + "0" * 30])
        return f"{day}{d} {mon} {y} {tm} {tz}".strip()
    if fam == 7:    # Accept family
        items = []
        for _ in range(rng.randint(1, 4)):
            it = _pick(rng, ["text/html", "text/*", "*/*", "*", "en-US", "en", "utf-8", "gzip", "a/b/c", "/", "", "é", "*/html", "text/html;level=1"])
            if rng.random() < 0.7:
                it += _pick(rng, [";q=", "; q=", ";Q=", ";q =", ";q*=", ";*="]) + _pick(rng, ["1", "0", "0.5", "1.0", "1.000", "2", "-1", "-0", "1e3", "", "x", ".5", "1.", "0." + "9" * 400,
                                                                                             "1." + "0" * 30 + "1", "9" * 400, "٣"[:0] + "1"])
            if rng.random() < 0.3:
                it += ";" + _pick(rng, TOKS) + "=" + _pick(rng, VALS)
            items.append(it)
        return _pick(rng, [",", ", ", " , "]).join(items)
    if fam == 8:    # Cache-Control / dict headers / CSP
        return _pick(rng, [", ", ",", "; "]).join(f"{_pick(rng, TOKS)}{_pick(rng, ['=', '=', '', ' = ', ' '])}{_pick(rng, VALS)}" for _ in range(rng.randint(1, 4)))
    if fam == 9:    # Age / Content-Length / Max-Forwards
        return w() + _pick(rng, NUMS) + w()
    return gen_hostile(rng)


COUNTS = [9, 10, 11, 99, 100, 101, 999, 1000, 1001, 1500, 5000]
OCT = ["000", "007", "010", "077", "100", "177", "200", "277", "300", "377", "378", "380", "400", "477", "500", "777", "078", "08", "3", "37", "8", "9", "0", "0000", "3777"]
HEXE = ["%00", "%0a", "%1f", "%20", "%22", "%25", "%2f", "%2F", "%2g", "%g2", "%7e", "%7F", "%80", "%bf", "%C0", "%c2%80", "%C3%A9", "%c3%28", "%e2%82%ac", "%E2%82",
        "%ed%a0%80", "%f0%9f%98%80", "%f4%90%80%80", "%ff", "%fF", "%Ff", "%", "%%", "%4", "%4%41", "%u0041", "%zz", "%3", "% 41"]
FIRSTS = [0, 1, 2, 5, 9, 10, 99, 100, 499, 500, 65535, 2 ** 31, 2 ** 63, 2 ** 64, 10 ** 20, 10 ** 4299, 10 ** 4300 - 1, 10 ** 4300]


def boundary_cases(rng, fz, counts=COUNTS) -> list[str]:
    """boundary-oriented header texts, deterministic core plus a few random combinations per family."""
    out = []
    # cookies: every escape shape at the edges of the octal class, in every position of a quoted value
    for o in OCT:
        out += [f'a="\\{o}"', f'sid="x\\{o}y"; theme=dark', f'k="\\{o}\\073"', f'first=1; tok="abc\\{o}7"', f'a=\\{o}', f'a="\\{o}']
    out += ['a="\\"', 'a="\\\\"', 'a="\\\""', 'a="\\;"; b=c', 'a="\\,"', 'a="x\\"', 'a="\\ "', 'a="\\\xff"', 'a="\\\xe9\xa9"', 'a="\\3\xff7"']
    for _ in range(40):
        out.append("; ".join(f'{rng.choice("abk")}="' + "".join(rng.choice(["\\" + rng.choice(OCT), "x", " ", "\\\\", '\\"', "\xe9", ";", ","]) for _ in range(rng.randint(1, 4))) + '"'
                             for _ in range(rng.randint(1, 3))))
    # ranges: last in {first-2, first-1, first, first+1}, alone and inside multi-ranges, with blanks
    for f in FIRSTS:
        for d in (-2, -1, 0, 1):
            last = f + d
            if last < 0:
                continue
            a, b = fz(f), fz(last)
            if f > 10 ** 100:       # 4300-digit conversions are slow in the extracted model: two shapes per boundary
                if d in (-1, 1) and (f == 10 ** 4300 - 1 or len(counts) > 4):
                    out += [f"bytes={a}-{b}", f"bytes {a}-{b}/*"]
                continue
            out += [f"bytes={a}-{b}", f"bytes=0-0,{a}-{b}" if f > 1 else f"bytes={a}-{b},{fz(last + 2)}-", f"items = {a} - {b} ", f"bytes={a}-{b},-3"]
            # content ranges around the same boundary: stop and length one off either way
            for ln in (last - 1, last, last + 1, last + 2):
                if ln >= 0:
                    out.append(f"bytes {a}-{b}/{fz(ln)}")
            out.append(f"bytes {a}-{b}/*")
    out += ["bytes=-0", "bytes=-1", "bytes=0-", "bytes=0-0", "bytes=1-0", "bytes=0-9,20-19", "bytes=0-9,9-9", "bytes=0-9,10-10", "bytes=0-9,8-20", "bytes=5-,6-7", "bytes=-5,6-7",
            "bytes */0", "bytes */-0", "bytes */-1", "bytes 0-0/0", "bytes 0-0/1"]
    # percent escapes at the edges of the hex class, in RFC 2231 values and as plain text
    for e in HEXE:
        out += [f"a; k*=utf-8''{e}", f"a; k*=us-ascii''x{e}y", f"a; k*=iso-8859-1''{e}{e}", f'a; k*="{e}"', f"k*=utf-8''{e}, j={e}", f"a; k*0*=utf-8''{e}; k*1*={e}"]
    out += date_boundaries() + backtracking_shapes()
    # numbers: long digit runs and the limits of every numeric field
    for nn in ["0", "1", "65535", "65536", "86399999999999", "86400000000000", "9" * 18, "9" * 19, "9" * 20, "1" * 4299, "1" * 4300, "1" * 4301, "0" * 4301, "-" + "1" * 4300, "1" * 10000]:
        out += [nn, f" {nn} ", f"max-age={nn}", f"a;q={nn}", f"x:{nn}"]
        if len(nn) <= 20:        # long fractions are slow in the exact float-threshold arithmetic of the model
            out += [f"a;q=0.{nn}", f"a;q=1.{nn}"]
    out += ["a;q=0." + "9" * 400, "a;q=1." + "0" * 400 + "1", "a;q=-0." + "0" * 400 + "1"]
    # counts and lengths at powers of ten: list items, cookie pairs, parameters, directives, plain length
    for c in counts:
        out += [",".join(f"i{i}" for i in range(c)), ", ".join(f'"t{i}"' for i in range(c)), "; ".join(f"k{i}=v{i}" for i in range(c)),
                "a" + "".join(f"; p{i}=v" for i in range(c)), ", ".join(f"d{i}={i}" for i in range(c)), "bytes=" + ",".join(f"{2 * i}-{2 * i}" for i in range(c)),
                "a" * c, "a" * (c * 10), '"' * c, "\\" * c, ";" * c, "," * c, "=" * c, "*" * c, " " * c + "x", "x" + "\xa0" * c,
                "text/html;q=0." + "5" * min(c, 300), ",".join("text/html;q=0.5" for _ in range(c)), "a;k*=utf-8''" + "%C3%A9" * c, "Basic " + "QUJD" * c, "Basic " + "=" * c]
    return out


def date_boundaries() -> list[str]:
    """dates at the edges of the calendar datetime can hold, with every kind of zone."""
    out = []
    zones = ["-2359", "-1200", "-0100", "-0001", "-0000", "+0000", "+0001", "+0100", "+1200", "+2359", "+2400", "-2400", "GMT", "UT", "Z", "EST", "EDT", "PST", "PDT", "CST", "MST",
             "A", "M", "N", "Y", ""]
    for y in ("0001", "0002", "1000", "1969", "1970", "2038", "9998", "9999"):
        for dm, wd in (("01 Jan", "Mon"), ("31 Dec", "Fri"), ("29 Feb", "Tue")):
            for tm in ("00:00:00", "23:59:59"):
                if y in ("0001", "9999") or tm == "00:00:00" and dm == "01 Jan":
                    for z in zones:
                        out.append(f"{wd}, {dm} {y} {tm} {z}".strip())
    out += ["Fri, 31 Dec 9999 23:59:59 -0100", "Mon, 01 Jan 0001 00:00:00 +0100", "31 Dec 9999 23:59:60 -0001", "1 Jan 1 00:00:00 +0001", "1 Jan 01 00:00 +0001", "Sat, 01-Jan-0001 00:00:00 +2359",
            "Friday, 31-Dec-99 23:59:59 EST", "Fri Dec 31 23:59:59 9999", "Mon Jan  1 00:00:00 0001"]
    return out


def backtracking_shapes() -> list[str]:
    """adversarial-for-backtracking texts for every regex-driven scanner: an opening quote followed by escapes and never
    closed, and long runs of the characters the alternations of each pattern overlap on."""
    out = []
    # quoted cookie values made of octal escapes: unterminated, or closed and followed by junk (a pattern whose escape
    # alternatives overlap backtracks 2**n on these)
    for k in (20, 24, 30, 40, 64, 80):
        octs = "\\101" * k
        out += [f'session="{octs}', f'a=b; session="{octs}; c=d', f'session="{octs}"x', f'session="{octs}"x; c=d', f'session="{"\\377\\000" * (k // 2)}', f'k="{octs}\\']
    for k in (30, 40, 64, 80):
        bs, esc, ws = "\\" * k, '\\"' * k, " " * k
        out += [f'session="{bs}', f'session="{esc}', f'a=b; session="{bs}x', f'session="{bs}; b=c', f'session = "{esc}\\', f'k="{"a" * k}{bs}',
                f'a; k="{bs}', f'a; k="{esc}', f'a; k="{bs}; j=1', f'form-data; name="{esc}x', f'k="{bs}, j="{esc}', f'"{bs}', f'"{esc}, "x',
                f'"{"a" * k}', f'W/"{"a" * k}', f'"a"{ws}', f'"a"{ws},{ws}"b{ws}', f'W/"{"," * k}', '"' * k, '","' * k, 'W/' * k, f'{ws},{ws}' * 8,
                f'a{ws}={ws}"{bs}', f"{'=' * k};{'=' * k}", f"{';' * k}=", f"a{ws}", f"{ws}={ws};{ws}" * 6, f"k{'*' * k}=x", f"a; k{'*' * k}=x", f"a; k*{'0' * k}=x", f"a; k*0*{'=' * k}",
                f"a; k*=utf-8{chr(39) * k}x", f"a; k*={chr(39) * k}", f"a;q={'0' * k}.{'0' * k}", f"a;q=0.{'0' * k}x", f"a;q=-{'.' * k}", f"text/html{';q=1' * k}", f"a/{'/' * k}b",
                f"bytes={'-' * k}", f"bytes={'0-' * k}", f"bytes={' ' * k}-{' ' * k}1", f"bytes=1{' ' * k}-", f"{'=' * k}", f"Basic {'=' * k}Q", f"Basic {'Q=' * k}",
                f"Mon, {'0' * k} Jan 2026", f"{', ' * k}2026", f"1 Jan 2026 {':' * k}", f"1 Jan 2026 00:00:00 +{'0' * k}", f"1 Jan 2026 00:00:00 {'(' * k}", f"({'(' * k}) 1 Jan 2026", f"1 Jan {'(' * k}2026"]
    return out


def boundary_environs(counts=COUNTS) -> list[tuple[str, str]]:
    """(environ variable, value) pairs with field counts and lengths at powers of ten."""
    out = []
    for c in counts:
        out += [("QUERY_STRING", "&".join(f"k{i}=v{i}" for i in range(c))), ("QUERY_STRING", "&" * c), ("QUERY_STRING", "&".join("a" for _ in range(c))),
                ("QUERY_STRING", "&".join("id=1" for _ in range(c))), ("QUERY_STRING", "a=" + "%FF" * c), ("QUERY_STRING", ";".join(f"k{i}=v" for i in range(c))),
                ("HTTP_COOKIE", "; ".join(f"k{i}=v{i}" for i in range(c))), ("HTTP_COOKIE", "k=" + "v" * (10 * c)),
                ("HTTP_ACCEPT", ",".join(f"a/b{i};q=0.{i % 10}" for i in range(c))), ("HTTP_ACCEPT_LANGUAGE", ",".join(f"l{i}" for i in range(c))),
                ("HTTP_X_FORWARDED_FOR", ", ".join(f"10.0.{i % 256}.{i // 256}" for i in range(c))), ("HTTP_IF_NONE_MATCH", ", ".join(f'"e{i}"' for i in range(c))),
                ("HTTP_RANGE", "bytes=" + ",".join(f"{2 * i}-{2 * i}" for i in range(c))), ("CONTENT_TYPE", "text/plain" + "".join(f"; p{i}=v" for i in range(c))),
                ("HTTP_CACHE_CONTROL", ", ".join(f"d{i}={i}" for i in range(c))), ("HTTP_HOST", "a" * c + ".example.com"), ("HTTP_HOST", "example.com:" + "8" * (c // 100 + 1)),
                ("PATH_INFO", "/" + "a/" * c), ("HTTP_AUTHORIZATION", "Basic " + "QUJD" * c), ("HTTP_USER_AGENT", "x" * (10 * c))]
    return out


def _regroup(b: str) -> str:
    """MultiDict.items(multi=True) groups values by key in first-occurrence order."""
    if not b.startswith("ok ") or b == "ok ~":
        return b
    items = [x.split("=") for x in b[3:].split("|")]
    order = []
    for k, _ in items:
        if k not in order:
            order.append(k)
    return "ok " + "|".join(f"{k}={v}" for kk in order for k, v in items if k == kk)


def classify(name: str, e: BaseException, s) -> str:
    """a specific key for an escaping exception: call site + exception + message class."""
    msg = str(e)
    n = type(e).__name__
    if "embedded null" in msg and "Charset" in name:
        return "charset-accept-nul"
    if name.startswith(("Request.url", "Request.base_url", "Request.root_url", "Request.host_url", "Request.url_root")) or name == "uri_to_iri":
        if "Port" in msg:
            return "url-host-port"
        if "IPv6" in msg or "IPv4" in msg or "IPvFuture" in msg or "does not appear to be" in msg or "bracket" in msg.lower():
            return "url-host-ipv6-literal"
        if isinstance(e, UnicodeError):
            return "url-host-idna"
        if "NFKC" in msg:
            return "url-host-nfkc"
    return f"{name}:{n}"


def run(chk: Check) -> None:
    sys.set_int_max_str_digits(4300)
    import datetime as dt
    import werkzeug.http as H
    import werkzeug.sansio.http as SH
    import werkzeug.sansio.utils as SU
    from urllib.parse import urlsplit
    from werkzeug import datastructures as ds
    from werkzeug.exceptions import HTTPException
    from werkzeug.user_agent import UserAgent
    from werkzeug.wrappers import Request

    rng = chk.rng
    quick = chk.tier == "quick"
    n = 1500 if quick else 25000
    with open(os.path.join(os.path.dirname(COQ), "corpus", "C07", "inputs.json"), encoding="utf-8") as fh:
        corpus = json.load(fh)

    lines, impl, canon = [], [], []
    fl, fod, fz, exn = c06mod.fl, c06mod.fod, c06mod.fz, c06mod.exn

    hung: dict = {}

    def observe(name, fn, arg, typ, line=None, show=None, cn=None, in_domain=True):
        """run one parser call under the watchdog; oracle = documented type or HTTPException; optional model line."""
        try:
            if hung.get(name, 0) >= 4:
                raise ImplTimeout()     # circuit breaker: this call site has already hung repeatedly
            r = with_timeout(fn, 3.0, arg)
            out = ("ok " + show(r)) if show else "ok"
            if in_domain and typ is not None and not typ(r):
                chk.fail(f"{name}:wrong-type", f"{name} returned {type(r).__name__}: {r!r}"[:300], {"parser": name, "input": arg})
        except ImplTimeout:
            out = "timeout"
            hung[name] = hung.get(name, 0) + 1
            if in_domain:
                chk.fail("non-termination", f"{name} did not return within 3 s", {"parser": name, "input": arg})
        except HTTPException as e:
            out = f"err:HTTP{e.code}"
        except Exception as e:  # noqa: BLE001
            out = exn(e)
            if in_domain:
                chk.fail(classify(name, e, arg), f"{name} raised {type(e).__name__}: {e}"[:300], {"parser": name, "input": arg})
        if line is not None:
            lines.append(line)
            impl.append(out)
            canon.append(cn)
        chk.case((name, arg), nontrivial=bool(arg), sample={"parser": name, "input": repr(arg)[:100], "observed": out[:100]})
        chk.count(("domain:" if in_domain else "ctl:") + (name if not name.startswith("Request.") else "Request.<attr>"))
        return out

    def is_(t):
        return lambda r: isinstance(r, t)

    def s_options(r):
        return cps(r[0]) + ";" + fod(r[1])

    def s_etags(e):
        return f"{'star' if e.star_tag else 'tags'};{fl(sorted(e._strong))};{fl(sorted(e._weak))}"

    def s_range(r):
        return "~" if r is None else cps(r.units) + ";" + (",".join(f"{fz(b)}:{fz(e)}" for b, e in r.ranges) if r.ranges else "~")

    def s_crange(c):
        return "~" if c is None else ";".join(["~" if c.units is None else cps(c.units), fz(c.start), fz(c.stop), fz(c.length)])

    def s_age(r):
        return "~" if r is None else str(r.days * 86400 + r.seconds)

    def s_cookie(r):
        return "|".join(f"{cps(k)}={cps(v)}" for k, v in r.items(multi=True)) or "~"

    def s_auth(a):
        if a is None:
            return "~"
        return cps(a.type) + ";" + fod(dict(a.parameters)) + ";" + ("~" if a.token is None else cps(a.token))

    def accept_use(cls):
        def f(s):
            a = H.parse_accept_header(s, cls)
            offers = {ds.MIMEAccept: ["text/html", "application/json", "*/*", "text/*", "a/b;c=d"],
                      ds.LanguageAccept: ["en", "en-US", "de", "zh_Hant"], ds.CharsetAccept: ["utf-8", "latin1", "ascii", "nope"]}.get(cls, ["gzip", "br", "identity", "*"])
            for o in offers:
                o in a  # noqa: B015
                a.quality(o)
                a[o]
                a.find(o)
            a.best_match(offers)
            a.best_match(offers, default="d")
            a.best
            a.to_header()
            str(a)
            list(a.values())
            if cls is ds.MIMEAccept:
                a.accept_html, a.accept_json, a.accept_xhtml  # noqa: B018
            return a
        return f

    def cc_use(cls):
        def f(s):
            c = H.parse_cache_control_header(s, cls=cls)
            for a in dir(cls):
                if isinstance(getattr(cls, a, None), property):
                    getattr(c, a)
            return c
        return f

    def etags_use(s):
        e = H.parse_etags(s)
        "a" in e  # noqa: B015
        e.contains_weak("a")
        e.contains_raw(s)
        e.contains_raw('W/"a"')
        e.is_weak("a")
        bool(e)
        len(e)
        list(e)
        e.as_set(True)
        return e

    def range_use(s):
        r = H.parse_range_header(s)
        if r is not None:
            r.range_for_length(10)
            r.range_for_length(None)
            r.make_content_range(10)
            r.to_content_range_header(10)
        return r

    def s_accept(a):
        return "|".join(sorted(f"{cps(v)}={float(q)!r}" for v, q in a)) or "~"

    def c_accept(b):
        if not b.startswith("ok ") or b == "ok ~":
            return b
        out = []
        for ent in b[3:].split("|"):
            it, q = ent.split("=")
            out.append(f"{it}={(1.0 if q == '~' else float(uncps(q)))!r}")
        return "ok " + "|".join(sorted(out))

    PARSERS = [
        # name, callable, documented type, model command, show, canon
        ("parse_options_header", H.parse_options_header, lambda r: isinstance(r, tuple) and isinstance(r[0], str) and isinstance(r[1], dict), "popt", s_options, None),
        ("parse_list_header", H.parse_list_header, is_(list), "plist", lambda r: "", None),
        ("parse_dict_header", H.parse_dict_header, is_(dict), "pdict", fod, None),
        ("parse_set_header", H.parse_set_header, is_(ds.HeaderSet), None, None, None),
        ("parse_accept_header", accept_use(ds.Accept), is_(ds.Accept), "accept", s_accept, c_accept),
        ("parse_accept_header[MIME]", accept_use(ds.MIMEAccept), is_(ds.MIMEAccept), None, None, None),
        ("parse_accept_header[Charset]", accept_use(ds.CharsetAccept), is_(ds.CharsetAccept), None, None, None),
        ("parse_accept_header[Language]", accept_use(ds.LanguageAccept), is_(ds.LanguageAccept), None, None, None),
        ("parse_cache_control_header", cc_use(ds.RequestCacheControl), is_(ds.RequestCacheControl), None, None, None),
        ("parse_cache_control_header[Response]", cc_use(ds.ResponseCacheControl), is_(ds.ResponseCacheControl), None, None, None),
        ("parse_csp_header", H.parse_csp_header, is_(ds.ContentSecurityPolicy), None, None, None),
        ("parse_etags", etags_use, is_(ds.ETags), "petags", s_etags, c06mod.canon_etags),
        ("parse_range_header", range_use, lambda r: r is None or isinstance(r, ds.Range), "prange", s_range, None),
        ("parse_content_range_header", H.parse_content_range_header, lambda r: r is None or isinstance(r, ds.ContentRange), "pcrange", s_crange, None),
        ("parse_if_range_header", H.parse_if_range_header, is_(ds.IfRange), None, None, None),
        ("parse_date", H.parse_date, lambda r: r is None or (isinstance(r, dt.datetime) and r.tzinfo is not None), None, None, None),
        ("parse_age", H.parse_age, lambda r: r is None or isinstance(r, dt.timedelta), "page", s_age, None),
        ("http.parse_cookie", H.parse_cookie, is_(ds.MultiDict), "hcookie", s_cookie, _regroup),
        ("sansio.parse_cookie", SH.parse_cookie, is_(ds.MultiDict), "cookie", s_cookie, _regroup),
        ("Authorization.from_header", ds.Authorization.from_header, lambda r: r is None or isinstance(r, ds.Authorization), "auth", s_auth, None),
        ("WWWAuthenticate.from_header", ds.WWWAuthenticate.from_header, lambda r: r is None or isinstance(r, ds.WWWAuthenticate), "wauth", s_auth, None),
        ("get_content_length", lambda s: SU.get_content_length(s, None), lambda r: r is None or isinstance(r, int), None, None, None),
    ]
    # list results need their own show (the lambda above is a placeholder)
    PARSERS[1] = ("parse_list_header", H.parse_list_header, is_(list), "plist", fl, None)

    def run_parsers(s, in_domain=True):
        enc = cps(s)
        for name, fn, typ, cmd, show, cn in PARSERS:
            if cmd == "page" and any(ord(c) > 127 and c.isdigit() for c in s):
                cmd = None      # non-ASCII digits: outside the int() model
            if cmd == "plist":
                observe(name, fn, s, typ, None, None, None, in_domain)
                lines.append(f"plist {enc}")
                impl.append(fl(fn(s)))
                canon.append(None)
                continue
            observe(name, fn, s, typ, f"{cmd} {enc}" if cmd else None, show if cmd else None, cn, in_domain)

    # ---------------------------------------------------------------- corpus first
    for s in corpus["parsers"]:
        run_parsers(s)
    counts = [10, 100, 1000, 1001] if quick else COUNTS
    for s in boundary_cases(rng, fz, counts):
        run_parsers(s)
    for _ in range(n):
        run_parsers(gen_hostile(rng))
    for _ in range(3 * n):
        run_parsers(gen_structured(rng))
    # control characters: outside the property's domain, model-vs-implementation only (no oracle),
    # never a trailing line feed for parse_etags (documented non-termination outside the domain)
    for s in corpus["ctl"]:
        run_parsers(s, in_domain=False)
    for _ in range(n // 4):
        s = gen_hostile(rng, ctl=True)
        if "\n" in s:
            continue
        run_parsers(s, in_domain=False)

    # ---------------------------------------------------------------- the email.utils contract of C07_total_parse_date
    import email.utils as _eu
    bad_contract = 0
    for s in date_boundaries() + [gen_structured(rng) for _ in range(n)] + [gen_hostile(rng) for _ in range(n // 2)] + corpus["parsers"]:
        try:
            with_timeout(_eu.parsedate_to_datetime, 3.0, s)
        except (TypeError, ValueError, OverflowError):
            pass
        except Exception as e:  # noqa: BLE001
            bad_contract += 1
            if bad_contract <= 3:
                chk.broken("contract", "email.utils.parsedate_to_datetime raises only TypeError / ValueError / OverflowError",
                           f"{type(e).__name__}: {e} on {s!r}", case={"input": s})
        chk.count("contract:parsedate_to_datetime")

    # ---------------------------------------------------------------- base64 (stdlib model under Authorization)
    import base64
    b64s = ["", "QQ==", "QQ=", "QQ", "Q", "QUI=", "QUJD", "Q=Q=", "=QQ==", "QQ==QQ==", "Q\xe9", "QQ==\xe9", "Q Q = =", "====", "QUJDRA", "QUJDRA=", "QUJDRA=="] + \
        ["".join(rng.choice(["Q", "U", "J", "D", "R", "A", "=", "==", "/", "+", "-", "_", " ", "\xe9", "w6k", "9"]) for _ in range(rng.randint(0, 9))) for _ in range(n)]
    for s in b64s:
        lines.append(f"b64 {cps(s)}")
        try:
            impl.append("ok " + cps(base64.b64decode(s).decode("latin1")))
        except Exception as e:  # noqa: BLE001
            impl.append(exn(e))
        canon.append(None)
        chk.case(("b64", s), nontrivial=bool(s))

    # ---------------------------------------------------------------- get_host and the port of the URL
    hosts = corpus["hosts"] + ["".join(rng.choice(["a", "example.com", "localhost", ":", "80", "443", ":80", ":443", "[", "]", "::1", "@", "/", "?", "#", "x", "é", "1", "65535",
                                                    "65536", ":abc", "\xb2", ".", "-", "xn--", "zz", " ", "%41"]) for _ in range(rng.randint(0, 6))) for _ in range(2 * n)]
    for h in hosts:
        for scheme in ("http", "https", "ws", "wss", "ftp"):
            hh = h if rng.random() < 0.8 else None
            server = rng.choice([None, ("srv", 80), ("srv", 443), ("::1", 8080), ("[::1]", 80), ("/tmp/sock", None), ("", 5)])
            lines.append(f"host {cps(scheme)} {'~' if hh is None else cps(hh)} {'~' if server is None else cps(server[0])} "
                         f"{'~' if server is None or server[1] is None else cps(str(server[1]))}")
            try:
                impl.append(cps(SU.get_host(scheme, hh, server)))
            except Exception as e:  # noqa: BLE001
                impl.append(exn(e))
                chk.fail("get_host:" + type(e).__name__, f"get_host raised {e!r}", {"scheme": scheme, "host": hh, "server": server})
            canon.append(None)
        lines.append(f"port {cps(h)}")
        try:
            p = urlsplit(f"http://{h}/").port
            impl.append("ok " + ("~" if p is None else str(p)))
        except ValueError as e:
            impl.append("err:ValueError")
        canon.append(lambda b, _i=len(impl) - 1: impl[_i] if b == "err:Unmodelled" else b)
        chk.case(("host", h), nontrivial=bool(h))
    for cl in corpus["content_length"] + [gen_hostile(rng) for _ in range(n // 2)] + ["5", " 5 ", "-5", "+5", "5_0", "9" * 4301, ""]:
        for te in (None, "chunked", "Chunked", "gzip"):
            lines.append(f"clen {cps(cl)} {'~' if te is None else cps(te)}")
            try:
                r = SU.get_content_length(cl, te)
                impl.append("ok " + fz(r))
            except Exception as e:  # noqa: BLE001
                impl.append(exn(e))
            canon.append(None)

    # ---------------------------------------------------------------- Request attributes
    ATTRS = {
        "args": ds.MultiDict, "cookies": ds.MultiDict, "authorization": (type(None), ds.Authorization), "accept_mimetypes": ds.MIMEAccept,
        "accept_charsets": ds.CharsetAccept, "accept_encodings": ds.Accept, "accept_languages": ds.LanguageAccept, "cache_control": ds.RequestCacheControl,
        "if_match": ds.ETags, "if_none_match": ds.ETags, "if_modified_since": (type(None), dt.datetime), "if_unmodified_since": (type(None), dt.datetime),
        "if_range": ds.IfRange, "range": (type(None), ds.Range), "host": str, "url": str, "base_url": str, "root_url": str, "host_url": str, "url_root": str,
        "full_path": str, "mimetype": str, "mimetype_params": dict, "content_length": (type(None), int), "access_route": list, "form": ds.MultiDict,
        "files": ds.MultiDict, "data": bytes, "values": ds.CombinedMultiDict, "pragma": ds.HeaderSet, "date": (type(None), dt.datetime),
        "max_forwards": (type(None), int), "user_agent": UserAgent, "content_type": (type(None), str), "content_encoding": (type(None), str),
        "content_md5": (type(None), str), "referrer": (type(None), str), "origin": (type(None), str), "access_control_request_headers": (type(None), ds.HeaderSet),
        "access_control_request_method": (type(None), str), "is_json": bool, "is_secure": bool, "path": str, "script_root": str, "root_path": str,
        "query_string": bytes, "remote_addr": (type(None), str), "method": str, "scheme": str, "want_form_data_parsed": bool, "headers": ds.EnvironHeaders,
        "remote_user": (type(None), str), "server": (type(None), tuple), "trusted_hosts": (type(None), list), "is_multithread": bool, "is_multiprocess": bool,
        "is_run_once": bool, "shallow": bool, "environ": dict, "stream": object, "input_stream": object, "json": object,
    }
    public = sorted(a for a in dir(Request) if not a.startswith("_") and not callable(getattr(Request, a, None)) or
                    isinstance(getattr(Request, a, None), property) or type(getattr(Request, a, None)).__name__ in ("cached_property", "header_property", "environ_property"))
    skip = {"json_module", "max_content_length", "max_form_memory_size", "max_form_parts", "form_data_parser_class", "parameter_storage_class",
            "dict_storage_class", "list_storage_class", "user_agent_class", "charset", "encoding_errors"}
    attrs = [a for a in public if a not in skip and not isinstance(getattr(Request, a, None), type)]
    missing = [a for a in attrs if a not in ATTRS]
    if missing:
        chk.broken("harness", "Request attributes", f"public attributes without a documented type in the harness table: {missing}")
    HDRS = ["HTTP_HOST", "HTTP_COOKIE", "HTTP_AUTHORIZATION", "HTTP_ACCEPT", "HTTP_ACCEPT_CHARSET", "HTTP_ACCEPT_ENCODING", "HTTP_ACCEPT_LANGUAGE", "HTTP_CACHE_CONTROL",
            "HTTP_IF_MATCH", "HTTP_IF_NONE_MATCH", "HTTP_IF_MODIFIED_SINCE", "HTTP_IF_UNMODIFIED_SINCE", "HTTP_IF_RANGE", "HTTP_RANGE", "CONTENT_TYPE", "CONTENT_LENGTH",
            "QUERY_STRING", "PATH_INFO", "HTTP_X_FORWARDED_FOR", "HTTP_PRAGMA", "HTTP_DATE", "HTTP_MAX_FORWARDS", "HTTP_USER_AGENT", "HTTP_REFERER", "HTTP_ORIGIN",
            "HTTP_ACCESS_CONTROL_REQUEST_HEADERS", "HTTP_ACCESS_CONTROL_REQUEST_METHOD", "HTTP_TRANSFER_ENCODING", "HTTP_CONTENT_MD5", "HTTP_CONTENT_ENCODING", "HTTP_X_ANYTHING"]

    def mkenv(over, method="GET", body=b""):
        e = {"REQUEST_METHOD": method, "SCRIPT_NAME": "", "PATH_INFO": "/", "QUERY_STRING": "", "SERVER_NAME": "localhost", "SERVER_PORT": "80",
             "SERVER_PROTOCOL": "HTTP/1.1", "wsgi.version": (1, 0), "wsgi.url_scheme": "http", "wsgi.input": io.BytesIO(body), "wsgi.errors": sys.stderr,
             "wsgi.multithread": False, "wsgi.multiprocess": False, "wsgi.run_once": False, "REMOTE_ADDR": "127.0.0.1"}
        e.update(over)
        return e
    bodies = [b"", b"a=b&c=%ff", b"--x\r\nContent-Disposition: form-data; name=\"a\"\r\n\r\nv\r\n--x--\r\n", b'{"a": 1}', b"\xff\xfe"]
    env_cases = [({k: v}, m) for k, vs in corpus["environ"].items() for v in vs for m in ("GET", "POST")]
    env_cases += [({k: v}, "GET") for k, v in boundary_environs(counts)]
    bcs = boundary_cases(rng, fz, [10])
    for k, pick in (("HTTP_COOKIE", lambda x: x.startswith(("a=", "sid=", "k=", "first=", "b="))), ("HTTP_RANGE", lambda x: x.startswith(("bytes=", "items ="))),
                    ("HTTP_IF_RANGE", lambda x: x.startswith("bytes=")), ("CONTENT_TYPE", lambda x: x.startswith("a; k*"))):
        env_cases += [({k: v}, "GET") for v in bcs if pick(v) and len(v) < 200][:(120 if quick else 400)]
    dbs, bts = date_boundaries(), backtracking_shapes()
    for hname in ("HTTP_DATE", "HTTP_IF_MODIFIED_SINCE", "HTTP_IF_UNMODIFIED_SINCE", "HTTP_IF_RANGE"):
        env_cases += [({hname: v}, "GET") for v in (dbs if not quick else dbs[::3] + dbs[-9:])]
    for hname, pick in (("HTTP_COOKIE", ("session", "a=b", "k=", "a ")), ("CONTENT_TYPE", ("a; k", "form-data", "text/html;")), ("HTTP_IF_NONE_MATCH", ('"', "W/")),
                        ("HTTP_ACCEPT", ("a;q", "text/html", "a/")), ("HTTP_RANGE", ("bytes=",)), ("HTTP_AUTHORIZATION", ("Basic ",)), ("HTTP_IF_RANGE", ('"', "W/", "1 Jan", "Mon,")),
                        ("HTTP_CACHE_CONTROL", ("k=", "a "))):
        env_cases += [({hname: v}, "GET") for v in bts if v.startswith(pick)][:(60 if quick else 400)]
    for _ in range(n):
        over = {}
        for _ in range(rng.choice([1, 1, 1, 2, 3])):
            over[rng.choice(HDRS)] = gen_hostile(rng) if rng.random() < 0.4 else gen_structured(rng)
        env_cases.append((over, rng.choice(["GET", "POST", "PUT", "HEAD"])))
    for over, method in env_cases:
        body = rng.choice(bodies)
        for a in attrs:
            name = f"Request.{a}"

            def get(_):
                req = Request(mkenv(dict(over), method, body))
                try:
                    return getattr(req, a)
                finally:
                    req.close()
            t = ATTRS.get(a, object)
            observe(name, get, over, lambda r, t=t: isinstance(r, t))
    # the query text as Request.full_path shows it
    gen_flags = open(os.path.join(COQ, "C07", "Gen.v"), encoding="utf-8").read()
    fp_replace = "full_path_decode_replace : bool := true" in gen_flags
    for q in corpus["environ"].get("QUERY_STRING", []) + [gen_hostile(rng) for _ in range(n // 2)]:
        lines.append(f"query {int(fp_replace)} {cps(q)}")
        try:
            fp = Request(mkenv({"QUERY_STRING": q})).full_path
            impl.append("ok " + cps(fp[2:]))
        except Exception as e:  # noqa: BLE001
            impl.append(exn(e))
        canon.append(None)

    # ---------------------------------------------------------------- model side
    exe = chk.build_modelrun("C07")
    if exe:
        res = chk.run_model(exe, lines)
        if res is not None:
            mism = unmod = 0
            for ln, a, b, cn in zip(lines, impl, res, canon):
                if b == "err:Unmodelled" and cn is None:
                    unmod += 1
                    continue
                if cn is not None:
                    b = cn(b)
                if a != b:
                    mism += 1
                    if mism <= 6:
                        chk.broken("correspondence", "C07 model vs werkzeug", f"case {ln[:200]!r}: impl {a[:200]!r} model {b[:200]!r}",
                                   case={"line": ln[:2000], "impl": a[:2000], "model": b[:2000]})
            chk.count("model:compared", len(lines) - unmod)
            chk.count("model:unmodelled", unmod)
            chk.count("model:mismatches", mism)


def main(chk: Check) -> None:
    try:
        c06mod.gen()
        from . import c13 as c13mod     # the cookie model reads C13/Gen.v (class tables, pattern texts): keep it current
        c13mod.gen()
        gen()
    except px.Unsupported as e:
        chk.broken("translator", "C07/Gen.v", str(e))
    chk.forbidden_scan()
    if chk.coq_make(["C07/Props.vo", "C07/Extract.vo"]):
        chk.audit_props("C07/Props.v")
    else:
        chk.cov["obligations"] += 1
    chk.trusted += [
        "translator tools/c07.py (except clauses, decode error modes, default-port rules, get_content_length shape) and tools/c06.py (tables and regex pins of the shared parsers)",
        "extraction ExtrOcamlBasic + tools/conv.ml + coq/C07/driver.ml, OCaml 4.13.1",
        "the C06 parser models and the C13 cookie model (validated differentially here on hostile input)",
        "hand-written model of binascii.a2b_base64 (non-strict) and of urlsplit's netloc / port for bracket-free Latin-1 hosts, validated differentially against CPython",
        "harness only (no model): email.utils date parsing, float(), Accept matching and codecs.lookup, idna codec, ipaddress / NFKC checks in urlsplit, form and multipart parsing, json",
        "statement pins tools/pins/c07_request.txt (59 skeletons: parse_accept_header, sansio.utils get_host / get_current_url / get_content_length, the sansio and WSGI Request "
        "attribute bodies and header_property table, uri_to_iri / _decode_idna, _get_server, _DictAccessorProperty.__get__, header_property / environ_property) on top of c06_codecs.txt and c13_cookies.txt",
        "validated differentially only, no pin here: CPython library code (urllib.parse urlsplit / parse_qsl / quote / unquote, base64, email.utils, codecs idna, ipaddress, unicodedata, json, re); "
        "werkzeug code pinned by its own property: EnvironHeaders / MultiDict / ImmutableList glue (C08 pins), formparser / multipart / get_input_stream / LimitedStream (C01, C02, C09, C10 pins), "
        "Accept classes (C17 translator), UserAgent (a plain string holder)",
        "termination of the implementation is observed with a 3 s wall-clock watchdog per call (vlib.with_timeout)",
    ]
    run(chk)
    chk.finish(rule="corpus of known inputs first; then hostile strings from the property's token alphabet (separators, quotes, =, *, %, RFC 2231 markers, base64, "
                    "dates, digits incl. 4301-digit runs, brackets, high-bit Latin-1; no control characters) through every parser named in the property and, "
                    "placed in 1-3 client-controlled environ variables, through every public Request attribute; oracle: documented type or HTTPException, "
                    "3 s watchdog; model-vs-implementation on value or exception class for the modelled parsers (also on inputs with control characters). "
                    "Non-trivial = non-empty input; distinct by hash of (call site, input).")


def replay(rep) -> int:
    """re-run a replay file's input on the implementation and print what happens."""
    import werkzeug.http as H
    import werkzeug.sansio.http as SH
    from werkzeug import datastructures as ds
    from werkzeug.wrappers import Request
    inp = rep.get("input") or (rep.get("broken") or [{}])[0].get("case")
    print(json.dumps({k: rep.get(k) for k in ("property", "kind", "key", "what", "no_longer_checks")}, indent=1, default=repr))
    if not isinstance(inp, dict) or "parser" not in inp:
        print("replay input:", json.dumps(inp, indent=1, default=repr))
        return 0
    name, arg = inp["parser"], inp["input"]
    table = {"parse_options_header": H.parse_options_header, "parse_list_header": H.parse_list_header, "parse_dict_header": H.parse_dict_header,
             "parse_set_header": H.parse_set_header, "parse_etags": H.parse_etags, "parse_range_header": H.parse_range_header,
             "parse_content_range_header": H.parse_content_range_header, "parse_if_range_header": H.parse_if_range_header, "parse_date": H.parse_date,
             "parse_age": H.parse_age, "http.parse_cookie": H.parse_cookie, "sansio.parse_cookie": SH.parse_cookie, "parse_csp_header": H.parse_csp_header,
             "Authorization.from_header": ds.Authorization.from_header, "WWWAuthenticate.from_header": ds.WWWAuthenticate.from_header,
             "parse_accept_header": H.parse_accept_header, "parse_cache_control_header": H.parse_cache_control_header}
    try:
        if name.startswith("Request."):
            env = {"REQUEST_METHOD": "GET", "SCRIPT_NAME": "", "PATH_INFO": "/", "QUERY_STRING": "", "SERVER_NAME": "localhost", "SERVER_PORT": "80",
                   "wsgi.url_scheme": "http", "wsgi.input": io.BytesIO(b""), "wsgi.errors": sys.stderr}
            env.update(arg)
            out = with_timeout(lambda: getattr(Request(env), name.split(".", 1)[1].split("@")[0]), 5.0)
        else:
            fn = table.get(name.split("[")[0])
            if fn is None:
                print(f"no replay entry for {name}")
                return 0
            out = with_timeout(fn, 5.0, arg)
        print(f"{name}({arg!r}) returned {out!r}")
        return 0
    except ImplTimeout:
        print(f"{name}({arg!r}) did not return within 5 s")
        return 1
    except Exception as e:  # noqa: BLE001
        print(f"{name}({arg!r}) raised {type(e).__name__}: {e}")
        return 1
