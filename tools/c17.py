"""C17  Content negotiation picks a best-quality, most-specific offer."""
from __future__ import annotations

import ast
import codecs
import os
import re
from fractions import Fraction

from . import pyextract as px
from .vlib import COQ, Check, cps, with_timeout

PID = "C17"
CLAIM = dict(
    text="Coq theorems over an executable model of http.parse_accept_header (list and options parsers, q grammar, range "
         "check, option reconstruction) and of Accept / MIMEAccept / LanguageAccept / CharsetAccept (stable sort by "
         "(specificity, quality), range matching, quality, best_match, best, values, to_header/str, the two language fallbacks; "
         "RFC 2231 key*= parameters included): the negotiated offer is "
         "optimal for the client's qualities with the stated tie rules, None exactly when no offer has a positive quality, "
         "items with malformed or out-of-range q are dropped, the parsed list is a stable rearrangement; a header "
         "written from plain items parses back to them (so optimality holds for header text end to end) and str(accept) "
         "round-trips. Decision "
         "expressions (range check, sort key, best_match conditions, the four _value_matches, _specificity) and the regex "
         "texts / token tables are regenerated from the source on every run; the rest is tied by differential execution "
         "(extracted OCaml model vs werkzeug) on ~30k header x offers cases per quick run.",
    note="Trusted: Coq kernel; translator tools/c17.py (atom table); ExtrOcamlBasic extraction + driver; q literals restricted "
         "to <= 15 significant digits and <= 300 fraction digits so that float comparison equals decimal-rational comparison; "
         "sorted(reverse=True) is a stable sort (modelled by a stable insertion sort); codecs.lookup enters as a harness-supplied "
         "normalisation table; ASCII case mapping; urllib.parse.unquote and the three allow-listed codecs of RFC 2231 "
         "parameters are hand-modelled.",
    design="6/C17")


# ====================================================================== translator (tie a)

class _Tx:
    """boolean / comparison expressions -> Gallina, through an explicit operand table."""

    def __init__(self, operands: dict[str, tuple[str, str]]):
        self.operands = operands

    def operand(self, node: ast.expr, peer_type: str | None = None) -> tuple[str, str]:
        text = ast.unparse(node)
        if text in self.operands:
            return self.operands[text]
        if isinstance(node, ast.Constant) and isinstance(node.value, int) and not isinstance(node.value, bool):
            if peer_type == "Q":
                return "Q", f"(ofZ ({node.value})%Z)"
        if (isinstance(node, ast.UnaryOp) and isinstance(node.op, ast.USub) and isinstance(node.operand, ast.Constant)
                and isinstance(node.operand.value, int) and peer_type == "Q"):
            return "Q", f"(ofZ (-{node.operand.value})%Z)"
        raise px.Unsupported(f"unknown operand {text!r}")

    def cmp(self, left: ast.expr, op: ast.cmpop, right: ast.expr) -> str:
        if isinstance(op, (ast.In, ast.NotIn)):
            if not (isinstance(left, ast.Constant) and isinstance(left.value, str) and len(left.value) == 1):
                raise px.Unsupported(f"membership test with non-character left side {ast.unparse(left)!r}")
            ty, r = self.operand(right)
            if ty != "str":
                raise px.Unsupported("membership test on a non-string")
            t = f"(mem {ord(left.value)} {r})"
            return t if isinstance(op, ast.In) else f"(negb {t})"
        try:
            lt, l = self.operand(left)
            rt, r = self.operand(right, lt)
        except px.Unsupported:
            rt, r = self.operand(right)
            lt, l = self.operand(left, rt)
        if lt != rt:
            raise px.Unsupported(f"comparison between {lt} and {rt}: {ast.unparse(left)} / {ast.unparse(right)}")
        table = {
            # quality comparisons are emitted over an abstract ordered type (T, tlt, tle, teq, ofZ): instantiated with decimal
            # rationals for the model and with any float-like type satisfying the float contract (C17_float_contract)
            "Q": {ast.Lt: "(tlt {l} {r})", ast.LtE: "(tle {l} {r})", ast.Gt: "(tlt {r} {l})", ast.GtE: "(tle {r} {l})",
                  ast.Eq: "(teq {l} {r})", ast.NotEq: "(negb (teq {l} {r}))"},
            "S": {ast.Lt: "(spec_ltb {l} {r})", ast.LtE: "(spec_leb {l} {r})", ast.Gt: "(spec_ltb {r} {l})",
                  ast.GtE: "(spec_leb {r} {l})", ast.Eq: "(spec_eqb {l} {r})", ast.NotEq: "(negb (spec_eqb {l} {r}))"},
            "str": {ast.Eq: "(str_eqb {l} {r})", ast.NotEq: "(str_neqb {l} {r})"},
            "strs": {ast.Eq: "(strs_eqb {l} {r})", ast.NotEq: "(negb (strs_eqb {l} {r}))"},
        }
        fmt = table[lt].get(type(op))
        if fmt is None:
            raise px.Unsupported(f"operator {type(op).__name__} not supported on {lt}")
        return fmt.format(l=l, r=r)

    def expr(self, node: ast.expr) -> str:
        if isinstance(node, ast.BoolOp):
            sep = " && " if isinstance(node.op, ast.And) else " || "
            return "(" + sep.join(self.expr(v) for v in node.values) + ")"
        if isinstance(node, ast.UnaryOp) and isinstance(node.op, ast.Not):
            return f"(negb {self.expr(node.operand)})"
        if isinstance(node, ast.Compare):
            if len(node.ops) != 1:
                raise px.Unsupported(f"chained comparison {ast.unparse(node)!r}")
            return self.cmp(node.left, node.ops[0], node.comparators[0])
        if isinstance(node, ast.Constant) and isinstance(node.value, bool):
            return "true" if node.value else "false"
        raise px.Unsupported(f"expression not in the decision subset: {ast.unparse(node)!r}")

    def body(self, stmts: list[ast.stmt], pinned: list[str]) -> str:
        """if-return / if-raise ValueError chains ending in `return <expr>`; assignments and local defs
        must be exactly the pinned ones (their meaning is in C17/Base.v)."""
        seen = []
        out = []
        closed = False
        for st in stmts:
            if closed:
                raise px.Unsupported("statement after the final return")
            if isinstance(st, ast.Expr) and isinstance(st.value, ast.Constant) and isinstance(st.value.value, str):
                continue
            if isinstance(st, (ast.Assign, ast.FunctionDef)):
                text = ast.unparse(st)
                if text not in pinned:
                    raise px.Unsupported(f"binding changed or unknown: {text!r}")
                seen.append(text)
                continue
            if isinstance(st, ast.If) and not st.orelse and len(st.body) == 1:
                b = st.body[0]
                if isinstance(b, ast.Return) and isinstance(b.value, ast.Constant) and isinstance(b.value.value, bool):
                    out.append(f"if {self.expr(st.test)} then Ok {'true' if b.value.value else 'false'} else")
                    continue
                if isinstance(b, ast.Raise) and isinstance(b.exc, ast.Call) and ast.unparse(b.exc.func) == "ValueError":
                    out.append(f"if {self.expr(st.test)} then Err ValueError else")
                    continue
            if isinstance(st, ast.Return) and st.value is not None:
                out.append(f"Ok {self.expr(st.value)}")
                closed = True
                continue
            raise px.Unsupported(f"statement not in the decision subset: {ast.unparse(st)!r}")
        if not closed:
            raise px.Unsupported("function does not end in a return")
        if sorted(seen) != sorted(pinned):
            raise px.Unsupported(f"bindings {sorted(set(pinned) - set(seen))} disappeared")
        return "\n  ".join(out)


def _method(cls: ast.ClassDef, name: str) -> ast.FunctionDef:
    found = [n for n in cls.body if isinstance(n, ast.FunctionDef) and n.name == name
             and not any(ast.unparse(d).endswith("overload") for d in n.decorator_list)]
    if len(found) != 1:
        raise px.Unsupported(f"expected exactly one def {cls.name}.{name}, found {len(found)}")
    return found[0]


def _stmts(fn: ast.FunctionDef) -> list[ast.stmt]:
    """body without the docstring"""
    b = fn.body
    if b and isinstance(b[0], ast.Expr) and isinstance(b[0].value, ast.Constant) and isinstance(b[0].value.value, str):
        b = b[1:]
    return b


def _expect(stmts: list[ast.stmt], texts: list[str], where: str) -> None:
    got = [ast.unparse(s) for s in stmts]
    if got != texts:
        raise px.Unsupported(f"{where}: statements changed: {got!r}")


def _class_of(pat: str, flags: int, prefix: str, suffix: str, what: str) -> list[int]:
    """pattern must be prefix + [class]+ + suffix with an ASCII-only class; returns its 128-table."""
    if not (pat.startswith(prefix + "[") and pat.endswith("]+" + suffix)):
        raise px.Unsupported(f"{what} is not {prefix}[class]+{suffix}: {pat!r}")
    body = pat[len(prefix):len(pat) - len(suffix) - 1]
    px.single_class_pattern(body)
    if not flags & re.A:
        raise px.Unsupported(f"{what} lost re.ASCII")
    rx = re.compile(body, flags)
    for cp in list(range(128, 0x3000)) + [0xFF21, 0x1F600, 0x10FFFF]:
        if rx.fullmatch(chr(cp)):
            raise px.Unsupported(f"{what} matches a non-ASCII code point")
    return px.class_table(body, flags, range(128))


def gen() -> None:
    """T1 + T2: regenerate coq/C17/Gen.v from src/werkzeug/http.py and datastructures/accept.py."""
    http = px.load("http.py")
    acc = px.load("datastructures/accept.py")
    out = ["(* GENERATED by tools/c17.py from http.py, datastructures/accept.py on every run - do not edit *)",
           "From Coq Require Import ZArith.", "From Wz Require Import lib.Bytes C17.Base.", "Open Scope N_scope.", ""]

    # ---------------------------------------------------------------- T1: pattern texts, flags, tables
    for name, coqname, mod in [("_q_value_re", "q_value_re", http), ("_continuation_re", "continuation_re", http),
                               ("_parameter_key_re", "parameter_key_re", http),
                               ("_parameter_token_value_re", "parameter_token_value_re", http),
                               ("_mime_split_re", "mime_split_re", acc), ("_locale_delim_re", "locale_delim_re", acc)]:
        pat, flags = px.regex_of(px.find_assign(mod, name))
        if not isinstance(pat, str):
            raise px.Unsupported(f"{name} is not a str pattern")
        out.append(f"Definition {coqname}_text : list N := {px.coq_string_codes(pat)}.")
        out.append(f"Definition {coqname}_flags : N := {int(flags)}.")
    kpat, kflags = px.regex_of(px.find_assign(http, "_parameter_key_re"))
    if not (kpat.startswith("(") and kpat.endswith(")=")):
        raise px.Unsupported(f"_parameter_key_re is not ([class]+)=: {kpat!r}")
    ktab = _class_of(kpat[1:-2], kflags, "", "", "_parameter_key_re")
    tpat, tflags = px.regex_of(px.find_assign(http, "_parameter_token_value_re"))
    ttab = _class_of(tpat, tflags, "", "", "_parameter_token_value_re")
    out.append(f"Definition param_key_class : list (N * N) := {px.coq_ranges(ktab)}.")
    out.append(f"Definition param_token_class : list (N * N) := {px.coq_ranges(ttab)}.")
    # RFC 2231: _charset_value_re (VERBOSE) = ([c1]*)'  [lang]*'  ([c2]+) ; the allow list of parse_options_header
    cpat, cflags = px.regex_of(px.find_assign(http, "_charset_value_re"))
    if not isinstance(cpat, str) or not (cflags & re.X) or not (cflags & re.A):
        raise px.Unsupported("_charset_value_re is not a str pattern with re.ASCII | re.VERBOSE")
    ctxt = "".join(re.sub(r"\s+#\s.*", "", ln).strip() for ln in cpat.splitlines())
    m = re.fullmatch(r"\((\[[^\]]+\])\*\)'(\[[^\]]+\])\*'\((\[[^\]]+\])\+\)", ctxt)
    if m is None:
        raise px.Unsupported(f"_charset_value_re does not have the modelled shape: {ctxt!r}")
    out.append(f"Definition charset_value_re_text : list N := {px.coq_string_codes(ctxt)}.")
    out.append(f"Definition charset_value_re_flags : N := {int(cflags)}.")
    for nm, grp in (("charset_c1_class", 1), ("charset_lang_class", 2), ("charset_c2_class", 3)):
        tab = _class_of(m.group(grp) + "+", cflags & ~re.X, "", "", "_charset_value_re " + nm)
        out.append(f"Definition {nm} : list (N * N) := {px.coq_ranges(tab)}.")
    poh = px.find_def(http, "parse_options_header")
    sets = [n for n in ast.walk(poh) if isinstance(n, ast.Compare) and len(n.ops) == 1 and isinstance(n.ops[0], ast.In)
            and ast.unparse(n.left) == "encoding" and isinstance(n.comparators[0], ast.Set)]
    if len(sets) != 1:
        raise px.Unsupported("parse_options_header: expected one `encoding in {...}` test")
    allowed = [px.const(e) for e in sets[0].comparators[0].elts]
    if not all(isinstance(a, str) and a.isascii() for a in allowed):
        raise px.Unsupported("charset allow list is not a set of ASCII strings")
    out.append("Definition options_charsets : list (list N) := [" + "; ".join(px.coq_string_codes(a) for a in sorted(allowed)) + "].")
    tc = px.find_assign(http, "_token_chars")
    if not (isinstance(tc, ast.Call) and ast.unparse(tc.func) == "frozenset" and len(tc.args) == 1 and not tc.keywords):
        raise px.Unsupported("_token_chars is not frozenset(<literal>)")
    tchars = px.const(tc.args[0])
    if not isinstance(tchars, str) or not tchars.isascii():
        raise px.Unsupported("_token_chars is not an ASCII string literal")
    out.append(f"Definition token_chars : list (N * N) := {px.coq_ranges([ord(c) for c in tchars])}.")
    out.append("")

    # ---------------------------------------------------------------- T2: parse_accept_header
    pah = [n for n in http.body if isinstance(n, ast.FunctionDef) and n.name == "parse_accept_header"
           and not n.decorator_list]
    if len(pah) != 1:
        raise px.Unsupported("parse_accept_header: expected one undecorated def")
    st = _stmts(pah[0])
    if len(st) != 5:
        raise px.Unsupported(f"parse_accept_header has {len(st)} top-level statements, expected 5")
    _expect(st[:3], ["if cls is None:\n    cls = t.cast(type[_TAnyAccept], ds.Accept)",
                     "if not value:\n    return cls(None)", "result = []"], "parse_accept_header head")
    _expect(st[4:], ["return cls(result)"], "parse_accept_header tail")
    loop = st[3]
    if not (isinstance(loop, ast.For) and ast.unparse(loop.target) == "item"
            and ast.unparse(loop.iter) == "parse_list_header(value)" and not loop.orelse and len(loop.body) == 4):
        raise px.Unsupported("parse_accept_header loop changed")
    _expect([loop.body[0]], ["item, options = parse_options_header(item)"], "parse_accept_header loop")
    _expect(loop.body[2:], ["if options:\n    item = dump_options_header(item, options)", "result.append((item, q))"],
            "parse_accept_header loop tail")
    qif = loop.body[1]
    if not (isinstance(qif, ast.If) and ast.unparse(qif.test) == "'q' in options" and len(qif.body) == 4
            and len(qif.orelse) == 1):
        raise px.Unsupported("parse_accept_header q branch changed")
    _expect(qif.body[:3], ["q_str = options.pop('q').strip()",
                           "if _q_value_re.fullmatch(q_str) is None:\n    continue", "q = float(q_str)"],
            "parse_accept_header q branch")
    rng = qif.body[3]
    if not (isinstance(rng, ast.If) and not rng.orelse and len(rng.body) == 1 and isinstance(rng.body[0], ast.Continue)):
        raise px.Unsupported("parse_accept_header range check is not `if <cond>: continue`")
    tq = _Tx({"q": ("Q", "q")})
    out.append(f"Definition g_q_out_of_range (T : Type) (tlt tle teq : T -> T -> bool) (ofZ : Z -> T) (q : T) : bool := {tq.expr(rng.test)}.")
    out.append("Definition q_out_of_range : Qd -> bool := g_q_out_of_range Qd qltb qleb qeqb q_of_Z.")
    dflt = qif.orelse[0]
    if not (isinstance(dflt, ast.Assign) and ast.unparse(dflt.targets[0]) == "q" and isinstance(dflt.value, ast.Constant)
            and isinstance(dflt.value.value, int)):
        raise px.Unsupported("default q is not an integer literal")
    out.append(f"Definition q_default : Qd := q_of_Z ({dflt.value.value})%Z.")

    # ---------------------------------------------------------------- T2: Accept
    A = px.find_class(acc, "Accept")
    init = _method(A, "__init__")
    srt = [n for n in ast.walk(init) if isinstance(n, ast.Call) and ast.unparse(n.func) == "sorted"]
    if len(srt) != 1:
        raise px.Unsupported("Accept.__init__: expected one sorted() call")
    kw = {k.arg: ast.unparse(k.value) for k in srt[0].keywords}
    if (len(srt[0].args) != 1 or ast.unparse(srt[0].args[0]) != "values"
            or kw != {"key": "lambda x: (self._specificity(x[0]), x[1])", "reverse": "True"}):
        raise px.Unsupported(f"Accept.__init__ sort changed: {ast.unparse(srt[0])!r}")
    out.append("(* sorted(values, key=lambda x: (self._specificity(x[0]), x[1]), reverse=True) *)")
    out.append("Definition sort_key_specificity_then_quality_descending : bool := true.")

    spec_fn = _stmts(_method(A, "_specificity"))
    if not (len(spec_fn) == 1 and isinstance(spec_fn[0], ast.Return) and isinstance(spec_fn[0].value, ast.Tuple)):
        raise px.Unsupported("Accept._specificity is not `return (<bools>,)`")
    tv = _Tx({"value": ("str", "value"), "'*'": ("str", "star")})
    out.append("Definition base_specificity (value : str) : spec := ["
               + "; ".join(f"z_of_bool {tv.expr(e)}" for e in spec_fn[0].value.elts) + "].")

    tm = _Tx({"value": ("str", "value"), "item": ("str", "item"), "'*'": ("str", "star"),
              "item.lower()": ("str", "(lower item)"), "value.lower()": ("str", "(lower value)")})
    out.append("Definition base_value_matches (value item : str) : result bool :=\n  "
               + tm.body(_stmts(_method(A, "_value_matches")), []) + ".")

    _expect(_stmts(_method(A, "quality")),
            ["for item, quality in self:\n    if self._value_matches(key, item):\n        return quality", "return 0"],
            "Accept.quality")
    out.append("Definition quality_default : Qd := q_of_Z 0%Z.")
    _expect(_stmts(_method(A, "__contains__")),
            ["for item, _quality in self:\n    if self._value_matches(value, item):\n        return True", "return False"],
            "Accept.__contains__")
    _expect(_stmts(_method(A, "_best_single_match")),
            ["for client_item, quality in self:\n    if self._value_matches(match, client_item):\n        return (client_item, quality)",
             "return None"], "Accept._best_single_match")

    bm = _stmts(_method(A, "best_match"))
    if len(bm) != 5:
        raise px.Unsupported(f"Accept.best_match has {len(bm)} statements, expected 5")
    _expect([bm[0], bm[4]], ["result = default", "return result"], "Accept.best_match")
    for node, name, coqname, ty in [(bm[1], "best_quality", "bm_init_quality", "Q"),
                                    (bm[2], "best_specificity", "bm_init_specificity", "S")]:
        if not (isinstance(node, ast.AnnAssign) and ast.unparse(node.target) == name and node.value is not None):
            raise px.Unsupported(f"Accept.best_match: initial {name} changed")
        v = px.const(node.value)
        if ty == "Q":
            if not isinstance(v, int):
                raise px.Unsupported("initial best_quality is not an integer literal")
            out.append(f"Definition {coqname} : Qd := q_of_Z ({v})%Z.")
        else:
            if not (isinstance(v, tuple) and all(isinstance(x, int) for x in v)):
                raise px.Unsupported("initial best_specificity is not a tuple of integers")
            out.append(f"Definition {coqname} : spec := [" + "; ".join(f"({int(x)})%Z" for x in v) + "].")
    loop = bm[3]
    if not (isinstance(loop, ast.For) and ast.unparse(loop.target) == "server_item" and ast.unparse(loop.iter) == "matches"
            and not loop.orelse and len(loop.body) == 6):
        raise px.Unsupported("Accept.best_match loop changed")
    _expect(loop.body[:4], ["match = self._best_single_match(server_item)", "if not match:\n    continue",
                            "client_item, quality = match", "specificity = self._specificity(client_item)"],
            "Accept.best_match loop")
    skip, take = loop.body[4], loop.body[5]
    if not (isinstance(skip, ast.If) and not skip.orelse and len(skip.body) == 1 and isinstance(skip.body[0], ast.Continue)):
        raise px.Unsupported("Accept.best_match: skip test is not `if <cond>: continue`")
    if not (isinstance(take, ast.If) and not take.orelse):
        raise px.Unsupported("Accept.best_match: take test changed")
    _expect(take.body, ["result = server_item", "best_quality = quality", "best_specificity = specificity"],
            "Accept.best_match take branch")
    tb = _Tx({"quality": ("Q", "quality"), "best_quality": ("Q", "best_quality"),
              "specificity": ("S", "specificity"), "best_specificity": ("S", "best_specificity")})
    out.append(f"Definition g_bm_skip (T : Type) (tlt tle teq : T -> T -> bool) (ofZ : Z -> T) (quality best_quality : T) : bool := {tb.expr(skip.test)}.")
    out.append("Definition g_bm_take (T : Type) (tlt tle teq : T -> T -> bool) (ofZ : Z -> T) (quality best_quality : T) (specificity best_specificity : spec) : bool := "
               + tb.expr(take.test) + ".")
    out.append("Definition bm_skip : Qd -> Qd -> bool := g_bm_skip Qd qltb qleb qeqb q_of_Z.")
    out.append("Definition bm_take : Qd -> Qd -> spec -> spec -> bool := g_bm_take Qd qltb qleb qeqb q_of_Z.")

    # ---------------------------------------------------------------- T2: MIMEAccept
    _expect(_stmts(px.find_def(acc, "_normalize_mime")), ["return _mime_split_re.split(value.lower())"], "_normalize_mime")
    M = px.find_class(acc, "MIMEAccept")
    ms = _stmts(_method(M, "_specificity"))
    ok = False
    if len(ms) == 1 and isinstance(ms[0], ast.Return) and isinstance(ms[0].value, ast.Call) \
            and ast.unparse(ms[0].value.func) == "tuple" and len(ms[0].value.args) == 1 \
            and isinstance(ms[0].value.args[0], ast.GeneratorExp):
        g = ms[0].value.args[0]
        if len(g.generators) == 1 and not g.generators[0].ifs and ast.unparse(g.generators[0].target) == "x" \
                and ast.unparse(g.generators[0].iter) == "_mime_split_re.split(value)":
            tx = _Tx({"x": ("str", "x"), "'*'": ("str", "star")})
            out.append(f"Definition mime_specificity (value : str) : spec := map (fun x => z_of_bool {tx.expr(g.elt)}) "
                       "(mime_split value).")
            ok = True
    if not ok:
        raise px.Unsupported("MIMEAccept._specificity changed")
    tmm = _Tx({"value": ("str", "value"), "item": ("str", "item"), "'*'": ("str", "star"),
               "value_type": ("str", "value_type"), "value_subtype": ("str", "value_subtype"),
               "item_type": ("str", "item_type"), "item_subtype": ("str", "item_subtype"),
               "value_params": ("strs", "value_params"), "item_params": ("strs", "item_params")})
    out.append("Definition mime_value_matches (value item value_type value_subtype item_type item_subtype : str)\n"
               "    (value_params item_params : list str) : result bool :=\n  "
               + tmm.body(_stmts(_method(M, "_value_matches")),
                          ["normalized_value = _normalize_mime(value)", "value_type, value_subtype = normalized_value[:2]",
                           "value_params = sorted(normalized_value[2:])", "normalized_item = _normalize_mime(item)",
                           "item_type, item_subtype = normalized_item[:2]", "item_params = sorted(normalized_item[2:])"])
               + ".")

    # ---------------------------------------------------------------- T2: LanguageAccept, CharsetAccept
    _expect(_stmts(px.find_def(acc, "_normalize_lang")), ["return _locale_delim_re.split(value.lower())"], "_normalize_lang")
    L = px.find_class(acc, "LanguageAccept")
    tl = _Tx({"item": ("str", "item"), "'*'": ("str", "star"),
              "_normalize_lang(value)": ("strs", "(normalize_lang value)"),
              "_normalize_lang(item)": ("strs", "(normalize_lang item)")})
    out.append("Definition lang_value_matches (value item : str) : result bool :=\n  "
               + tl.body(_stmts(_method(L, "_value_matches")), []) + ".")
    C = px.find_class(acc, "CharsetAccept")
    tcs = _Tx({"item": ("str", "item"), "'*'": ("str", "star"),
               "_normalize(value)": ("str", "(normalize value)"), "_normalize(item)": ("str", "(normalize item)")})
    out.append("Definition charset_value_matches (normalize : str -> str) (value item : str) : result bool :=\n  "
               + tcs.body(_stmts(_method(C, "_value_matches")),
                          ["def _normalize(name: str) -> str:\n    try:\n        return codecs.lookup(name).name\n"
                           "    except (LookupError, ValueError):\n        return name.lower()"]) + ".")
    # LanguageAccept.best_match: the three stages, statement by statement (the model is Model.lang_best_match)
    _expect(_stmts(_method(L, "best_match")),
            ["result = super().best_match(matches)", "if result is not None:\n    return result",
             "fallback = Accept([(_locale_delim_re.split(item[0], 1)[0], item[1]) for item in self])",
             "result = fallback.best_match(matches)", "if result is not None:\n    return result",
             "fallback_matches = [_locale_delim_re.split(item, 1)[0] for item in matches]",
             "result = super().best_match(fallback_matches)",
             "if result is not None:\n    return next((item for item in matches if _locale_delim_re.split(item, 1)[0] == result))",
             "return default"], "LanguageAccept.best_match")

    # MIMEAccept.accept_html / accept_xhtml / accept_json: boolean expressions over `<type> in self`
    def conv(node: ast.expr) -> str:
        if isinstance(node, ast.BoolOp):
            return "(" + (" && " if isinstance(node.op, ast.And) else " || ").join(conv(v) for v in node.values) + ")"
        if (isinstance(node, ast.Compare) and len(node.ops) == 1 and isinstance(node.ops[0], ast.In)
                and isinstance(node.left, ast.Constant) and isinstance(node.left.value, str)
                and ast.unparse(node.comparators[0]) == "self"):
            return f"(inself {px.coq_string_codes(node.left.value)})"
        if ast.unparse(node) == "self.accept_xhtml":
            return "accept_xhtml"
        raise px.Unsupported(f"convenience property expression not recognised: {ast.unparse(node)!r}")
    for name, params in [("accept_xhtml", "(inself : str -> bool)"), ("accept_html", "(inself : str -> bool) (accept_xhtml : bool)"),
                         ("accept_json", "(inself : str -> bool)")]:
        body = _stmts(_method(M, name))
        if not (len(body) == 1 and isinstance(body[0], ast.Return) and body[0].value is not None):
            raise px.Unsupported(f"MIMEAccept.{name} is not a single return")
        txt = conv(body[0].value)
        if name != "accept_html" and "accept_xhtml" in txt:
            raise px.Unsupported(f"MIMEAccept.{name} refers to accept_xhtml")
        out.append(f"Definition {name}_gen {params} : bool := {txt}.")

    # Request.accept_*: header name and class of each cached_property (sansio/request.py)
    req = px.find_class(px.load("sansio/request.py"), "Request")
    fam_code = {None: 0, "MIMEAccept": 1, "LanguageAccept": 2, "CharsetAccept": 3}
    rows = []
    for fn in req.body:
        if isinstance(fn, ast.FunctionDef) and fn.name.startswith("accept_"):
            if [ast.unparse(d) for d in fn.decorator_list] != ["cached_property"]:
                raise px.Unsupported(f"Request.{fn.name} is not a cached_property")
            body = _stmts(fn)
            ok = (len(body) == 1 and isinstance(body[0], ast.Return) and isinstance(body[0].value, ast.Call)
                  and ast.unparse(body[0].value.func) == "parse_accept_header" and not body[0].value.keywords
                  and 1 <= len(body[0].value.args) <= 2)
            if ok:
                a0 = body[0].value.args[0]
                ok = (isinstance(a0, ast.Call) and ast.unparse(a0.func) == "self.headers.get" and len(a0.args) == 1
                      and not a0.keywords and isinstance(a0.args[0], ast.Constant) and isinstance(a0.args[0].value, str))
            if not ok:
                raise px.Unsupported(f"Request.{fn.name} is not `return parse_accept_header(self.headers.get(<name>)[, <class>])`")
            cls_name = ast.unparse(body[0].value.args[1]) if len(body[0].value.args) == 2 else None
            if cls_name not in fam_code:
                raise px.Unsupported(f"Request.{fn.name} uses the unknown class {cls_name}")
            rows.append((fn.name, a0.args[0].value, fam_code[cls_name]))
    out.append("(* (attribute, header name, class: 0 Accept, 1 MIMEAccept, 2 LanguageAccept, 3 CharsetAccept) *)")
    out.append("Definition request_accept_glue : list (list N * list N * N) := ["
               + "; ".join(f"({px.coq_string_codes(a)}, {px.coq_string_codes(h)}, {c})" for a, h, c in rows) + "].")
    for cls, names in [(L, {"_value_matches", "best_match"}), (C, {"_value_matches"})]:
        extra = {n.name for n in cls.body if isinstance(n, ast.FunctionDef)} - names
        if extra:
            raise px.Unsupported(f"{cls.name} overrides {sorted(extra)}: not in the model")
    extra = {n.name for n in M.body if isinstance(n, ast.FunctionDef)} - {"_specificity", "_value_matches", "accept_html",
                                                                         "accept_xhtml", "accept_json"}
    if extra:
        raise px.Unsupported(f"MIMEAccept overrides {sorted(extra)}: not in the model")
    px.write_if_changed(os.path.join(COQ, "C17", "Gen.v"), "\n".join(out) + "\n")

    # ---------------------------------------------------------------- statement skeletons (pins)
    # everything the hand-written model stands for and that is not translated above, as normalised source text (layout,
    # comments, docstrings do not matter); translated sub-expressions are holes.  Checked after Gen.v is written, so that a
    # refusal here leaves the model up to date with the translated parts and the harness can still find a failing input.
    sk = []
    holes_bm = {ast.unparse(skip.test): "<SKIP-TEST>", ast.unparse(take.test): "<TAKE-TEST>"}
    for cls, names in [(A, ["__init__", "__getitem__", "quality", "__contains__", "index", "find", "values", "to_header",
                            "__str__", "_best_single_match", "best_match", "best"]),
                       (L, ["best_match"])]:
        sk.append(f"## class {cls.name}({', '.join(ast.unparse(b) for b in cls.bases)})")
        for name in names:
            sk.append(f"## {cls.name}.{name}\n" + px.skeleton(_method(cls, name), holes_bm if name == "best_match" else None))
    for cls in (M, C):
        sk.append(f"## class {cls.name}({', '.join(ast.unparse(b) for b in cls.bases)})")
    for name in ("_normalize_mime", "_normalize_lang"):
        sk.append(f"## {name}\n" + px.skeleton(px.find_def(acc, name)))
    px.check_pin("C17", "c17_accept.txt", "\n".join(sk) + "\n",
                 "statement skeleton of datastructures/accept.py (Accept accessors, sorting, selection loop, language fallbacks)")
    sk = []
    imp = [ast.unparse(n) for n in http.body if isinstance(n, ast.ImportFrom)
           and any(a.name in ("parse_http_list", "unquote") for a in n.names)]
    sk.append("## imports\n" + "\n".join(sorted(imp)))
    for name in ("quote_header_value", "dump_options_header", "parse_list_header", "parse_options_header"):
        sk.append(f"## {name}\n" + px.skeleton(px.find_def(http, name)))
    sk.append("## parse_accept_header\n" + px.skeleton(pah[0], {ast.unparse(rng.test): "<RANGE-TEST>"}))
    px.check_pin("C17", "c17_http.txt", "\n".join(sk) + "\n",
                 "statement skeleton of the http.py functions behind parse_accept_header (list / options parsers, quoting, "
                 "reconstruction)")


# ====================================================================== harness (tie b)

FAMS = ["base", "mime", "lang", "charset"]
GLUE = {"accept_mimetypes": ("Accept", "mime"), "accept_charsets": ("Accept-Charset", "charset"),
        "accept_encodings": ("Accept-Encoding", "base"), "accept_languages": ("Accept-Language", "lang")}

Q_VALID = ["0", "0.001", "0.5", "1", "1.000", "0.0", "0.50", "0.7", "0.8", "0.9", "0.123456789012345", "1.0", "01", "-0",
           "-0.0", "0.3", "0.30", "0.999", "0.10", "0.1", "000.5", "0.00000000000000001"]
Q_INVALID = ["abc", "", "0.", ".5", "1e0", "0,5", "+1", "0.5x", "1.1", "2", "-1", "-0.5", "1.001", "10", "1.", "-",
             "0..5", "0.5.5", "٠", "0.٥", "1.0000000000001", "--1", "- 1", "0 .5", "1/2", "0x1", "1_0", "-0.001"]
Q_FORMS = [";q={}", ";q={}", "; q={}", ";Q={}", ';q="{}"', " ;q={}", ";  q={}"]

POOL = {
    "base": (["gzip", "br", "identity", "deflate", "*", "GZIP", "x-gzip", "compress", "zstd"],
             ["gzip", "br", "identity", "deflate", "Gzip", "zstd", "compress", "x-gzip"]),
    "lang": (["en", "en-US", "en_US", "EN-gb", "en-gb", "de", "de-CH", "de_ch", "fr", "zh-Hant-TW", "zh_hant_tw", "*", "es",
              "es-419", "pt-BR", "PT_br", "eng"],
             ["en", "en-US", "en_us", "en-GB", "de", "de-CH", "de-AT", "fr", "fr-FR", "zh-Hant-TW", "zh-hant", "es", "es-419",
              "pt-br", "eng", "ENG-x", "e", "DE"]),
    "charset": (["utf-8", "UTF8", "utf_8", "latin1", "iso-8859-1", "ISO_8859-1", "ascii", "us-ascii", "*", "unknown-cs",
                 "cp1252", "windows-1252", "U8", "UTF-16", "x-Other"],
                ["utf-8", "utf8", "UTF-8", "latin-1", "iso8859-1", "ascii", "US-ASCII", "cp1252", "windows-1252", "utf-16",
                 "unknown-cs", "Unknown-CS", "x-other", "big5"]),
}
M_TYPES = ["text", "Text", "application", "image", "a"]
M_SUBS = ["html", "HTML", "plain", "json", "xml", "xhtml+xml", "png", "b"]
# parameter values include tokens at the edge of the token set (underscore, punctuation): such a value must come back
# from parse_accept_header unquoted, or the textual parameter comparison of MIMEAccept stops matching the offer
M_PARAMS = [("level", "1"), ("level", "2"), ("charset", "utf-8"), ("version", "1"), ("v", "x"), ("profile", "json_api"),
            ("header", "present_utf8"), ("v", "a_b"), ("k", "!#$%&'*+-.^_`|~"), ("fmt", "x.y-z"), ("n", "0_9"), ("format", "flowed"),
            ("profile", "full"), ("version", "2")]


def _pick_params(rng, n: int):
    ps, seen = [], set()
    for k, v in rng.sample(M_PARAMS, min(len(M_PARAMS), n + 3)):
        if k not in seen and len(ps) < n:
            seen.add(k)
            ps.append((k, v))
    return ps

WEIRD_ITEMS = ["", "*", "**", "*/*", "*/html", "text/", "/html", "/", "text/html/x", "text", "text /html", "text/ html",
               "text/html;", "text/html ; level=1", "text/html;level=1;level=2", "*/*;x=1", "text/*;x=1", "a/b;c", "-x", "_",
               "*-foo", "en-", "en--US", "en-*", "*/*/*", "a;b", "a ;b", "TEXT/HTML", "text/html; Level=1", "x/y; a=1; b=2",
               "x/y; b=2; a=1", "x/y;a=1;b=2", " text/html", "text /html", "a\x1c;\x1cb", "utf-8 ", " utf-8", "en_",
               "text/html;level", ";", "; level=1", "a\x00b", "utf-8\x00", "a/b　;　c=d"]
HDR_ATOMS = [",", ",", ";", ";", "=", '"', "\\", "*", "/", "-", "_", "q", "Q", "q=", ";q=", "0", ".", "1", "5", "a", "b", "en",
             "US", " ", " ", "\t", "%22", "*0", "*1", "text", "html", "level", "utf-8", " ", "\x0b", "\x1f", " ",
             "'", "+", "x", "0.5", "*=", "utf-8''", "%41", "%C3%A9", "%ff", "%4", "iso-8859-1''", "''", "a*=", "1.000", "-1", "=\"", "\";", "\\\"", "\\\\", "é", "٠"]


def _ascii_lower(s: str) -> str:
    return "".join(chr(ord(c) + 32) if "A" <= c <= "Z" else c for c in s)


def _ascii_safe(s: str) -> bool:
    return s.lower() == _ascii_lower(s)


def _q_ok(v: str):
    """the q grammar of the property (qvalue as the code accepts it: optional sign, digits, optional fraction;
    in range 0..1), independent of werkzeug's regex: returns a Fraction or None"""
    i = 0
    neg = False
    if v[:1] == "-":
        neg = True
        i = 1
    j = i
    while j < len(v) and v[j] in "0123456789":
        j += 1
    if j == i:
        return None
    frac = ""
    if j < len(v):
        if v[j] != "." or j + 1 >= len(v) or any(c not in "0123456789" for c in v[j + 1:]):
            return None
        frac = v[j + 1:]
    f = Fraction(int(v[i:j] + frac), 10 ** len(frac))
    if neg:
        f = -f
    return f if 0 <= f <= 1 else None


def _gen_range(rng, fam: str):
    """-> (text as sent, expected value in the parsed list, oracle specificity, matcher key)"""
    if fam == "mime":
        r = rng.random()
        if r < 0.12:
            return "*/*", "*/*", (0, 0), ("*", "*", ())
        t = rng.choice(M_TYPES)
        if r < 0.32:
            return f"{t}/*", f"{t}/*", (1, 0), (t.lower(), "*", ())
        s = rng.choice(M_SUBS)
        ps = _pick_params(rng, rng.choice([1, 1, 2, 2, 3])) if rng.random() < 0.4 else []
        sep = rng.choice([";", "; ", " ; "])
        sent = f"{t}/{s}" + "".join(f"{sep}{k}={v}" for k, v in ps)
        exp = f"{t}/{s}" + "".join(f"; {k}={v}" for k, v in ps)
        return sent, exp, (1, 1) + (1,) * len(ps), (t.lower(), s.lower(), tuple(sorted(f"{k}={v}" for k, v in ps)))
    v = rng.choice(POOL[fam][0])
    return v, v, (int(v != "*"),), v


def _gen_offer(rng, fam: str) -> str:
    if fam == "mime":
        t, s = rng.choice(M_TYPES), rng.choice(M_SUBS)
        ps = _pick_params(rng, rng.choice([1, 1, 2])) if rng.random() < 0.25 else []
        return f"{t}/{s}" + "".join(f"{rng.choice([';', '; ', ' ; ', ' ;'])}{k}={v}" for k, v in ps)
    return rng.choice(POOL[fam][1])


def _offer_for_range(rng, mk) -> str:
    """an offer the media range mk = (type, subtype, params) is meant to match: the same parameters, written in
    another order and with other separators"""
    t, s, ps = mk
    ps = list(ps)
    rng.shuffle(ps)
    t = rng.choice([t, t.capitalize()])
    return f"{t}/{s}" + "".join(f"{rng.choice([';', '; ', ' ; '])}{p}" for p in ps)


def _gen_structured(rng, fam: str):
    n = rng.choice([1, 1, 2, 2, 3, 3, 4, 5, 6])
    parts, meta = [], []
    for _ in range(n):
        sent, exp, spec, mk = _gen_range(rng, fam)
        r = rng.random()
        if r < 0.25:
            qtxt, qv = "", Fraction(1)
        elif r < 0.8:
            q = rng.choice(Q_VALID)
            qtxt, qv = rng.choice(Q_FORMS).format(q), _q_ok(q)
        else:
            q = rng.choice(Q_INVALID)
            form = rng.choice(Q_FORMS)
            if form.endswith('"{}"') and ('"' in q or "\\" in q):
                form = ";q={}"
            qtxt = form.format(q)
            if q == "" and '"' not in form:
                qv = Fraction(1)      # `q=` with nothing after it is not a parameter at all: q is absent
            elif '"' in form:
                qv = _q_ok(q.strip())
            elif q and (q[0] in " \t" or not re.fullmatch(r"[\w!#$%&'*+\-.^`|~]+", q, re.A)):
                # the parameter value is not a token: outside the clean grammar, decided per case below
                qv = "unclear"
            else:
                qv = _q_ok(q)
        parts.append(sent + qtxt)
        meta.append((exp, spec, mk, qv))
    specific = [m[2] for m in meta if fam == "mime" and m[2][1] != "*"]
    if specific and rng.random() < 0.4:
        # a less specific range covering one of the specific ones, with its own q
        t = rng.choice(specific)[0]
        cover = rng.choice([(f"{t}/*", (1, 0), (t, "*", ())), ("*/*", (0, 0), ("*", "*", ()))])
        q = rng.choice(["0.001", "0.5", "0.3", "0", "0.9"])
        pos = rng.randint(0, len(parts))
        parts.insert(pos, f"{cover[0]};q={q}")
        meta.insert(pos, (cover[0], cover[1], cover[2], _q_ok(q)))
    sep = rng.choice([",", ", ", ", ", " , "])
    offers = [_offer_for_range(rng, rng.choice(specific)) if specific and rng.random() < 0.5 else _gen_offer(rng, fam)
              for _ in range(rng.choice([1, 2, 2, 3, 3, 4, 5]))]
    clean = all(m[3] != "unclear" for m in meta)
    return sep.join(parts), offers, (meta if clean else None)


def _gen_malformed(rng, fam: str):
    r = rng.random()
    if r < 0.5:
        items = []
        for _ in range(rng.randint(1, 4)):
            it = rng.choice(WEIRD_ITEMS) if rng.random() < 0.6 else _gen_range(rng, fam)[0]
            q = rng.random()
            if q < 0.5:
                it += rng.choice(Q_FORMS).format(rng.choice(Q_VALID + Q_INVALID))
            elif q < 0.7:
                it += rng.choice([";x=y", '; a="b c"', ";q", ";q=;", ";*0=x", ";a*0=x;a*1=y", ';a="x\\"y";q=0.5', ";q=0.5;q=0.7",
                                  ";q=1;Q=0", ';b="%22"', ";a*=utf-8''x", ";q*=UTF-8''0.5", ";a*=x;q=0.5", ";a*=utf-8''%41%42", ";a*=UTF-8'en'%C3%A9", ";a*=iso-8859-1''%E9",
                                  ";a*=us-ascii''%E9x", ";a*=utf-16''%41", ";a*0*=utf-8''%41;a*1*=%42", ';a*="%41"', ";q*=utf-8''0%2E5",
                                  ";a*=''%41;b*=%42", ";a*=utf-8''%ZZ%4", ";*=utf-8''x", ";level*=utf-8''1", ";a*=utf-8''%C3;b*=%A9",
                                  ";a*=utf-8''%F0%9F%98%80%ff", ";q*=ascii''0.%35", ";a*=utf-8''%22x%22", ";a*=utf-8''é%41", ";q*0=0;q*1=.5", ";=1", ";a**0=z", "; q = 0.5", ';q="0.5', ";q=0.5 x"])
            items.append(it)
        header = rng.choice([",", ", ", ",,"]).join(items)
    else:
        header = "".join(rng.choice(HDR_ATOMS) for _ in range(rng.randint(0, 14)))
    offers = []
    for _ in range(rng.choice([1, 2, 3, 4])):
        r = rng.random()
        if r < 0.55:
            offers.append(_gen_offer(rng, fam))
        elif r < 0.85:
            offers.append(rng.choice(WEIRD_ITEMS))
        else:
            offers.append("".join(rng.choice(HDR_ATOMS) for _ in range(rng.randint(0, 4))))
    return header, offers


def _codec_table(names):
    """codecs.lookup as an input of the model; None when a name makes it raise something else"""
    tbl = {}
    for n in names:
        try:
            tbl[n] = codecs.lookup(n).name
        except (LookupError, ValueError):
            pass          # _normalize falls back to name.lower() (ValueError: a name with NUL)
        except Exception:  # noqa: BLE001
            return None
    return tbl


def _classes():
    from werkzeug.datastructures import Accept, CharsetAccept, LanguageAccept, MIMEAccept
    return {"base": Accept, "mime": MIMEAccept, "lang": LanguageAccept, "charset": CharsetAccept}


def _exn(e: BaseException) -> str:
    return "!" + type(e).__name__


def _observe(acc, offers):
    """what the property's observe_at names: iteration order, best, best_match, quality, `in`"""
    items = [(v, q) for v, q in acc]
    best = acc.best
    try:
        bm = acc.best_match(offers)
    except Exception as e:  # noqa: BLE001
        bm = _exn(e)
    quals, ins = [], []
    for o in offers:
        try:
            quals.append(acc.quality(o))
        except Exception as e:  # noqa: BLE001
            quals.append(_exn(e))
        try:
            ins.append(o in acc)
        except Exception as e:  # noqa: BLE001
            ins.append(_exn(e))
    def call(fn):
        try:
            return fn()
        except Exception as e:  # noqa: BLE001
            return _exn(e)
    n = len(items)
    more = {
        "finds": [call(lambda o=o: acc.find(o)) for o in offers],
        "idxs": [call(lambda o=o: acc.index(o)) for o in offers],
        "getstr": [call(lambda o=o: acc[o]) for o in offers],
        "getint": [call(lambda i=i: acc[i]) for i in (0, -1, n, -n - 1)],
        "bmd": call(lambda: acc.best_match(offers, "zz")),
        "conv": ("".join(str(int(bool(x))) for x in (acc.accept_html, acc.accept_xhtml, acc.accept_json))
                 if hasattr(acc, "accept_html") else "-"),
    }
    return {"items": items, "best": best, "bm": bm, "quals": quals, "ins": ins,
            "th": acc.to_header(), "str": str(acc), "values": list(acc.values()), **more}


def _impl_header(fam: str, header: str, offers):
    from werkzeug.http import parse_accept_header
    try:
        acc = parse_accept_header(header, _classes()[fam])
    except Exception as e:  # noqa: BLE001
        return _exn(e), None
    return _observe(acc, offers), acc


def _unq(t: str):
    return None if t == "~" else ("" if t == "-" else "".join(chr(int(x)) for x in t.split(",")))


def _frac(t: str) -> Fraction:
    n, s = t.split(":")
    return Fraction(int(n, 2), 10 ** int(s))


def _parse_model(line: str):
    """model output -> the same structure as _observe (qualities as Fractions)"""
    if not line.startswith("ok "):
        return line
    _, items, best, bm, quals, ins, th, vals, fd, ix, gi, bd, cv = line.split(" ")

    def one_item(t):
        if t.startswith("!"):
            return t
        v, n, s = t.split(":")
        return (_unq(v), _frac(n + ":" + s))
    its = []
    if items != "~":
        for it in items.split("|"):
            v, n, s = it.split(":")
            its.append((_unq(v), _frac(n + ":" + s)))
    return {"items": its, "best": _unq(best), "bm": bm if bm.startswith("!") else _unq(bm),
            "quals": [] if quals == "~" else [q if q.startswith("!") else _frac(q) for q in quals.split("|")],
            "ins": [] if ins == "~" else [i if i.startswith("!") else i == "1" for i in ins.split("|")],
            "th": _unq(th), "values": [] if vals == "~" else [_unq(v) for v in vals.split("|")],
            "finds": [] if fd == "~" else [x if x.startswith("!") else int(x) for x in fd.split("|")],
            "idxs": [] if ix == "~" else [x if x.startswith("!") else int(x) for x in ix.split("|")],
            "getint": [one_item(t) for t in gi.split("|")],
            "bmd": bd if bd.startswith("!") else _unq(bd), "conv": cv}


def _qeq(f, x) -> bool:
    """model quality (Fraction) against implementation quality (float / int)"""
    if isinstance(f, str) or isinstance(x, str):
        return f == x
    return float(f) == float(x)


def _repr_domain(items) -> bool:
    """qualities whose float repr the model's to_header reproduces: 1, 0 (not the negative zero), or 1e-4 <= q < 1"""
    import math
    return all(q == 1 or (q == 0 and math.copysign(1, q) > 0) or 1e-4 <= q < 1 for _, q in items)


def _qeq2(a, b) -> bool:
    return a == b if isinstance(a, str) or isinstance(b, str) else float(a) == float(b)


def _same(model, impl) -> bool:
    if isinstance(model, str) or isinstance(impl, str):
        return model == impl
    if model["values"] != impl["values"] or impl["str"] != impl["th"]:
        return False
    if (model["finds"] != impl["finds"] or model["idxs"] != impl["idxs"] or model["bmd"] != impl["bmd"]
            or model["conv"] != impl["conv"]):
        return False
    if len(impl["getstr"]) != len(impl["quals"]) or not all(_qeq2(a, b) for a, b in zip(impl["getstr"], impl["quals"])):
        return False          # accept[key] is quality(key)
    for a, b in zip(model["getint"], impl["getint"]):
        if isinstance(a, str) or isinstance(b, str):
            if a != b:
                return False
        elif a[0] != b[0] or not _qeq(a[1], b[1]):
            return False
    if _repr_domain(impl["items"]) and model["th"] != impl["th"]:
        return False
    return (len(model["items"]) == len(impl["items"])
            and all(a[0] == b[0] and _qeq(a[1], b[1]) for a, b in zip(model["items"], impl["items"]))
            and model["best"] == impl["best"] and model["bm"] == impl["bm"]
            and len(model["quals"]) == len(impl["quals"]) and all(_qeq(a, b) for a, b in zip(model["quals"], impl["quals"]))
            and model["ins"] == impl["ins"])


# ---------------------------------------------------------------------- impl-level oracles (the property statement)

def _spec_match(fam: str, rng_key, offer: str) -> bool:
    """does the client range match the offer — written from the header families' rules, for the clean pools only"""
    if fam == "mime":
        t, s, ps = rng_key
        parts = [p.strip() for p in offer.split(";")]
        ot, _, os_ = parts[0].partition("/")
        ops = tuple(sorted(p.lower() for p in parts[1:]))
        if t == "*" and s == "*":
            return True
        if t != ot.lower():
            return False
        return s == "*" or (s == os_.lower() and ps == ops)
    if rng_key == "*":
        return True
    if fam == "base":
        return rng_key.lower() == offer.lower()
    if fam == "lang":
        return rng_key.lower().replace("_", "-") == offer.lower().replace("_", "-")

    def norm(n):
        try:
            return codecs.lookup(n).name
        except (LookupError, ValueError):
            return n.lower()
    return norm(rng_key) == norm(offer)


def _offer_quality(ranges, match):
    """ranges: [(spec, q, key)]; the q of the most specific matching range (the greatest among equally
    specific ones); None when no range matches"""
    best = None
    for spec, q, key in ranges:
        if match(key):
            if best is None or (spec, q) > best:
                best = (spec, q)
    return best


def _choice_ok(offers, qual, result):
    """the selection clause of the property: `result` against per-offer (spec, q) or None.  Returns an error text."""
    cands = [(i, o, qual[i]) for i, o in enumerate(offers) if qual[i] is not None and qual[i][1] > 0]
    if result is None:
        return None if not cands else f"None although offer {cands[0][1]!r} has quality {float(cands[0][2][1])}"
    if isinstance(result, str) and result.startswith("!"):
        return None
    if result not in offers:
        return f"{result!r} is not an offer"
    if not cands:
        return f"{result!r} chosen although no offer has a positive quality"
    top_q = max(c[2][1] for c in cands)
    top = [c for c in cands if c[2][1] == top_q]
    top_s = max(c[2][0] for c in top)
    first = next(c for c in top if c[2][0] == top_s)
    if result != first[1]:
        i = offers.index(result)
        return (f"{result!r} (quality {None if qual[i] is None else float(qual[i][1])}, specificity "
                f"{None if qual[i] is None else qual[i][0]}) chosen, but {first[1]!r} has quality {float(top_q)}, "
                f"specificity {top_s} and stands first among the best")
    return None


def _primary(s: str) -> str:
    for i, c in enumerate(s):
        if c in "_-":
            return s[:i]
    return s


def _oracle(chk: Check, fam: str, header, offers, obs, acc, meta, inp):
    """obs: observation of the implementation; meta: generator's knowledge of the header (clean cases) or None"""
    n = len(chk.failures)
    late = _oracle_core(chk, fam, header, offers, obs, acc, meta, inp)
    if late and len(chk.failures) == n:
        chk.fail(late[0], late[1], inp)
    if meta is not None and acc is not None and len(chk.failures) == n and _repr_domain(obs["items"]):
        # str(accept) parses back to the same values, qualities and order (headers of the clean grammar)
        from werkzeug.http import parse_accept_header
        again = [(v, q) for v, q in parse_accept_header(obs["str"], type(acc))]
        if again != obs["items"]:
            chk.fail("to-header-roundtrip", f"parse(str(accept)) = {again!r}, accept = {obs['items']!r}", inp)
        chk.count("oracle:to_header round trip")


def _oracle_core(chk: Check, fam: str, header, offers, obs, acc, meta, inp):
    items = obs["items"]
    late = None      # a failure of the list-shape clauses, reported only if the negotiation clauses hold
    if meta is not None:
        # ---- ignored: exactly the items with a well-formed q in [0, 1] (or no q) are present, with that q
        want = [(exp, spec, key, qv) for exp, spec, key, qv in meta if qv is not None]
        # ---- order: descending (specificity, q), client order among equals  (own insertion sort)
        exp_list = []
        for e in want:
            k = 0
            while k < len(exp_list) and (exp_list[k][1], exp_list[k][3]) >= (e[1], e[3]):
                k += 1
            exp_list.insert(k, e)
        if sorted((v, float(q)) for v, q in items) != sorted((e, float(qv)) for e, _, _, qv in want):
            late = ("ignored", f"parsed list {items!r} is not the set of items with a valid q "
                    f"{[(e, float(qv)) for e, _, _, qv in want]!r}")
        elif [(v, float(q)) for v, q in items] != [(e[0], float(e[3])) for e in exp_list]:
            late = ("order", f"parsed order {items!r}, expected {[(e[0], float(e[3])) for e in exp_list]!r}")
        ranges = [(spec, qv, key) for _, spec, key, qv in want]

        def matcher(o):
            return lambda key: _spec_match(fam, key, o)
    else:
        if acc is None:
            return late
        # outside the clean grammar the ranges are what the implementation parsed; matching and specificity are
        # the implementation's own (the selection rule is still checked independently)
        ranges = [(acc._specificity(v), Fraction(q).limit_denominator(10 ** 18), v) for v, q in items]
        keys = [(acc._specificity(v), q) for v, q in items]
        if any(keys[i] < keys[i + 1] for i in range(len(keys) - 1)):
            chk.fail("order", f"parsed list {items!r} is not sorted by (specificity, q) descending", inp)
            return late

        def matcher(o):
            return lambda key: acc._value_matches(o, key)
    try:
        qual = [_offer_quality(ranges, matcher(o)) for o in offers]
    except ValueError:
        return late
    for o, ql, got_q, got_in in zip(offers, qual, obs["quals"], obs["ins"]):
        if isinstance(got_q, str) or isinstance(got_in, str):
            continue
        if float(got_q) != (0.0 if ql is None else float(ql[1])):
            chk.fail("quality", f"quality({o!r}) = {got_q}, the most specific matching range has "
                     f"{None if ql is None else float(ql[1])}", inp)
            return late
        if got_in != (ql is not None):
            chk.fail("contains", f"({o!r} in accept) = {got_in}, but a range matches: {ql is not None}", inp)
            return late
    bm = obs["bm"]
    if fam != "lang" or any(q is not None and q[1] > 0 for q in qual):
        bad = _choice_ok(offers, qual, bm)
        if bad:
            chk.fail("optimal", "best_match: " + bad, inp)
        return late
    prim = [((int(_primary(key) != "*"),), q, _primary(key)) for _, q, key in ranges]
    qual2 = [_offer_quality(prim, lambda key, o=o: key == "*" or key.lower() == o.lower()) for o in offers]
    if any(q is not None and q[1] > 0 for q in qual2):
        bad = _choice_ok(offers, qual2, bm)
        if bad:
            chk.fail("language-fallback", "first fallback (primary tags of the accepted values): " + bad, inp)
        return late
    try:
        qual3 = [_offer_quality(ranges, matcher(_primary(o))) for o in offers]
    except ValueError:
        return late
    bad = _choice_ok(offers, qual3, bm)
    if bad:
        chk.fail("language-fallback", "second fallback (primary tags of the offers): " + bad, inp)
    return late


# ---------------------------------------------------------------------- the run

def _offers_field(offers) -> str:
    return "|".join(cps(o) for o in offers) if offers else "~"


def _tbl_field(tbl) -> str:
    return "|".join(f"{cps(k)}={cps(v)}" for k, v in tbl.items()) if tbl else "~"


def _corpus():
    import glob
    import json
    out = []
    for path in sorted(glob.glob(os.path.join(os.path.dirname(COQ), "corpus", PID, "*.json"))):
        with open(path, encoding="utf-8") as f:
            for c in json.load(f):
                out.append((c["family"], c["header"], c["offers"]))
    return out


def run(chk: Check) -> None:
    import werkzeug.http as whttp
    from werkzeug.datastructures import accept as wacc

    rng = chk.rng
    quick = chk.tier == "quick"
    n_struct = 3500 if quick else 50000
    n_malf = 2500 if quick else 35000
    n_direct = 1000 if quick else 12000
    n_sub = 1500 if quick else 20000
    classes = _classes()

    lines: list[str] = []
    expect: list = []        # (kind, impl observation, case) per line; None = not compared
    from werkzeug.datastructures import Headers
    from werkzeug.sansio.request import Request as SansRequest
    glue_n = [0]

    def add_header_case(fam, header, offers, meta, origin):
        inp = {"family": fam, "header": header, "offers": offers}
        try:
            obs, acc = with_timeout(_impl_header, 5, fam, header, offers)
        except Exception as e:  # noqa: BLE001
            chk.broken("impl-timeout", "parse_accept_header / best_match", repr(e), case=inp)
            return
        chk.count(f"{origin}:{fam}")
        if isinstance(obs, str):
            chk.count("impl:" + obs)
            if meta is not None:
                chk.fail("parse-raises", f"parse_accept_header raised {obs[1:]} on a header of the property's grammar", inp)
        else:
            chk.count("items:%d" % min(len(obs["items"]), 4))
            chk.count("best_match:" + ("none" if obs["bm"] is None else "error" if str(obs["bm"]).startswith("!") else "offer"))
            try:
                _oracle(chk, fam, header, offers, obs, acc, meta, inp)
            except Exception as e:  # noqa: BLE001
                chk.broken("oracle", "C17 impl-level oracle", repr(e), case=inp)
        glue_n[0] += 1
        if glue_n[0] % 3 == 0 and not isinstance(obs, str):
            # request-level glue: the attribute reads its own header and wraps it in its own class; the other three
            # headers carry decoys
            hdrs = [(h, header if f2 == fam else "decoy-" + f2 + ";q=0.25") for _a, (h, f2) in GLUE.items()]
            req = SansRequest("GET", "http", None, "", "/", b"", Headers(hdrs), None)
            attr = next(a for a, (_h, f2) in GLUE.items() if f2 == fam)
            got = getattr(req, attr)
            if type(got) is not classes[fam] or [(v, q) for v, q in got] != obs["items"]:
                chk.fail("request-glue", f"Request.{attr} = {type(got).__name__}({list(got)!r}), "
                         f"parse_accept_header gives {classes[fam].__name__}({obs['items']!r})", inp)
            chk.count("glue:Request." + attr)
        nontrivial = not isinstance(obs, str) and len(obs["items"]) > 0
        chk.case(("hdr", fam, header, tuple(offers)), nontrivial=nontrivial,
                 sample={"family": fam, "header": header, "offers": offers,
                         "best_match": None if isinstance(obs, str) else obs["bm"]})
        tbl = {}
        if fam == "charset":
            names = list(offers) + ([] if isinstance(obs, str) else [v for v, _ in obs["items"]])
            tbl = _codec_table(names)
        if tbl is None or not _ascii_safe(header + "".join(offers)):
            chk.count("model:skipped(non-ASCII case mapping / codecs.lookup raising)")
            return
        lines.append(f"hdr {fam} {cps(header)} {_offers_field(offers)} {_tbl_field(tbl)}")
        expect.append(("obs", obs, inp))

    # ------------------------------------------------ corpus first
    for fam, header, offers in _corpus():
        add_header_case(fam, header, offers, None, "corpus")
    # the grammar's q column, every value on its own for every family (exhaustive over the quantifier's q set)
    for fam in FAMS:
        for q in Q_VALID + Q_INVALID:
            for form in (";q={}", ';q="{}"'):
                if '"' in form and ('"' in q or "\\" in q):
                    continue
                r1, o = (("text/html", "text/html") if fam == "mime" else (POOL[fam][0][0], POOL[fam][1][0]))
                r2 = "*/*" if fam == "mime" else "*"
                add_header_case(fam, f"{r2};q=0.1, {r1}{form.format(q)}", [o, _gen_offer(rng, fam)], None, "q-column")
    for fam in FAMS:
        for _ in range(n_struct):
            header, offers, meta = _gen_structured(rng, fam)
            add_header_case(fam, header, offers, meta, "structured" if meta is not None else "structured-unclear-q")
        for _ in range(n_malf):
            header, offers = _gen_malformed(rng, fam)
            add_header_case(fam, header, offers, None, "malformed")

    # ------------------------------------------------ Accept objects built directly from (value, quality) lists
    for fam in FAMS:
        for _ in range(n_direct):
            items = []
            for _ in range(rng.choice([0, 1, 2, 3, 3, 4, 5, 6])):
                v = rng.choice(WEIRD_ITEMS) if rng.random() < 0.35 else _gen_range(rng, fam)[1]
                sc = rng.choice([0, 1, 1, 2, 3])
                r = rng.random()
                num = rng.randint(0, 10 ** sc) if r < 0.9 else rng.choice([-1, -10 ** sc, 2 * 10 ** sc, 10 ** sc + 1])
                items.append((v, num, sc))
            offers = [rng.choice(WEIRD_ITEMS) if rng.random() < 0.25 else _gen_offer(rng, fam)
                      for _ in range(rng.choice([1, 2, 3, 4]))]
            inp = {"family": fam, "items": [(v, f"{n}e-{sc}") for v, n, sc in items], "offers": offers}
            try:
                acc = classes[fam]([(v, float(Fraction(n, 10 ** sc))) for v, n, sc in items])
                obs = with_timeout(_observe, 5, acc, offers)
            except Exception as e:  # noqa: BLE001
                chk.broken("impl-timeout", "Accept(...) / best_match", repr(e), case=inp)
                continue
            chk.count(f"direct:{fam}")
            if all(0 <= n <= 10 ** sc for _, n, sc in items):
                try:
                    _oracle(chk, fam, None, offers, obs, acc, None, inp)
                except Exception as e:  # noqa: BLE001
                    chk.broken("oracle", "C17 impl-level oracle", repr(e), case=inp)
            chk.case(("acc", fam, tuple(items), tuple(offers)), nontrivial=len(items) > 0)
            tbl = _codec_table(list(offers) + [v for v, _, _ in items]) if fam == "charset" else {}
            if tbl is None or not _ascii_safe("".join(offers) + "".join(v for v, _, _ in items)):
                chk.count("model:skipped(non-ASCII case mapping / codecs.lookup raising)")
                continue
            its = "|".join(f"{cps(v)}:{('-' if n < 0 else '') + bin(abs(n))[2:]}:{sc}" for v, n, sc in items) if items else "~"
            lines.append(f"acc {fam} {its} {_offers_field(offers)} {_tbl_field(tbl)}")
            expect.append(("obs", obs, inp))

    # ------------------------------------------------ the hand-modelled parsers and matchers on their own
    def sub(cmd, s, want):
        lines.append(f"{cmd} {cps(s)}")
        expect.append(("raw", want, {"function": cmd, "input": s}))
        chk.case((cmd, s), nontrivial=len(s) > 0)
        chk.count("sub:" + cmd)

    def pieces(l):
        return "ok " + ("|".join(cps(x) for x in l) if l else "~")
    mime_re, loc_re, q_re = wacc._mime_split_re, wacc._locale_delim_re, whttp._q_value_re
    for _ in range(n_sub):
        s = "".join(rng.choice(HDR_ATOMS) for _ in range(rng.randint(0, 12)))
        sub("plist", s, pieces(whttp.parse_list_header(s)))
        s = "".join(rng.choice(HDR_ATOMS) for _ in range(rng.randint(0, 12)))
        if rng.random() < 0.5:
            s = rng.choice(WEIRD_ITEMS) + rng.choice([";", "; ", " ;"]) + s
        try:
            v, o = whttp.parse_options_header(s)
            want = f"ok {cps(v)} " + ("|".join(f"{cps(k)}={cps(x)}" for k, x in o.items()) if o else "~")
        except Exception as e:  # noqa: BLE001
            want = _exn(e)
        sub("popt", s, want)
        s = rng.choice(WEIRD_ITEMS) if rng.random() < 0.3 else "".join(
            rng.choice(["/", ";", " ", "\t", "a", "*", "\x1f", "\u3000", "=", "b", ";;", " ; "]) for _ in range(rng.randint(0, 8)))
        sub("msplit", s, pieces(mime_re.split(s)))
        s = "".join(rng.choice(["-", "_", "a", "B", "*", "--", "en"]) for _ in range(rng.randint(0, 6)))
        sub("lsplit", s, pieces(loc_re.split(s)))
        s = rng.choice(Q_VALID + Q_INVALID) if rng.random() < 0.5 else "".join(
            rng.choice(["-", "0", "1", "5", ".", "9", "00", " ", "e", "\n", "٠"]) for _ in range(rng.randint(0, 6)))
        m = q_re.fullmatch(s)
        if m is None:
            sub("pq", s, "none")
        else:
            f = Fraction(s)
            sub("pq", s, ("frac", f))
            # float contract of the trusted base: on literals of at most 15 significant digits float() is exact-comparable
            digits = s.lstrip("-").replace(".", "").lstrip("0")
            if len(digits) <= 15 and float(s) != float(f):
                chk.broken("contract", "float(q literal) vs decimal rational", s)
    lits = [q for q in Q_VALID + Q_INVALID if q_re.fullmatch(q)]
    for a in lits:
        for b in lits:
            if (float(a) < float(b)) != (Fraction(a) < Fraction(b)) or (float(a) == float(b)) != (Fraction(a) == Fraction(b)):
                chk.broken("contract", "float order vs decimal rational order", f"{a} / {b}")
    chk.count("contract:float-order-pairs", len(lits) ** 2)
    # codecs.lookup contract of C17_charset_contract: ASCII letter case is ignored; a canonical name is lower-case and
    # resolves to itself.  Validated over the interpreter's whole alias table and the pools.
    import encodings.aliases

    def lk(n):
        try:
            return codecs.lookup(n).name
        except (LookupError, ValueError):
            return None
    names = set(encodings.aliases.aliases) | set(encodings.aliases.aliases.values()) | set(POOL["charset"][0]) | set(POOL["charset"][1])
    for n in sorted(names):
        c0 = lk(n)
        if lk(_ascii_lower(n)) != c0 or lk(n.upper()) != c0:
            chk.broken("contract", "codecs.lookup ignores ASCII letter case", n)
        if c0 is not None and (lk(c0) != c0 or _ascii_lower(c0) != c0):
            chk.broken("contract", "codecs.lookup canonical names are lower-case fixpoints", f"{n} -> {c0}")
    chk.count("contract:codecs.lookup names", len(names))

    # ------------------------------------------------ model side
    exe = chk.build_modelrun(PID)
    if not exe:
        return
    res = chk.run_model(exe, lines)
    if res is None:
        return
    mism = unsupported = 0
    for ln, (kind, want, inp), got in zip(lines, expect, res):
        if got == "!unsupported":
            unsupported += 1
            continue
        if kind == "obs":
            ok = _same(_parse_model(got), want)
        elif isinstance(want, tuple):
            ok = got.startswith("ok ") and _frac(got[3:]) == want[1]
        else:
            ok = got == want
        if not ok:
            mism += 1
            if mism <= 5:
                chk.broken("correspondence", "C17 model vs werkzeug", f"case {inp!r}: impl {want!r} model {got!r}",
                           case={"line": ln, "input": inp, "impl": repr(want), "model": got})
    chk.count("model:unsupported(allow-listed charset without codec in the model)", unsupported)
    chk.count("model:compared", len(lines) - unsupported)
    chk.count("model:mismatches", mism)


def main(chk: Check) -> None:
    try:
        gen()
    except px.Unsupported as e:
        chk.broken("translator", "C17/Gen.v", str(e))
    chk.forbidden_scan()
    if chk.coq_make(["C17/Proofs.vo", "C17/Extract.vo"]):
        chk.audit_props("C17/Props.v")
    else:
        chk.cov["obligations"] += 1
    chk.trusted += [
        "translator tools/c17.py + tools/pyextract.py: operand table of the decision-expression translator (q / specificity / str "
        "comparisons), statement pins of parse_accept_header, Accept.quality/__contains__/_best_single_match/best_match, regex "
        "class tables via CPython re",
        "extraction ExtrOcamlBasic (no Extract Constant) + tools/conv.ml + coq/C17/driver.ml, OCaml 4.13.1",
        "float contract = the Section hypothesis of C17_float_contract (coq/C17/ProofsRoundtrip.v, Section FloatContract): for q "
        "literals a, b with sig15 (numerator magnitude below 10^15, i.e. at most 15 significant digits, and at most 300 fraction "
        "digits) float(a) < / <= / == float(b) equals the comparison of the decimal rationals; under it the regenerated decision "
        "expressions evaluated on floats equal the model's (validated on the harness's literals: float(s) == float(Fraction(s)) and "
        "order agreement on all pairs); longer literals are outside the claimed domain (q=1.0000000000000001 is read as 1.0)",
        "repr(float) for to_header / str: shortest decimal with at least one fraction digit, modelled for q = 0 and 1e-4 <= q < 1 "
        "(smaller floats print with an exponent and the sign of -0.0 is lost: those cases are not compared)",
        "sorted(..., reverse=True) is a stable sort that keeps the input order of equal keys (modelled by the stable insertion "
        "sort of C17/LibSort.v; validated differentially)",
        "codecs.lookup(name).name / LookupError enters the model as a table computed by the harness for the names of each case; "
        "its contract (hypotheses of C17_charset_contract: ASCII letter case ignored, canonical names lower-case fixpoints) is "
        "validated over the interpreter's encodings.aliases table on every run",
        "statement pins tools/pins/c17_accept.txt (Accept.__init__, __getitem__, quality, __contains__, index, find, values, "
        "to_header, __str__, _best_single_match, best_match with the two translated tests as holes, best, LanguageAccept.best_match, "
        "class bases, _normalize_mime, _normalize_lang) and tools/pins/c17_http.txt (quote_header_value, dump_options_header, "
        "parse_list_header, parse_options_header, parse_accept_header with the translated range test as a hole, the imports of "
        "parse_http_list / unquote): the hand-written model was written against these texts",
        "validated differentially only, no pin wanted (not werkzeug code or generic): urllib.request.parse_http_list, "
        "urllib.parse.unquote, codecs.lookup, float() / repr(float), sorted(), list.__getitem__ / list.index / iteration of the "
        "ImmutableList base class (CPython list), werkzeug.utils.cached_property and Headers.get behind Request.accept_* (generic "
        "descriptor / container owned by C08-C16; exercised by the glue check), Accept.__repr__ and the tuple-key branch of index "
        "(not part of the property)",
        "Request.accept_* glue: header name and class regenerated from sansio/request.py (C17_request_glue_pinned) and exercised "
        "on a third of the header cases through werkzeug.sansio.request.Request with decoy values in the other three headers",
        "hand-written matchers for urllib.request.parse_http_list, _parameter_key_re / _parameter_token_value_re / _continuation_re "
        "/ _q_value_re / _mime_split_re / _locale_delim_re (pattern texts pinned in C17/Gen.v), str.strip/lstrip (29 white-space "
        "code points), str.replace, str.lower on ASCII (cases whose Unicode lower differs are skipped and counted); validated "
        "by differential execution",
        "RFC 2231 parameters (key*=charset'lang'value): _charset_value_re matcher, urllib.parse.unquote with errors=replace for the "
        "allow-listed charsets (ascii, us-ascii, utf-8 via lib/Utf8.v, iso-8859-1) are hand-modelled in C17/Model.v (own model, the "
        "C06 model was read as a reference, not imported); an allow-listed name without a codec in the model would answer "
        "Unsupported (counted)",
    ]
    run(chk)
    chk.finish(rule="per family (Accept, MIMEAccept, LanguageAccept, CharsetAccept): the q column of the quantifier exhaustively "
                    "(every listed valid / malformed / negative / >1 literal, bare and quoted); structured headers of 1-6 ranges "
                    "(media ranges with and without parameters, language tags with case and underscore variants, charset aliases, "
                    "codings) x q forms x separators x 1-5 offers; malformed headers (weird items, parameter oddities, random atom "
                    "strings); Accept objects built directly; the list / options / q / split matchers on random atom strings. "
                    "A case is non-trivial when the parsed list is non-empty; distinct by hash of (family, header, offers).")


def replay(rep) -> int:
    inp = rep.get("input") or {}
    print(f"replay C17: key={rep.get('key')} what={rep.get('what')}")
    if "header" in inp and inp.get("header") is not None:
        obs, _ = _impl_header(inp["family"], inp["header"], inp["offers"])
    elif "items" in inp:
        acc = _classes()[inp["family"]]([(v, float(q)) for v, q in inp["items"]])
        obs = _observe(acc, inp["offers"])
    else:
        print("nothing to replay on the implementation:", rep.get("no_longer_checks"))
        return 0
    print("input:", inp)
    print("implementation now gives:", obs)
    return 0
