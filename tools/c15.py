"""C15  URLs keep their meaning between IRI, URI, environ and request."""
from __future__ import annotations

import ast
import copy
import os
import re
import urllib.parse as up

from . import pyextract as px
from .vlib import COQ, Check, ImplTimeout, cps, hexs, uncps, with_timeout

PID = "C15"
CLAIM = dict(
    text="Coq theorems over executable models of sansio.utils.get_host (nothing but an exact ':80' / ':443' suffix of the matching "
         "scheme is ever removed, and it is removed whatever the host ends with; the rules are regenerated from the source), of "
         "DispatcherMiddleware.__call__ (script ++ path_info is the original PATH_INFO, the "
         "chosen mount is the longest '/'-bounded prefix that is a mount, the default application only when none is; the loop's fuel "
         "is never exhausted), of the PEP 3333 latin-1 dance (lossless on every Unicode scalar-value string), of urllib's quote as "
         "used by iri_to_uri / get_current_url (pure ASCII output; idempotent because '%' is in each of the five safe sets "
         "regenerated from the source), and of _make_unquote_part / uri_to_iri per component (reserved escapes of each component and "
         "invalid bytes stay quoted; the fixpoint claim is refuted by '%4%41' and proved, as a _partial theorem, for every text without "
         "a stray percent sign, via a decoder re-synchronisation argument; under the same guard uri_to_iri(iri_to_uri(s)) is "
         "uri_to_iri(s) up to the component's reserved characters), and of get_current_url (the URI re-splits into the scheme, host, "
         "quoted root/path and query it was built from; its path decodes to the given root and path when they hold no percent sign, "
         "refuted otherwise; the host_only / root_only / strip_querystring conditions of wsgi.get_current_url are regenerated), and of "
         "EnvironBuilder.__init__ / get_environ composed with Request into one theorem (for every Unicode root, path and query pairs the "
         "request reads back exactly that path, root, pairs -- C02's urlencode round trip -- and host, and rebuilds the URL from them). "
         "DispatcherMiddleware's loop is now translated from the AST into the Gallina fixpoint the theorem is about. Safe sets, protected tables and the statement skeletons are "
         "regenerated from the source on every run; the models are compared with werkzeug and urllib on ~110k cases per quick run "
         "and the EnvironBuilder -> Request round trip is exercised end to end (values given through the constructor or assigned to "
         "path / script_root / base_url afterwards; hosts ending in digits with explicit default ports; SERVER_NAME fallback).",
    note="Trusted: Coq kernel; translator tools/c15.py; extraction + driver; hand-written models of urllib.parse.quote/unquote and of "
         "the UTF-8 decoder's error ranges (validated differentially); urlsplit/urlunsplit, IDNA and the netloc assembly are "
         "harness-side (the component functions are modelled, whole URLs are split and reassembled by the interpreter); "
         "EnvironBuilder / Request glue is covered by the harness only.",
    design="6/C15")


# ====================================================================== translator

def _codes(s) -> str:
    return px.coq_string_codes(s)


def _body(fn: ast.FunctionDef):
    b = fn.body
    if b and isinstance(b[0], ast.Expr) and isinstance(b[0].value, ast.Constant) and isinstance(b[0].value.value, str):
        return b[1:]
    return b


def _alpha(stmts: list[ast.stmt], params: list[str]) -> list[str]:
    """unparse with every local name (parameters and assigned names, also of nested defs) renamed in order of first
    appearance, so that a renamed local does not count as a change"""
    mod = ast.Module(body=[copy.deepcopy(s) for s in stmts], type_ignores=[])
    local = set(params)
    for n in ast.walk(mod):
        if isinstance(n, ast.Name) and isinstance(n.ctx, ast.Store):
            local.add(n.id)
        elif isinstance(n, ast.arg):
            local.add(n.arg)
        elif isinstance(n, ast.FunctionDef):
            local.add(n.name)
    order: dict[str, str] = {}

    class R(ast.NodeTransformer):
        def _n(self, name):
            if name in local:
                return order.setdefault(name, f"v{len(order)}")
            return name

        def visit_Name(self, node):
            node.id = self._n(node.id)
            return node

        def visit_arg(self, node):
            node.arg = self._n(node.arg)
            return node

        def visit_FunctionDef(self, node):
            node.name = self._n(node.name)
            self.generic_visit(node)
            return node
    for p_ in params:
        order.setdefault(p_, f"v{len(order)}")
    R().visit(mod)
    return [ast.unparse(s) for s in mod.body]


def _pin(fn: ast.FunctionDef, expected: list[str], what: str, params: list[str] | None = None):
    """the function's statements are those the model was written for, up to renaming of locals"""
    a = fn.args
    got_params = [x.arg for x in a.posonlyargs + a.args + a.kwonlyargs]
    params = got_params if params is None else params
    if len(got_params) != len(params):
        raise px.Unsupported(f"{what}: parameter list changed")
    got = _alpha(_body(fn), got_params)
    want = _alpha(ast.parse("\n".join(expected)).body, params)
    raw = [ast.unparse(s) for s in _body(fn)]
    if got != want:
        for i, (g, e) in enumerate(zip(got, want)):
            if g != e:
                raise px.Unsupported(f"{what}: statement {i} is `{raw[i]}`, the model was written for `{expected[i]}`")
        raise px.Unsupported(f"{what}: {len(got)} statements, the model was written for {len(want)}")


MAKE_UNQUOTE_PART = [
    "choices = '|'.join((f'{ord(c):02X}' for c in sorted(chars)))",
    "pattern = re.compile(f'((?:%(?:{choices}))+)', re.I)",
    "def _unquote_partial(value: str) -> str:\n    parts = iter(pattern.split(value))\n    out = []\n    for part in parts:\n"
    "        out.append(unquote(part, 'utf-8', 'werkzeug.url_quote'))\n        out.append(next(parts, ''))\n    return ''.join(out)",
    "_unquote_partial.__name__ = f'_unquote_{name}'",
    "return _unquote_partial",
]
DISPATCH_CALL = [
    "script = environ.get('PATH_INFO', '')",
    "path_info = ''",
    "while '/' in script:\n    if script in self.mounts:\n        app = self.mounts[script]\n        break\n"
    "    script, last_item = script.rsplit('/', 1)\n    path_info = f'/{last_item}{path_info}'\nelse:\n"
    "    app = self.mounts.get(script, self.app)",
    "original_script_name = environ.get('SCRIPT_NAME', '')",
    "environ['SCRIPT_NAME'] = original_script_name + script",
    "environ['PATH_INFO'] = path_info",
    "return app(environ, start_response)",
]
CURRENT_URL = [
    "url = [scheme, '://', host]",
    "if root_path is None:\n    url.append('/')\n    return uri_to_iri(''.join(url))",
    "url.append(quote(root_path.rstrip('/'), safe='<S0>'))",
    "url.append('/')",
    "if path is None:\n    return uri_to_iri(''.join(url))",
    "url.append(quote(path.lstrip('/'), safe='<S1>'))",
    "if query_string:\n    url.append('?')\n    url.append(quote(query_string, safe='<S2>'))",
    "return uri_to_iri(''.join(url))",
]


# what the translator read from the source on this run (the harness uses the same constants, so that the
# per-component comparisons are about the model of quote/unquote and the whole-URL ones about the implementation)
EXTRACTED: dict = {}
DEFAULTS = dict(i2u_safe={"path": "%!$&'()*+,/:;=@", "query": "%!$&'()*+,/:;=?@", "fragment": "%!#$&'()*+,/:;=?@",
                          "user": "%!$&'()*+,;=", "password": "%!$&'()*+,;="})


GET_HOST = [
    "host = ''",
    "if host_header is not None:\n    host = host_header\nelif server is not None:\n    host = server[0]\n"
    "    if ':' in host and host[0] != '[':\n        host = f'[{host}]'\n    if server[1] is not None:\n"
    "        host = f'{host}:{server[1]}'",
    "if scheme in {'<SCHEMES0>'} and host.endswith('<SUFFIX0>'):\n    host = host[:-0]\n"
    "elif scheme in {'<SCHEMES1>'} and host.endswith('<SUFFIX1>'):\n    host = host[:-0]",
    "if trusted_hosts is not None:\n    if not host_is_trusted(host, trusted_hosts):\n"
    "        raise SecurityError(f'Host {host!r} is not trusted.')",
    "return host",
]


def _default_port_rules(fn: ast.FunctionDef):
    """T2 for the default-port stripping of get_host: the chain
       `if scheme in {...} and host.endswith(S): host = host[:-k]  elif ...` -> [(schemes, S, k)], constants cut out of fn"""
    chain = [st for st in _body(fn) if isinstance(st, ast.If) and "endswith" in ast.unparse(st.test)]
    if len(chain) != 1:
        raise px.Unsupported("get_host: the default-port statement was not found")
    rules = []
    node = chain[0]
    while True:
        t = node.test
        ok = (isinstance(t, ast.BoolOp) and isinstance(t.op, ast.And) and len(t.values) == 2
              and isinstance(t.values[0], ast.Compare) and len(t.values[0].ops) == 1 and isinstance(t.values[0].ops[0], ast.In)
              and _name(t.values[0].left, "scheme") and isinstance(t.values[0].comparators[0], ast.Set)
              and isinstance(t.values[1], ast.Call) and ast.unparse(t.values[1].func) == "host.endswith"
              and len(t.values[1].args) == 1 and not t.values[1].keywords and isinstance(t.values[1].args[0], ast.Constant)
              and isinstance(t.values[1].args[0].value, str)
              and len(node.body) == 1 and isinstance(node.body[0], ast.Assign) and ast.unparse(node.body[0].targets[0]) == "host")
        if not ok:
            raise px.Unsupported(f"get_host: default-port branch not recognised: {ast.unparse(node.test)}")
        v = node.body[0].value
        if not (isinstance(v, ast.Subscript) and _name(v.value, "host") and isinstance(v.slice, ast.Slice) and v.slice.lower is None
                and v.slice.step is None and isinstance(v.slice.upper, ast.UnaryOp) and isinstance(v.slice.upper.op, ast.USub)
                and isinstance(v.slice.upper.operand, ast.Constant) and isinstance(v.slice.upper.operand.value, int)):
            raise px.Unsupported(f"get_host: the default port is not removed by a slice host[:-k]: {ast.unparse(node.body[0])}")
        schemes = sorted(px.const(e) for e in t.values[0].comparators[0].elts)
        if not all(isinstance(x, str) for x in schemes):
            raise px.Unsupported("get_host: scheme set is not a set of str")
        i = len(rules)
        rules.append((schemes, t.values[1].args[0].value, v.slice.upper.operand.value))
        t.values[0].comparators[0].elts = [ast.Constant(value=f"<SCHEMES{i}>")]
        t.values[1].args[0] = ast.Constant(value=f"<SUFFIX{i}>")
        v.slice.upper.operand = ast.Constant(value=0)
        if len(node.orelse) == 1 and isinstance(node.orelse[0], ast.If):
            node = node.orelse[0]
        elif not node.orelse:
            break
        else:
            raise px.Unsupported("get_host: default-port chain has an else branch")
    return rules


def _dispatch_loop(fn: ast.FunctionDef) -> str:
    """T2/T3: DispatcherMiddleware.__call__'s `while ... else` loop -> the Gallina fixpoint dispatch_loop.
    Statement vocabulary: `while <c> in script:`, `if script in self.mounts: app = self.mounts[script]; break`,
    `script, last_item = script.rsplit(<c>, 1)`, `path_info = f"...{last_item}...{path_info}..."`,
    `else: app = self.mounts.get(script, self.app)`.  Anything else stops the translator."""
    body = _body(fn)
    loops = [st for st in body if isinstance(st, ast.While)]
    if len(loops) != 1 or [ast.unparse(x) for x in body[:body.index(loops[0])]] != ["script = environ.get('PATH_INFO', '')", "path_info = ''"]:
        raise px.Unsupported("DispatcherMiddleware.__call__: the loop is not preceded by exactly `script = PATH_INFO; path_info = ''`")
    w = loops[0]

    def one_char(n, what):
        if not (isinstance(n, ast.Constant) and isinstance(n.value, str) and len(n.value) == 1):
            raise px.Unsupported(f"DispatcherMiddleware.__call__: {what} is not a one-character literal")
        return ord(n.value)
    t = w.test
    if not (isinstance(t, ast.Compare) and len(t.ops) == 1 and isinstance(t.ops[0], ast.In) and _name(t.comparators[0], "script")):
        raise px.Unsupported(f"DispatcherMiddleware.__call__: loop test not recognised: {ast.unparse(t)}")
    sep_in = one_char(t.left, "the loop test's separator")
    if len(w.body) != 3 or len(w.orelse) != 1:
        raise px.Unsupported("DispatcherMiddleware.__call__: loop body / else shape changed")
    hit, split, rebuild = w.body
    if not (isinstance(hit, ast.If) and ast.unparse(hit.test) == "script in self.mounts" and not hit.orelse
            and [ast.unparse(x) for x in hit.body] == ["app = self.mounts[script]", "break"]):
        raise px.Unsupported(f"DispatcherMiddleware.__call__: mount test not recognised: {ast.unparse(hit)}")
    if not (isinstance(split, ast.Assign) and ast.unparse(split.targets[0]) == "(script, last_item)" and isinstance(split.value, ast.Call)
            and ast.unparse(split.value.func) == "script.rsplit" and len(split.value.args) == 2 and not split.value.keywords
            and isinstance(split.value.args[1], ast.Constant) and split.value.args[1].value == 1):
        raise px.Unsupported(f"DispatcherMiddleware.__call__: `script, last_item = script.rsplit(c, 1)` not recognised: {ast.unparse(split)}")
    sep_split = one_char(split.value.args[0], "rsplit's separator")
    if not (isinstance(rebuild, ast.Assign) and ast.unparse(rebuild.targets[0]) == "path_info" and isinstance(rebuild.value, ast.JoinedStr)):
        raise px.Unsupported(f"DispatcherMiddleware.__call__: path_info rebuild not recognised: {ast.unparse(rebuild)}")
    pieces = []
    for v in rebuild.value.values:
        if isinstance(v, ast.Constant) and isinstance(v.value, str):
            pieces.append(_codes(v.value))
        elif (isinstance(v, ast.FormattedValue) and v.conversion == -1 and v.format_spec is None
              and isinstance(v.value, ast.Name) and v.value.id in ("last_item", "path_info")):
            pieces.append(v.value.id)
        else:
            raise px.Unsupported(f"DispatcherMiddleware.__call__: f-string piece not recognised: {ast.unparse(rebuild)}")
    if ast.unparse(w.orelse[0]) != "app = self.mounts.get(script, self.app)":
        raise px.Unsupported(f"DispatcherMiddleware.__call__: else branch not recognised: {ast.unparse(w.orelse[0])}")
    tail = [ast.unparse(x) for x in body[body.index(w) + 1:]]
    if tail != ["original_script_name = environ.get('SCRIPT_NAME', '')", "environ['SCRIPT_NAME'] = original_script_name + script",
                "environ['PATH_INFO'] = path_info", "return app(environ, start_response)"]:
        raise px.Unsupported("DispatcherMiddleware.__call__: the statements after the loop changed")
    return (
        "(* GENERATED by tools/c15.py from the while/else loop of DispatcherMiddleware.__call__ on every run - do not edit *)\n"
        "From Wz Require Import lib.Bytes C15.LibPercent C15.DispatchBase.\nOpen Scope N_scope.\n\n"
        "Fixpoint dispatch_loop (fuel : nat) (mounts : list (str * N)) (default : N) (script path_info : str) : dres :=\n"
        "  match fuel with\n  | O => DOutOfFuel\n  | S f =>\n"
        f"      if mem {sep_in} script then\n"
        "        match lookup script mounts with\n        | Some a => DOk a script path_info\n        | None =>\n"
        f"            match rsplit1 {sep_split} script with\n"
        "            | Some (script', last_item) =>\n"
        f"                dispatch_loop f mounts default script' ({' ++ '.join(pieces)})\n"
        "            | None => DUnpackError\n            end\n        end\n"
        "      else DOk (match lookup script mounts with Some a => a | None => default end) script path_info\n  end.\n")


def _flag_expr(node: ast.expr, flags: tuple[str, ...]) -> str:
    """T2: a condition over boolean parameters -> Gallina"""
    if isinstance(node, ast.Name) and node.id in flags:
        return node.id
    if isinstance(node, ast.UnaryOp) and isinstance(node.op, ast.Not):
        return f"negb {_flag_expr(node.operand, flags)}"
    if isinstance(node, ast.BoolOp):
        op = " || " if isinstance(node.op, ast.Or) else " && "
        return "(" + op.join(_flag_expr(v, flags) for v in node.values) + ")"
    raise px.Unsupported(f"wsgi.get_current_url: condition not recognised: {ast.unparse(node)}")


def _wsgi_parts(fn: ast.FunctionDef) -> dict[str, str]:
    """T2 for wsgi.get_current_url: under which condition each optional part is handed to the URL builder"""
    flags = ("root_only", "strip_querystring", "host_only")
    body = _body(fn)
    if (len(body) != 3 or ast.unparse(body[0]) != "parts = {'scheme': environ['wsgi.url_scheme'], 'host': get_host(environ, trusted_hosts)}"
            or ast.unparse(body[2]) != "return _sansio_utils.get_current_url(**parts)" or not isinstance(body[1], ast.If)):
        raise px.Unsupported("wsgi.get_current_url: statement skeleton changed")
    expected = {"root_path": "_wsgi_decoding_dance(environ.get('SCRIPT_NAME', ''))",
                "path": "_wsgi_decoding_dance(environ.get('PATH_INFO', ''))",
                "query_string": "environ.get('QUERY_STRING', '').encode('latin1')"}
    conds: dict[str, str] = {}

    def walk(stmts, ctx):
        for st in stmts:
            if isinstance(st, ast.If) and not st.orelse:
                walk(st.body, ctx + [_flag_expr(st.test, flags)])
            elif (isinstance(st, ast.Assign) and len(st.targets) == 1 and isinstance(st.targets[0], ast.Subscript)
                  and ast.unparse(st.targets[0].value) == "parts" and isinstance(st.targets[0].slice, ast.Constant)):
                key = st.targets[0].slice.value
                if key not in expected or ast.unparse(st.value) != expected[key] or key in conds:
                    raise px.Unsupported(f"wsgi.get_current_url: parts[{key!r}] = {ast.unparse(st.value)} not recognised")
                conds[key] = " && ".join(ctx) if ctx else "true"
            else:
                raise px.Unsupported(f"wsgi.get_current_url: statement not recognised: {ast.unparse(st)}")
    walk([body[1]], [])
    if sorted(conds) != sorted(expected):
        raise px.Unsupported(f"wsgi.get_current_url: parts set are {sorted(conds)}")
    return conds


def _name(n, ident):
    return isinstance(n, ast.Name) and n.id == ident


def _quote_calls(fn: ast.FunctionDef):
    """every call quote(<arg>, safe=<const>) in fn, in source order: (arg text, safe, keyword node)"""
    out = []
    for node in ast.walk(fn):
        if isinstance(node, ast.Call) and isinstance(node.func, ast.Name) and node.func.id == "quote":
            if len(node.args) != 1 or len(node.keywords) != 1 or node.keywords[0].arg != "safe":
                raise px.Unsupported(f"{fn.name}: quote call shape changed: {ast.unparse(node)}")
            kw = node.keywords[0]
            if not (isinstance(kw.value, ast.Constant) and isinstance(kw.value.value, str)):
                raise px.Unsupported(f"{fn.name}: safe= is not a literal: {ast.unparse(node)}")
            out.append((node.lineno, node.col_offset, ast.unparse(node.args[0]), kw.value.value, kw))
    out.sort(key=lambda t: (t[0], t[1]))
    return [(a, s, kw) for _, _, a, s, kw in out]


def gen() -> None:
    """T1: regenerate coq/C15/Gen.v from urls.py, sansio/utils.py, _internal.py, middleware/dispatcher.py."""
    urls = px.load("urls.py")
    sutl = px.load("sansio/utils.py")
    intl = px.load("_internal.py")
    disp = px.load("middleware/dispatcher.py")

    # ---- iri_to_uri: the five safe strings
    i2u = px.find_def(urls, "iri_to_uri")
    calls = {a: s for a, s, _ in _quote_calls(i2u)}
    want = ["parts.path", "parts.query", "parts.fragment", "parts.username", "parts.password"]
    if sorted(calls) != sorted(want) or len(_quote_calls(i2u)) != 5:
        raise px.Unsupported(f"iri_to_uri: quote is applied to {sorted(calls)}, the model has {want}")
    for s in calls.values():
        if not s.isascii():
            raise px.Unsupported("iri_to_uri: a safe string is not ASCII")

    # ---- uri_to_iri: which unquoter serves which component
    u2i = px.find_def(urls, "uri_to_iri")
    u2i_text = {ast.unparse(s) for s in ast.walk(u2i) if isinstance(s, ast.Assign)}
    for st in ["path = _unquote_path(parts.path)", "query = _unquote_query(parts.query)",
               "fragment = _unquote_fragment(parts.fragment)", "auth = _unquote_user(parts.username)",
               "password = _unquote_user(parts.password)"]:
        if st not in u2i_text:
            raise px.Unsupported(f"uri_to_iri: statement `{st}` not found")

    # ---- _always_unsafe and the four protected tables
    au = px.find_assign(urls, "_always_unsafe")
    for n in ast.walk(au):
        if isinstance(n, ast.Name) and n.id not in {"bytes", "range"}:
            raise px.Unsupported(f"_always_unsafe uses unknown name {n.id}")
        if isinstance(n, ast.Attribute) and n.attr != "decode":
            raise px.Unsupported("_always_unsafe construction not recognised")
    always_unsafe = eval(compile(ast.Expression(au), "<_always_unsafe>", "eval"),  # noqa: S307
                         {"__builtins__": {"bytes": bytes, "range": range}})
    if not isinstance(always_unsafe, str):
        raise px.Unsupported("_always_unsafe is not a str")
    tables = {}
    for comp in ["fragment", "query", "path", "user"]:
        call = px.find_assign(urls, f"_unquote_{comp}")
        if not (isinstance(call, ast.Call) and isinstance(call.func, ast.Name) and call.func.id == "_make_unquote_part"
                and len(call.args) == 2 and not call.keywords and px.const(call.args[0]) == comp):
            raise px.Unsupported(f"_unquote_{comp} is not _make_unquote_part({comp!r}, ...)")

        def ev(n):
            if isinstance(n, ast.Name) and n.id == "_always_unsafe":
                return always_unsafe
            if isinstance(n, ast.Constant) and isinstance(n.value, str):
                return n.value
            if isinstance(n, ast.BinOp) and isinstance(n.op, ast.Add):
                return ev(n.left) + ev(n.right)
            raise px.Unsupported(f"_unquote_{comp}: character set expression not recognised: {ast.unparse(n)}")
        chars = ev(call.args[1])
        if any(ord(c) > 255 for c in chars):
            raise px.Unsupported(f"_unquote_{comp}: a protected character needs more than two hex digits")
        tables[comp] = sorted({ord(c) for c in chars})
    _pin(px.find_def(urls, "_make_unquote_part"), MAKE_UNQUOTE_PART, "_make_unquote_part", ["name", "chars"])
    _pin(px.find_def(urls, "_codec_error_url_quote"),
         ["out = quote(e.object[e.start:e.end], safe='')", "return (out, e.end)"], "_codec_error_url_quote", ["e"])
    if "codecs.register_error('werkzeug.url_quote', _codec_error_url_quote)" not in {ast.unparse(s) for s in urls.body}:
        raise px.Unsupported("the error handler is no longer registered as werkzeug.url_quote")

    # ---- the latin-1 dance
    _pin(px.find_def(intl, "_wsgi_decoding_dance"), ["return s.encode('latin1').decode(errors='replace')"], "_wsgi_decoding_dance", ["s"])
    _pin(px.find_def(intl, "_wsgi_encoding_dance"), ["return s.encode().decode('latin1')"], "_wsgi_encoding_dance", ["s"])

    # ---- sansio.utils.get_current_url: skeleton pinned with the safe strings cut out
    gcu = copy.deepcopy(px.find_def(sutl, "get_current_url"))
    qc = _quote_calls(gcu)
    if [a for a, _, _ in qc] != ["root_path.rstrip('/')", "path.lstrip('/')", "query_string"]:
        raise px.Unsupported(f"get_current_url: quote is applied to {[a for a, _, _ in qc]}")
    gcu_safe = [s for _, s, _ in qc]
    for i, (_, _, kw) in enumerate(qc):
        kw.value = ast.Constant(value=f"<S{i}>")
    _pin(gcu, CURRENT_URL, "sansio.utils.get_current_url", ["scheme", "host", "root_path", "path", "query_string"])

    # ---- sansio.utils.get_host: skeleton pinned, the default-port rules translated
    gh = copy.deepcopy(px.find_def(sutl, "get_host"))
    port_rules = _default_port_rules(gh)
    if len(port_rules) != 2:
        raise px.Unsupported(f"get_host: {len(port_rules)} default-port branches, the skeleton pin was written for 2")
    _pin(gh, GET_HOST, "sansio.utils.get_host", ["scheme", "host_header", "server", "trusted_hosts"])

    # ---- wsgi.get_current_url: which parts reach sansio.utils.get_current_url
    wparts = _wsgi_parts(px.find_def(px.load("wsgi.py"), "get_current_url"))

    # ---- wrappers.Request.__init__ / sansio Request.url: the request reconstructs its URL from the same decoded parts
    #      as wsgi.get_current_url (so wsgi_current_uri with all flags off is also the model of Request.url)
    rq = px.find_def(px.find_class(px.load("wrappers/request.py"), "Request"), "__init__")
    sup = rq.body[1] if (rq.body and isinstance(rq.body[0], ast.Expr) and isinstance(getattr(rq.body[0], "value", None), ast.Constant)) else rq.body[0]
    if not (isinstance(sup, ast.Expr) and isinstance(sup.value, ast.Call) and ast.unparse(sup.value.func) == "super().__init__"):
        raise px.Unsupported("Request.__init__: the super().__init__ call is no longer the first statement")
    kws = {k.arg: ast.unparse(k.value) for k in sup.value.keywords}
    for key, want in (("scheme", "environ.get('wsgi.url_scheme', 'http')"), ("server", "_get_server(environ)"),
                      ("root_path", "_wsgi_decoding_dance(environ.get('SCRIPT_NAME') or '')"),
                      ("path", "_wsgi_decoding_dance(environ.get('PATH_INFO') or '')"),
                      ("query_string", "environ.get('QUERY_STRING', '').encode('latin1')"),
                      ("headers", "EnvironHeaders(environ)")):
        if kws.get(key) != want:
            raise px.Unsupported(f"Request.__init__: {key}={kws.get(key)}, the model was written for {key}={want}")
    surl = px.find_def(px.find_class(px.load("sansio/request.py"), "Request"), "url")
    _pin(surl, ["return get_current_url(self.scheme, self.host, self.root_path, self.path, self.query_string)"], "sansio Request.url", ["self"])
    sfull = px.find_def(px.find_class(px.load("sansio/request.py"), "Request"), "full_path")
    _pin(sfull, ["return f\"{self.path}?{self.query_string.decode(errors='replace')}\""], "sansio Request.full_path", ["self"])

    # ---- test.EnvironBuilder: the statements the builder model (coq/C15/BuilderModel.v) was written for
    eb = px.find_class(px.load("test.py"), "EnvironBuilder")
    eb_init = [ast.unparse(x) for x in _body(px.find_def(eb, "__init__"))[:8]]
    want_init = [
        "if query_string is not None and '?' in path:\n    raise ValueError('Query string is defined in the path and as an argument')",
        "request_uri = urlsplit(path)",
        "if query_string is None and '?' in path:\n    query_string = request_uri.query",
        "self.path = iri_to_uri(request_uri.path)",
        "self.request_uri = path",
        "if base_url is not None:\n    base_url = iri_to_uri(base_url)",
        "self.base_url = base_url",
        "if isinstance(query_string, str):\n    self.query_string = query_string\nelse:\n    if query_string is None:\n"
        "        query_string = MultiDict()\n    elif not isinstance(query_string, MultiDict):\n"
        "        query_string = MultiDict(query_string)\n    self.args = query_string",
    ]
    if eb_init != want_init:
        for g, w in zip(eb_init, want_init):
            if g != w:
                raise px.Unsupported(f"EnvironBuilder.__init__: statement `{g}`, the model was written for `{w}`")
        raise px.Unsupported("EnvironBuilder.__init__: statement count changed")
    ge_text = [ast.unparse(x) for x in ast.walk(px.find_def(eb, "get_environ")) if isinstance(x, (ast.FunctionDef, ast.Dict))]
    if "def _path_encode(x: str) -> str:\n    return _wsgi_encoding_dance(unquote(x))" not in ge_text:
        raise px.Unsupported("EnvironBuilder.get_environ: _path_encode is no longer _wsgi_encoding_dance(unquote(x))")
    entries = None
    for x in ast.walk(px.find_def(eb, "get_environ")):
        if isinstance(x, ast.Dict) and any(isinstance(k, ast.Constant) and k.value == "PATH_INFO" for k in x.keys):
            entries = {k.value: ast.unparse(v) for k, v in zip(x.keys, x.values) if isinstance(k, ast.Constant)}
    want_entries = {"SCRIPT_NAME": "_path_encode(self.script_root)", "PATH_INFO": "_path_encode(self.path)",
                    "QUERY_STRING": "_wsgi_encoding_dance(self.query_string)", "HTTP_HOST": "self.host",
                    "SERVER_NAME": "self.server_name", "SERVER_PORT": "str(self.server_port)", "wsgi.url_scheme": "self.url_scheme"}
    if entries is None:
        raise px.Unsupported("EnvironBuilder.get_environ: the environ dict was not found")
    for k, w in want_entries.items():
        if entries.get(k) != w:
            raise px.Unsupported(f"EnvironBuilder.get_environ: {k!r}: {entries.get(k)}, the model was written for {w}")
    setter = [n for n in eb.body if isinstance(n, ast.FunctionDef) and n.name == "base_url" and any(ast.unparse(d) == "base_url.setter" for d in n.decorator_list)]
    if len(setter) != 1 or [ast.unparse(x) for x in setter[0].body[-3:]] != ["self.script_root = script_root.rstrip('/')", "self.host = netloc", "self.url_scheme = scheme"]:
        raise px.Unsupported("EnvironBuilder.base_url setter: script_root / host / url_scheme assignment changed")
    qsp = [n for n in eb.body if isinstance(n, ast.FunctionDef) and n.name == "query_string" and any(ast.unparse(d) == "property" for d in n.decorator_list)]
    if len(qsp) != 1 or "return _urlencode(self._args)" not in ast.unparse(qsp[0]):
        raise px.Unsupported("EnvironBuilder.query_string: no longer _urlencode(self._args)")

    # ---- DispatcherMiddleware.__call__
    cls = px.find_class(disp, "DispatcherMiddleware")
    dispatch_text = _dispatch_loop(px.find_def(cls, "__call__"))
    px.write_if_changed(os.path.join(COQ, "C15", "GenDispatch.v"), dispatch_text)
    _pin(px.find_def(cls, "__init__"), ["self.app = app", "self.mounts = mounts or {}"], "DispatcherMiddleware.__init__", ["self", "app", "mounts"])

    EXTRACTED.clear()
    EXTRACTED.update(i2u_safe={"path": calls["parts.path"], "query": calls["parts.query"], "fragment": calls["parts.fragment"],
                               "user": calls["parts.username"], "password": calls["parts.password"]},
                     keep={**{k: "".join(map(chr, v)) for k, v in tables.items()}, "password": "".join(map(chr, tables["user"]))},
                     gcu_safe=gcu_safe)
    # ---- statement skeletons: everything the model / the oracles stand for that is not translated above is pinned as
    # normalised source text (ast.unparse; layout, comments and docstrings do not matter), with holes where the translated
    # constants and conditions sit.  tools/pins/c15_urls.txt is the source coq/C15/*Model.v were written against.
    def _kw_holes(fn_, prefix):
        return {ast.unparse(kw.value): "<SAFE-STRING>" for _, _, kw in _quote_calls(fn_)}
    gh_src = px.find_def(sutl, "get_host")
    gh_chain = [st for st in _body(gh_src) if isinstance(st, ast.If) and "endswith" in ast.unparse(st.test)]
    gh_holes = {}
    node_ = gh_chain[0] if len(gh_chain) == 1 else None
    while node_ is not None:      # the translated default-port rules: tests and slices are holes
        gh_holes[ast.unparse(node_.test)] = "<DEFAULT-PORT-TEST>"
        gh_holes[ast.unparse(node_.body[0])] = "host = host[:-<K>]"
        node_ = node_.orelse[0] if (len(node_.orelse) == 1 and isinstance(node_.orelse[0], ast.If)) else None
    wsgi_m = px.load("wsgi.py")
    sreq = px.find_class(px.load("sansio/request.py"), "Request")
    wreq = px.find_class(px.load("wrappers/request.py"), "Request")
    gcu_src = px.find_def(sutl, "get_current_url")
    ge = px.find_def(eb, "get_environ")
    ge_bits = [ast.unparse(x) for x in ast.walk(ge)
               if (isinstance(x, ast.FunctionDef) and x.name == "_path_encode")
               or (isinstance(x, ast.Dict) and any(isinstance(k, ast.Constant) and k.value == "PATH_INFO" for k in x.keys))
               or (isinstance(x, ast.Assign) and ast.unparse(x.targets[0]) == "raw_uri")]
    eb_props = [n for n in eb.body if isinstance(n, ast.FunctionDef)
                and n.name in ("base_url", "query_string", "args", "server_name", "server_port", "_make_base_url")]
    sections = [
        ("urls._codec_error_url_quote", px.skeleton(px.find_def(urls, "_codec_error_url_quote"))),
        ("urls._make_unquote_part", px.skeleton(px.find_def(urls, "_make_unquote_part"))),
        ("urls.uri_to_iri", px.skeleton(u2i)),
        ("urls.iri_to_uri", px.skeleton(i2u, _kw_holes(i2u, "I2U"))),
        ("urls._decode_idna", px.skeleton(px.find_def(urls, "_decode_idna"))),
        ("_internal._wsgi_decoding_dance", px.skeleton(px.find_def(intl, "_wsgi_decoding_dance"))),
        ("_internal._wsgi_encoding_dance", px.skeleton(px.find_def(intl, "_wsgi_encoding_dance"))),
        ("sansio.utils.get_current_url", px.skeleton(gcu_src, _kw_holes(gcu_src, "GCU"))),
        ("sansio.utils.get_host", px.skeleton(gh_src, gh_holes)),
        ("wsgi.get_current_url", px.skeleton(px.find_def(wsgi_m, "get_current_url"))),
        ("wsgi._get_server", px.skeleton(px.find_def(wsgi_m, "_get_server"))),
        ("wsgi.get_host", px.skeleton(px.find_def(wsgi_m, "get_host"))),
        ("middleware.dispatcher.DispatcherMiddleware.__init__", px.skeleton(px.find_def(cls, "__init__"))),
        ("wrappers.request.Request.__init__", px.skeleton(px.find_def(wreq, "__init__"))),
    ]
    for name in ("__init__", "args", "full_path", "url", "base_url", "root_url", "host_url", "host"):
        sections.append((f"sansio.request.Request.{name}", px.skeleton(px.find_method(sreq, name))))
    sections.append(("test.EnvironBuilder.from_environ", px.skeleton(px.find_method(eb, "from_environ"))))
    sections.append(("test.EnvironBuilder.__init__ (URL part)", "\n".join(eb_init)))
    sections.append(("test.EnvironBuilder.get_environ (URL part)", "\n".join(ge_bits)))
    for n in eb_props:
        sections.append((f"test.EnvironBuilder.{n.name} [{','.join(ast.unparse(d) for d in n.decorator_list)}]", px.skeleton(n)))
    px.check_pin("C15", "c15_urls.txt", "".join(f"## {n}\n{t}\n" for n, t in sections),
                 "the source the C15 models stand for (urls, dance, get_current_url / get_host, Request URL properties, EnvironBuilder URL handling)")

    t = ("(* GENERATED by tools/c15.py from urls.py, sansio/utils.py, _internal.py, middleware/dispatcher.py on every run - do not edit *)\n"
         "From Wz Require Import lib.Bytes.\nOpen Scope N_scope.\n\n")
    t += "(* iri_to_uri: safe= of the quote call on each component *)\n"
    for comp, arg in [("path", "parts.path"), ("query", "parts.query"), ("fragment", "parts.fragment"),
                      ("username", "parts.username"), ("password", "parts.password")]:
        t += f"Definition i2u_safe_{comp} : list N := {_codes(calls[arg])}.\n"
    t += "(* urls._always_unsafe and the characters _make_unquote_part keeps quoted, per component (sorted code points) *)\n"
    t += f"Definition always_unsafe : list N := {px.coq_nlist(sorted({ord(c) for c in always_unsafe}))}.\n"
    for comp in ["fragment", "query", "path", "user"]:
        t += f"Definition u2i_keep_{comp} : list N := {px.coq_nlist(tables[comp])}.\n"
    t += "(* sansio.utils.get_current_url: safe= of the three quote calls *)\n"
    for name, s in zip(["root", "path", "query"], gcu_safe):
        t += f"Definition gcu_safe_{name} : list N := {_codes(s)}.\n"
    t += "(* sansio.utils.get_host: (schemes, suffix, k) of each branch `scheme in {..} and host.endswith(suffix): host = host[:-k]` *)\n"
    t += "Definition default_port_rules : list (list (list N) * list N * nat) :=\n  [" + ";\n   ".join(
        "([" + "; ".join(_codes(x) for x in schemes) + f"], {_codes(suf)}, {k}%nat)" for schemes, suf, k in port_rules) + "].\n"
    t += "(* wsgi.get_current_url: the condition under which root_path / path / query_string are passed on *)\n"
    for key, nm in (("root_path", "root"), ("path", "path"), ("query_string", "query")):
        t += f"Definition wsgi_url_takes_{nm} (root_only strip_querystring host_only : bool) : bool :=\n  {wparts[key]}.\n"
    t += "(* DispatcherMiddleware.__call__: the separator of the `in` test, of rsplit and of the rebuilt path_info *)\n"
    t += "Definition dispatch_sep : N := 47.\n"
    px.write_if_changed(os.path.join(COQ, "C15", "Gen.v"), t)


# ====================================================================== harness

PIECES = ["a", "b c", "é", "€", "\U0001f600", "%41", "%C3%A9", "%c3%a9", "%C3", "%A9", "%2F", "%2f", "%3F", "%23", "%25",
          "%20", "%26", "%3D", "%2B", "%40", "%3A", "%3a", "%FF", "%E2%82", "%E2%82%AC", "%F0%9F%98%80", "%F0%9F", "%ED%A0%80",
          "%C0%80", "%7F", "%00", "%0A", "%", "%4", "%zz", "%%34%31", "%4%41", "&", "=", "+", ":", "@", ";", ",", "!", "$", "'",
          "(", ")", "*", "~", "-", ".", "_", " ", "\"", "<", ">", "[", "]", "{", "}", "|", "\\", "^", "`", "\x7f", "\xa0", "4", "1",
          "A", "J", "ı", "K", "x"]
HOSTS = ["example.com", "localhost", "bücher.example", "exämple.com", "xn--bcher-kva.example", "127.0.0.1", "[::1]",
         "[2001:db8::1]", "EXAMPLE.com", "☃.net"]
COMPS = ["path", "query", "fragment", "user", "password"]
HEX = "0123456789abcdefABCDEF"


def _text(rng, lo=0, hi=6, extra=()):
    pool = PIECES + list(extra)
    return "".join(rng.choice(pool) for _ in range(rng.randint(lo, hi)))


def _rand_text(rng):
    n = rng.randint(0, 8)
    out = []
    for _ in range(n):
        r = rng.random()
        if r < 0.5:
            out.append(chr(rng.randint(0x20, 0x7e)))
        elif r < 0.7:
            out.append(chr(rng.randint(0, 0xff)))
        elif r < 0.9:
            c = rng.randint(0x100, 0xffff)
            out.append(chr(c) if not 0xD800 <= c <= 0xDFFF else "€")
        else:
            out.append(chr(rng.randint(0x10000, 0x10ffff)))
    return "".join(out)


def _gen_url(rng, uri_like=False):
    scheme = rng.choice(["http", "https", "ws", "ftp", "itms-services", "http", "https"])
    pieces = [p for p in PIECES if p.isascii() and not any(c in p for c in ' "<>[]{}|\\^`\x7f')] if uri_like else PIECES
    tx = lambda lo, hi, bad="": "".join(p for p in (rng.choice(pieces) for _ in range(rng.randint(lo, hi))) if not any(c in bad for c in p))
    auth = ""
    if rng.random() < 0.3:
        auth = tx(1, 3, "/?#@:[]\\") or "u"
        if rng.random() < 0.5:
            auth += ":" + tx(0, 3, "/?#@[]\\")
        auth += "@"
    host = rng.choice(HOSTS)
    port = rng.choice(["", "", "", ":80", ":8080", ":443"])
    path = "".join("/" + tx(0, 3, "/?#") for _ in range(rng.randint(0, 3)))
    query = ("?" + tx(0, 5, "#")) if rng.random() < 0.6 else ""
    frag = ("#" + tx(0, 4)) if rng.random() < 0.4 else ""
    return f"{scheme}://{auth}{host}{port}{path}{query}{frag}"


def _corpus() -> dict:
    import json
    path = os.path.join(os.path.dirname(COQ), "corpus", "C15", "cases.json")
    try:
        with open(path, encoding="utf-8") as f:
            return json.load(f)
    except (OSError, ValueError):
        return {}


def _call(f, x):
    try:
        return f(x)
    except Exception as e:  # noqa: BLE001
        return f"<raised {type(e).__name__}>"


def _unq_impl(s: str) -> str:
    """urllib's unquote with werkzeug's registered error handler (the handler is werkzeug code and may be broken)"""
    try:
        return "ok " + cps(up.unquote(s, "utf-8", "werkzeug.url_quote"))
    except Exception as e:  # noqa: BLE001
        return "exn:" + type(e).__name__


def _stray_percent(s: str) -> bool:
    """a percent sign that does not start a two-hex-digit escape"""
    return re.search(r"%(?![0-9A-Fa-f]{2})", s) is not None


def _netloc_i2u(parts, user, password):
    """the netloc assembly of iri_to_uri (harness side: IDNA and the port come from the interpreter)"""
    netloc = parts.hostname.encode("idna").decode("ascii") if parts.hostname else ""
    if ":" in netloc:
        netloc = f"[{netloc}]"
    if parts.port:
        netloc = f"{netloc}:{parts.port}"
    if parts.username:
        auth = user
        if parts.password:
            auth = f"{auth}:{password}"
        netloc = f"{auth}@{netloc}"
    return netloc


def run(chk: Check) -> None:
    import werkzeug.urls as wurls
    from werkzeug._internal import _wsgi_decoding_dance, _wsgi_encoding_dance
    from werkzeug.middleware.dispatcher import DispatcherMiddleware
    from werkzeug.sansio import utils as sutils

    rng = chk.rng
    quick = chk.tier == "quick"
    K = 1 if quick else 15
    lines: list[str] = []
    impl_out: list[str] = []
    post: list = []      # (first line index, kind, data) for whole-URL comparisons assembled after the model ran

    def add(line, impl):
        lines.append(line)
        impl_out.append(impl)

    def guarded(fn, *a):
        try:
            return "ok", with_timeout(fn, 5, *a)
        except ImplTimeout:
            return "timeout", None
        except Exception as e:  # noqa: BLE001
            return "exn:" + type(e).__name__, e

    # source-level safe strings / tables as the harness sees them (from the generated file's inputs)
    i2u_safe = EXTRACTED.get("i2u_safe") or DEFAULTS["i2u_safe"]
    unq = {"path": wurls._unquote_path, "query": wurls._unquote_query, "fragment": wurls._unquote_fragment,
           "user": wurls._unquote_user, "password": wurls._unquote_user}

    # ------------------------------------------------ urllib quote / unquote models vs the interpreter
    safes = list(i2u_safe.values()) + ["", "/", "!$&'()*+,/:;=@%", "é/%", "~"]
    for _ in range(8000 * K):
        s = _text(rng) if rng.random() < 0.6 else _rand_text(rng)
        if rng.random() < 0.03:
            s += "\ud800"
        safe = rng.choice(safes)
        st, v = guarded(up.quote, s, safe)
        add(f"quote {cps(safe)} {cps(s)}", "ok " + cps(v) if st == "ok" else "exn")
        chk.case(("quote", safe, s), nontrivial=len(s) > 0)
    for _ in range(1500 * K):
        b = bytes(rng.randrange(256) for _ in range(rng.randint(0, 8)))
        safe = rng.choice(safes)
        add(f"quoteb {cps(safe)} {hexs(b)}", "ok " + cps(up.quote(b, safe=safe)))
        chk.case(("quoteb", safe, b), nontrivial=len(b) > 0)
    chk.count("urllib.quote", 9500 * K)
    for b in range(256):          # every single escaped byte, both hex cases, alone and before a continuation
        for s in (f"%{b:02X}", f"%{b:02x}", f"%{b:02X}%80", f"%C3%{b:02X}", f"%E2%82%{b:02X}", f"%F0%9F%98%{b:02X}", f"%{b:02X}A"):
            add(f"unquote {cps(s)}", _unq_impl(s))
            chk.case(("unquote", s), nontrivial=True)
    for _ in range(12000 * K):
        s = _text(rng, 0, 7)
        add(f"unquote {cps(s)}", _unq_impl(s))
        chk.case(("unquote", s), nontrivial=len(s) > 0)
    chk.count("urllib.unquote(werkzeug.url_quote)", 12000 * K + 256 * 7)

    # ------------------------------------------------ component functions + their laws on the implementation
    corpus = _corpus()
    if not corpus.get("component"):
        chk.notes.append("corpus/C15/cases.json missing or empty")
    comp_cases: list[tuple[str, str]] = [(c, v) for c, v in corpus.get("component", []) if c in COMPS]
    for c in COMPS:       # corpus: the probed defect and its relatives, every escaped byte per component
        for s in ["%4%41", "%%34%31", "%4%2541", "%", "%4", "%41", "%2F%2f", "%C3%A9", "%C3%2F%A9", "café%20", "a%25b", "%ff", "100%",
                  "%E2%82%AC%E2%82", "%2", "%%", "%25%34%31", "é%C3", "%C3é"]:
            comp_cases.append((c, s))
        for b in range(256):
            comp_cases.append((c, f"%{b:02X}"))
            comp_cases.append((c, f"x%{b:02x}y"))
    for _ in range(14000 * K):
        comp_cases.append((rng.choice(COMPS), _text(rng, 0, 7, extra=("/", "?", "#"))))
    for c, s in comp_cases:
        f = unq[c]
        st, once = guarded(f, s)
        if st != "ok":
            chk.fail("unquote-part-raises", f"_unquote_{c} raised {st}", {"op": "u2i", "component": c, "value": s})
            add(f"u2i {c} {cps(s)}", st)
            continue
        add(f"u2i {c} {cps(s)}", "ok " + cps(once))
        twice = _call(f, once)
        if twice != once:
            key = "uri_to_iri-stray-percent" if _stray_percent(s) else "u2i-not-fixpoint"
            chk.fail(key, f"_unquote_{c}({s!r}) = {once!r}, applied again = {twice!r}: not a fixpoint after one step",
                     {"op": "u2i", "component": c, "value": s})
        # meaning: percent-decoding the result gives the bytes of percent-decoding the input
        if up.unquote_to_bytes(once) != up.unquote_to_bytes(s):
            key = "uri_to_iri-stray-percent" if _stray_percent(s) else "u2i-changes-meaning"
            chk.fail(key, f"_unquote_{c}({s!r}) = {once!r} decodes to other bytes than the input", {"op": "u2i", "component": c, "value": s})
        chk.count("u2i:changed" if once != s else "u2i:unchanged")
        chk.case(("u2i", c, s), nontrivial=len(s) > 0, sample={"op": "uri_to_iri component", "component": c, "value": s, "impl": once}
                 if len(s) > 6 else None)
        # iri_to_uri on the same component text
        if not any(0xD800 <= ord(ch) <= 0xDFFF for ch in s):
            q = up.quote(s, safe=i2u_safe[c])
            add(f"i2u {c} {cps(s)}", "ok " + cps(q))
    # reserved characters of each component and invalid escapes stay quoted (property clause, on the implementation)
    keep_extra = {"path": "/?#", "query": "&=+#", "fragment": "", "user": ":@/?#", "password": ":@/?#"}
    # iri_to_uri is undone by uri_to_iri up to normalisation (C15_i2u_u2i_partial, transcribed): text without a percent
    # sign comes back unchanged except that characters which are both quoted and reserved for the component stay escapes
    always_safe = set("ABCDEFGHIJKLMNOPQRSTUVWXYZabcdefghijklmnopqrstuvwxyz0123456789_.-~")
    for _ in range(6000 * K):
        c = rng.choice(COMPS)
        s = _text(rng, 0, 6, extra=("/", "?", "#")) if rng.random() < 0.7 else _rand_text(rng)
        if "\ud800" in s:
            continue
        # unquote_to_bytes and the stray-percent guard of the theorems, model against interpreter
        add(f"tbytes {cps(s)}", "ok " + hexs(up.unquote_to_bytes(s)) + (" stray" if _stray_percent(s) else " wf"))
        if _stray_percent(s):
            s = s.replace("%", "")
        reserved = set(map(chr, range(0x21))) | {"%", "\x7f"} | set(keep_extra[c])
        # with escapes in the text: uri_to_iri(iri_to_uri(s)) is uri_to_iri(s) with the quoted-and-reserved characters escaped
        base = _call(unq[c], s)
        want = "".join(f"%{ord(ch):02X}" if (ch in reserved and ch not in always_safe and ch not in i2u_safe[c]) else ch for ch in base)
        got = _call(unq[c], up.quote(s, safe=i2u_safe[c]))
        if got != want:
            chk.fail("i2u-u2i-not-normal", f"_unquote_{c}(quote({s!r})) = {got!r}, expected {want!r}", {"op": "i2u-u2i", "component": c, "value": s})
        elif _call(unq[c], got) != got:
            chk.fail("u2i-not-fixpoint", f"_unquote_{c} is not a fixpoint on {got!r}", {"op": "u2i", "component": c, "value": got})
        chk.case(("i2u-u2i", c, s), nontrivial=len(s) > 0)
    chk.count("i2u-then-u2i normal form (with escapes)", 6000 * K)
    for c in COMPS:
        for ch in [chr(x) for x in range(0x21)] + ["%", "\x7f"] + list(keep_extra[c]):
            for esc in (f"%{ord(ch):02X}", f"%{ord(ch):02x}"):
                got = _call(unq[c], "a" + esc + "b")
                if got != "a" + esc + "b":
                    chk.fail("u2i-reserved-unquoted", f"_unquote_{c} turned the reserved escape {esc} into {got!r}", {"op": "u2i", "component": c, "value": "a" + esc + "b"})
        for b in list(range(0x80, 0xC2)) + list(range(0xF5, 0x100)) + [0xC3, 0xE2, 0xF0]:
            esc = f"%{b:02X}"
            got = _call(unq[c], "a" + esc + "b")
            if got != "a" + esc + "b":
                chk.fail("u2i-invalid-reinterpreted", f"_unquote_{c} turned the invalid escape {esc} into {got!r}", {"op": "u2i", "component": c, "value": "a" + esc + "b"})
            chk.case(("u2i-invalid", c, b), nontrivial=True)

    # ------------------------------------------------ whole URLs through iri_to_uri / uri_to_iri
    url_cases = ["http://☃.net/påth?q=èry%DF", "http://xn--n3h.net/p%C3%A5th?q=%C3%A8ry%DF", "http://a/%4%41", "http://a/%%34%31",
                 "http://üser:päss@bücher.example:8080/a b/%2F?x=1&y=%26#fräg%23", "http://[::1]:80/", "itms-services://?action=x&url=https://a/b",
                 "/only/päth?q", "http://a/b%", "http://a?%zz#%4", "//a/b", "http://a/%C3%2F%A9"]
    url_cases = list(corpus.get("urls", [])) + url_cases
    for _ in range(9000 * K):
        url_cases.append(_gen_url(rng, uri_like=rng.random() < 0.3))
    for url in url_cases:
        inp = {"op": "url", "url": url}
        st, uri = guarded(wurls.iri_to_uri, url)
        if st == "ok":
            if not uri.isascii():
                chk.fail("i2u-not-ascii", f"iri_to_uri gives non-ASCII {uri!r}", inp)
            st2, uri2 = guarded(wurls.iri_to_uri, uri)
            if st2 != "ok" or uri2 != uri:
                chk.fail("i2u-not-idempotent", f"iri_to_uri(iri_to_uri(x)) = {uri2!r} but iri_to_uri(x) = {uri!r}", inp)
            # model: components through the model, netloc / split / unsplit by the interpreter
            try:
                parts = up.urlsplit(url)
                idx = len(lines)
                for c, v in (("path", parts.path), ("query", parts.query), ("fragment", parts.fragment),
                             ("user", parts.username or ""), ("password", parts.password or "")):
                    add(f"i2u {c} {cps(v)}", None)
                post.append((idx, "i2u-url", (url, uri)))
            except ValueError:
                pass
            chk.count("iri_to_uri:ok")
        else:
            chk.count("iri_to_uri:" + st)    # IDNA UnicodeError / invalid port: C07's subject, not this property's
        st, iri = guarded(wurls.uri_to_iri, url)
        if st == "ok":
            st2, iri2 = guarded(wurls.uri_to_iri, iri)
            if st2 == "ok" and iri2 != iri:
                key = "uri_to_iri-stray-percent" if _stray_percent(url) else "u2i-not-fixpoint"
                chk.fail(key, f"uri_to_iri({url!r}) = {iri!r}, applied again = {iri2!r}", {"op": "uri_to_iri", "url": url})
            # each direction undoes the other up to normalisation: one more round trip changes nothing
            st3, back = guarded(wurls.iri_to_uri, iri)
            if st3 == "ok":
                st4, iri3 = guarded(wurls.uri_to_iri, back)
                st5, back2 = guarded(wurls.iri_to_uri, iri3) if st4 == "ok" else ("skip", None)
                if st5 == "ok" and back2 != back:
                    key = "uri_to_iri-stray-percent" if _stray_percent(url) else "roundtrip-unstable"
                    chk.fail(key, f"iri_to_uri(uri_to_iri(.)) is not stable: {back!r} then {back2!r}", {"op": "uri_to_iri", "url": url})
            chk.count("uri_to_iri:ok")
        else:
            chk.count("uri_to_iri:" + st)
        chk.case(("url", url), nontrivial=True, sample={"op": "iri_to_uri", "url": url, "impl": uri if isinstance(uri, str) else st})

    # ------------------------------------------------ the latin-1 dance
    dance_cases = ["", "/café", "/€/\U0001f600", "\xff\xfe", "a\x00b"] + [chr(c) for c in range(0, 0x3000, 1 if not quick else 5)]
    dance_cases += [chr(c) for c in (0xD7FF, 0xE000, 0xFFFD, 0xFFFF, 0x10000, 0x10FFFF)]
    for _ in range(3000 * K):
        dance_cases.append(_rand_text(rng))
    for s in dance_cases:
        e = _wsgi_encoding_dance(s)
        add(f"enc {cps(s)}", "ok " + cps(e))
        d = _wsgi_decoding_dance(e)
        if d != s:
            chk.fail("dance-lossy", f"decoding dance of the encoding dance of {s!r} is {d!r}", {"op": "dance", "text": s})
        chk.case(("dance", s), nontrivial=len(s) > 0)
    for _ in range(2000 * K):      # arbitrary latin-1 text as a server could deliver it (invalid UTF-8 included)
        s = "".join(chr(rng.choice([0x2f, 0x41, 0xc3, 0xa9, 0xe2, 0x82, 0xac, 0xf0, 0x9f, 0x98, 0x80, 0xff, 0xc0, 0xed, 0xa0, 0x25]))
                    for _ in range(rng.randint(0, 7)))
        add(f"dec {cps(s)}", "ok " + cps(_wsgi_decoding_dance(s)))
        chk.case(("dec", s), nontrivial=len(s) > 0)
    chk.count("dance", len(dance_cases) + 2000 * K)

    # ------------------------------------------------ sansio.utils.get_current_url
    for _ in range(2500 * K):
        scheme = rng.choice(["http", "https", "ws"])
        host = rng.choice(["localhost", "example.com:8080", "xn--bcher-kva.example", "[::1]:5000", "127.0.0.1"])
        root = rng.choice([None, "", "/", "/röot", "/a b/", "/r//", "/%41"]) if rng.random() < 0.6 else "/" + _text(rng, 0, 3)
        path = rng.choice([None, "", "/", "//x"]) if rng.random() < 0.3 else "/" + _text(rng, 0, 4, extra=("/",))
        qs = rng.choice([None, b"", b"a=b&c=%C3%A9", b"\xff=%zz", b"q=a b"]) if rng.random() < 0.6 else _text(rng, 0, 4).encode("utf-8")
        if "\ud800" in (root or "") + (path or ""):
            continue
        st, got = guarded(sutils.get_current_url, scheme, host, root, path, qs)
        o = lambda x: "~" if x is None else cps(x)
        idx = len(lines)
        add(f"cururi {cps(scheme)} {cps(host)} {o(root)} {o(path)} {'~' if qs is None else hexs(qs)}", None)
        post.append((idx, "cururi", (st, got, (scheme, host, root, path, qs))))
        chk.case(("cururi", scheme, host, root, path, qs), nontrivial=True)
    chk.count("get_current_url", 2500 * K)

    # ------------------------------------------------ wsgi.get_current_url (flags, get_host, the decoding dance) and re-splitting
    from werkzeug.wsgi import get_current_url as wsgi_gcu
    gsafe = EXTRACTED.get("gcu_safe") or ["!$&'()*+,/:;=@%", "!$&'()*+,/:;=@%", "!$&'()*+,/:;=?@%"]
    for _ in range(2500 * K):
        scheme = rng.choice(["http", "https", "ws", "wss"])
        hh = rng.choice([None, "example.com", "10.0.0.80:80", "web-0:443", "xn--bcher-kva.example:8080", "[::1]:80", "localhost"])
        server = (rng.choice(["srv", "10.20.30.80", "2001:db8::8"]), rng.choice([80, 443, 8080, None]))
        script_t = rng.choice(["", "/röot", "/a b/", "/r//", "/%41", "/☃"]) if rng.random() < 0.7 else "/" + _text(rng, 0, 3)
        path_t = rng.choice(["", "/", "//x", "/é"]) if rng.random() < 0.3 else "/" + _text(rng, 0, 4, extra=("/",))
        if "\ud800" in script_t + path_t:
            continue
        script, path_info = _wsgi_encoding_dance(script_t), _wsgi_encoding_dance(path_t)
        if rng.random() < 0.1:
            path_info += rng.choice(["\xff", "\xc3", "\xe2\x82"])        # not UTF-8: the server delivered raw bytes
        qs = rng.choice(["", "a=b&c=%C3%A9", "\xff=%zz", "q=a b", "x=#y"]) if rng.random() < 0.6 else _wsgi_encoding_dance(_text(rng, 0, 4).replace("\ud800", ""))
        flags = (rng.random() < 0.25, rng.random() < 0.25, rng.random() < 0.2)
        environ = {"wsgi.url_scheme": scheme, "SERVER_NAME": server[0], "SCRIPT_NAME": script, "PATH_INFO": path_info, "QUERY_STRING": qs}
        if server[1] is not None:
            environ["SERVER_PORT"] = str(server[1])
        if hh is not None:
            environ["HTTP_HOST"] = hh
        st, got = guarded(lambda: wsgi_gcu(environ, root_only=flags[0], strip_querystring=flags[1], host_only=flags[2]))
        o = lambda x: "~" if x is None else cps(x)
        idx = len(lines)
        add(f"wcururi {''.join('1' if f else '0' for f in flags)} {cps(scheme)} {o(hh)} {cps(server[0])} "
            f"{o(str(server[1])) if server[1] is not None else '~'} {cps(script)} {cps(path_info)} {cps(qs)}", None)
        post.append((idx, "cururi", (st, got, (flags, scheme, hh, server, script, path_info, qs))))
        chk.case(("wcururi", flags, scheme, hh, server, script, path_info, qs), nontrivial=True)
        # Request(environ).url is the same reconstruction with no flag set (Request.__init__ is pinned by the translator)
        from werkzeug.wrappers import Request as _Rq
        st2, got2 = guarded(lambda: _Rq(dict(environ)).url)
        idx = len(lines)
        add(f"wcururi 000 {cps(scheme)} {o(hh)} {cps(server[0])} "
            f"{o(str(server[1])) if server[1] is not None else '~'} {cps(script)} {cps(path_info)} {cps(qs)}", None)
        post.append((idx, "cururi", (st2, got2, ("Request.url", scheme, hh, server, script, path_info, qs))))
        st3, got3 = guarded(lambda: wsgi_gcu(dict(environ)))
        if st2 == "ok" and st3 == "ok" and got2 != got3:
            chk.fail("request-url-vs-wsgi-url", f"Request(environ).url = {got2!r} but wsgi.get_current_url(environ) = {got3!r}",
                     {"op": "request-url", "environ": {k: v for k, v in environ.items()}})
        # split_uri (the model of urlsplit on this URL subset) against the interpreter
        if rng.random() < 0.5:
            host = rng.choice(["h", "example.com:8080", "[::1]:5000", "10.0.0.80"])
            uri = (f"{scheme}://{host}{up.quote(script_t.rstrip('/'), safe=gsafe[0])}/{up.quote(path_t.lstrip('/'), safe=gsafe[1])}"
                   + (("?" + up.quote(qs.encode('latin-1'), safe=gsafe[2])) if qs else ""))
            sp = up.urlsplit(uri)
            add(f"spliturl {cps(uri)}", f"ok {cps(sp.scheme)} {cps(sp.netloc)} {cps(sp.path)} {cps(sp.query) if sp.query else '~'}")
    chk.count("wsgi.get_current_url", 2500 * K)

    # ------------------------------------------------ sansio.utils.get_host
    gh_hosts = ["example.com", "10.0.0.80", "web-0", "node8.cluster80", "10.1.2.34", "shard-3.db44", "a8", "host443", "x", "",
                "[2001:db8::80]", "[::1]", "80", "localhost", "h:8", ":80", "4:43"]
    gh_names = ["example.com", "10.20.30.80", "gateway0", "10.0.0.3", "2001:db8::8", "::80", "[::1]", "db44", "/tmp/sock", "h0"]
    gh_cases = [("http", "10.0.0.80:80", None), ("https", "10.1.2.34:443", None), ("ws", None, ("gateway0", 80)),
                ("wss", None, ("10.0.0.3", 443)), ("http", None, ("2001:db8::8", 80)), ("https", "10.0.0.80:80", None),
                ("http", "web-0:8080", None), ("ftp", "a:80", None), ("http", None, None), ("http", None, ("/tmp/sock", None))]
    for _ in range(3000 * K):
        scheme = rng.choice(["http", "https", "ws", "wss", "ftp", "http", "https"])
        if rng.random() < 0.6:
            gh_cases.append((scheme, rng.choice(gh_hosts) + rng.choice(["", ":80", ":443", ":8080", ":8", ":0", ":4430", ":80:80"]), None))
        else:
            gh_cases.append((scheme, None, (rng.choice(gh_names), rng.choice([80, 443, 8080, 8, 0, 4430, None]))))
    for scheme, hh, server in gh_cases:
        inp = {"op": "get_host", "scheme": scheme, "host_header": hh, "server": list(server) if server else None}
        st, got = guarded(sutils.get_host, scheme, hh, server)
        o = lambda x: "~" if x is None else cps(x)
        line = (f"ghost {cps(scheme)} {o(hh)} {o(server[0]) if server else '~'} "
                f"{o(str(server[1])) if server and server[1] is not None else '~'}")
        if st != "ok":
            chk.fail("get-host-raises", f"get_host raised {st}", inp)
            add(line, st)
            continue
        add(line, "ok " + cps(got))
        # the property, transcribed: the host as given (or assembled from the server pair), minus exactly the scheme's default port
        if hh is not None:
            full = hh
        elif server is not None:
            full = server[0]
            if ":" in full and not full.startswith("["):
                full = f"[{full}]"
            if server[1] is not None:
                full = f"{full}:{server[1]}"
        else:
            full = ""
        want = full
        if scheme in ("http", "ws") and full.endswith(":80"):
            want = full[:len(full) - 3]
        elif scheme in ("https", "wss") and full.endswith(":443"):
            want = full[:len(full) - 4]
        if got != want:
            chk.fail("get-host-default-port", f"get_host = {got!r}, expected {want!r} (only the scheme's default port may be removed)", inp)
        chk.count("get_host:port-removed" if got != full else "get_host:unchanged")
        chk.case(("ghost", scheme, hh, server), nontrivial=True)

    # ------------------------------------------------ DispatcherMiddleware
    _dispatch(chk, DispatcherMiddleware, add, quick, corpus)

    # ------------------------------------------------ EnvironBuilder -> Request, end to end
    _e2e(chk, quick, corpus, add)
    _raw_query(chk, quick, corpus)
    _second_build(chk, quick, corpus)

    # ------------------------------------------------ model side
    exe = chk.build_modelrun("C15")
    if not exe:
        return
    res = chk.run_model(exe, lines)
    if res is None:
        return
    mism = 0

    def mismatch(ln, a, b):
        nonlocal mism
        mism += 1
        if mism <= 5:
            chk.broken("correspondence", "C15 model vs werkzeug/urllib", f"case {ln!r}: impl {a!r} model {b!r}",
                       case={"line": ln, "impl": a, "model": b})
    for ln, a, b in zip(lines, impl_out, res):
        if a is not None and a != b:
            mismatch(ln, a, b)
    for idx, kind, data in post:
        if kind == "i2u-url":
            url, uri = data
            vals = [uncps(r[3:]) if r.startswith("ok ") else None for r in res[idx:idx + 5]]
            if any(v is None for v in vals):
                mismatch(lines[idx], uri, "model: quote raised")
                continue
            parts = up.urlsplit(url)
            try:
                netloc = _netloc_i2u(parts, vals[3], vals[4])
            except (UnicodeError, ValueError):
                continue
            model_uri = up.urlunsplit((parts.scheme, netloc, vals[0], vals[1], vals[2]))
            if model_uri != uri:
                mismatch("iri_to_uri " + url, uri, model_uri)
        elif kind == "cururi":
            st, got, args = data
            r = res[idx]
            if r.startswith("ok "):
                want_st, want = guarded(wurls.uri_to_iri, uncps(r[3:]))
                if (st, got if st == "ok" else None) != (want_st, want if want_st == "ok" else None):
                    mismatch(lines[idx], (st, got), (want_st, want))
            elif st == "ok":
                mismatch(lines[idx], (st, got), r)
    chk.count("model:compared", len(lines))
    chk.count("model:mismatches", mism)


def _dispatch(chk, DispatcherMiddleware, add, quick, corpus) -> None:
    rng = chk.rng
    segs = ["a", "b", "ab", "a.b", "", "c", "Ã©", "x y", "%2F"]
    mount_pool = ["/a", "/a/b", "/a/b/c", "/ab", "", "/", "/a/", "a", "a/b", "//a", "/b", "/a//b", "/c/Ã©", "/a/b/", "//"]

    def one(mounts: dict, path: str, script0: str):
        seen = {}

        def mk(i):
            def app(environ, start_response, i=i):
                seen.update(app=i, script=environ["SCRIPT_NAME"], path=environ["PATH_INFO"])
                return []
            return app
        ids = {k: i + 1 for i, k in enumerate(mounts)}
        mw = DispatcherMiddleware(mk(0), {k: mk(ids[k]) for k in mounts})
        env = {"PATH_INFO": path, "SCRIPT_NAME": script0}
        inp = {"op": "dispatch", "mounts": list(mounts), "PATH_INFO": path, "SCRIPT_NAME": script0}
        try:
            with_timeout(mw, 5, env, lambda *a, **k: None)
        except ImplTimeout:
            chk.fail("dispatch-hangs", "DispatcherMiddleware did not return", inp)
            return
        except Exception as e:  # noqa: BLE001
            chk.fail("dispatch-raises", f"DispatcherMiddleware raised {type(e).__name__}: {e}", inp)
            return
        if seen["script"] + seen["path"] != script0 + path:
            chk.fail("dispatch-concat", f"SCRIPT_NAME + PATH_INFO = {seen['script'] + seen['path']!r}, was {script0 + path!r}", inp)
            return
        if not seen["script"].startswith(script0):
            chk.fail("dispatch-script-name", f"SCRIPT_NAME {seen['script']!r} lost its previous value {script0!r}", inp)
            return
        script = seen["script"][len(script0):]
        add("disp " + cps(path) + "".join(f" {cps(k)}={ids[k]}" for k in mounts), f"ok {seen['app']} {cps(script)} {cps(seen['path'])}")
        # property, transcribed: concatenation preserved; the chosen mount is the longest /-bounded prefix that is a mount
        if script + seen["path"] != path:
            chk.fail("dispatch-concat", f"SCRIPT_NAME + PATH_INFO = {script + seen['path']!r}, was {path!r}", inp)
        bounded = [path[:i] for i in range(len(path) + 1) if i == len(path) or path[i] == "/"]
        cands = [p for p in bounded if p in mounts]
        want = max(cands, key=len) if cands else None
        if want is None:
            if seen["app"] != 0:
                chk.fail("dispatch-choice", f"no /-bounded prefix is a mount but app {seen['app']} was chosen", inp)
        elif seen["app"] != ids[want] or script != want:
            chk.fail("dispatch-choice", f"longest mounted prefix is {want!r}; got app {seen['app']} with script {script!r}", inp)
        chk.count("dispatch:mounted" if seen["app"] else "dispatch:default")
        chk.case(("disp", tuple(mounts), path, script0), nontrivial=True,
                 sample={"op": "dispatch", "mounts": list(mounts), "PATH_INFO": path, "impl": [seen["app"], script, seen["path"]]}
                 if len(mounts) > 2 and seen["app"] else None)

    for script0 in ("/outer/", "/outer//", "/", ""):       # an incoming SCRIPT_NAME is kept as it is, trailing slashes included
        one({"/api": 1, "/api/v2": 2}, "/api/v2/users", script0)
    for ms, path in corpus.get("dispatch", []):
        mounts = {k: 1 for k in ms}
        one(mounts, path, "")
    for _ in range(15000 if quick else 200000):
        mounts = {k: 1 for k in rng.sample(mount_pool, rng.randint(0, 5))}
        r = rng.random()
        if r < 0.5 and mounts:
            path = rng.choice(list(mounts)) + "".join(rng.choice(["/", ""]) + rng.choice(segs) for _ in range(rng.randint(0, 3)))
        else:
            path = "".join(rng.choice(["/", "/", "", "//"]) + rng.choice(segs) for _ in range(rng.randint(0, 5)))
        one(mounts, path, rng.choice(["", "", "/outer", "/outer/", "/outer//", "/", "//", "/a/b/"]))


def _escape_for_builder(p: str) -> str:
    """a logical path as the URL path the caller writes: what would be read as syntax is escaped"""
    out = []
    for ch in p:
        if ch in "%?#" or ord(ch) < 0x21 or ord(ch) == 0x7f or ch in "\\":
            out.append("".join(f"%{b:02X}" for b in ch.encode("utf-8")))
        else:
            out.append(ch)
    return "".join(out)


def _e2e(chk, quick, corpus, add) -> None:
    from werkzeug.test import EnvironBuilder
    from werkzeug.wrappers import Request
    from werkzeug.wsgi import get_current_url as wsgi_current_url
    import werkzeug.urls as wurls
    rng = chk.rng
    hosts = [("example.com", "example.com"), ("exämple.com", "xn--exmple-cua.com"), ("127.0.0.1", "127.0.0.1"), ("[::1]", "[::1]"),
             ("bücher.example", "xn--bcher-kva.example"), ("localhost", "localhost"),
             # names and addresses whose last characters are digits of a default port
             ("10.0.0.80", "10.0.0.80"), ("web-0", "web-0"), ("node8.cluster80", "node8.cluster80"), ("10.1.2.34", "10.1.2.34"),
             ("shard-3.db44", "shard-3.db44"), ("192.168.0.100", "192.168.0.100"), ("a8", "a8"), ("host443", "host443"),
             ("[2001:db8::80]", "[2001:db8::80]"), ("[2001:db8::443]", "[2001:db8::443]")]
    text_pool = [p for p in PIECES if not p.startswith("%") or p in ("%", "%4", "%41", "%zz", "%2F", "%25")] + ["\t", "\n", "\x00", "/", "?", "#"]
    MODES = ["ctor", "ctor", "assign-path", "assign-root", "assign-base", "assign-all"]
    cases = [("ctor", p, q, b) for p, q, b in corpus.get("environ", [])]
    cases += [(m, p, q, b) for m, p, q, b in corpus.get("environ_assign", [])]
    for h, _ in hosts:           # every host kind with every explicit port under both schemes
        for scheme in ("http", "https"):
            for port in ("", ":80", ":443", ":8080"):
                cases.append(("ctor", "/p", {"x": "1"}, f"{scheme}://{h}{port}/"))
    for _ in range(3000 if quick else 40000):
        p = "/" + "".join(rng.choice(text_pool) for _ in range(rng.randint(0, 5)))
        while p.startswith("//"):
            p = p[1:]
        q = {}
        for _ in range(rng.randint(0, 3)):
            q["".join(rng.choice(PIECES) for _ in range(rng.randint(1, 2)))] = "".join(rng.choice(PIECES) for _ in range(rng.randint(0, 3)))
        h, _ = rng.choice(hosts)
        scheme = rng.choice(["http", "https"])
        port = rng.choice(["", "", ":8080", ":80", ":443"])
        root = rng.choice(["", "", "/röot", "/a/b", "/x y", "/%41", "/☃", "/ü/€"])
        mode = rng.choice(MODES)
        if mode in ("assign-base", "assign-all") and not h.isascii():
            mode = "assign-path"      # the base_url setter stores the host as given; IDNA happens only in the constructor
        cases.append((mode, p, q, f"{scheme}://{h}{port}{_escape_for_builder(root)}/"))

    def build(mode, p, q, base):
        """the same request, given to the builder through the constructor or by assigning attributes afterwards"""
        ep = _escape_for_builder(p)
        bs_ = up.urlsplit(base)
        if mode == "ctor":
            return EnvironBuilder(path=ep, query_string=q or None, base_url=base)
        if mode == "assign-path":
            b = EnvironBuilder(query_string=q or None, base_url=base)
            b.path = ep
        elif mode == "assign-root":
            b = EnvironBuilder(path=ep, query_string=q or None, base_url=f"{bs_.scheme}://{bs_.netloc}/")
            b.script_root = bs_.path.rstrip("/")
        elif mode == "assign-base":
            b = EnvironBuilder(path=ep, query_string=q or None)
            b.base_url = base
        else:
            b = EnvironBuilder(query_string=q or None)
            b.base_url = base
            b.script_root = bs_.path.rstrip("/")
            b.path = ep
        return b

    for mode, p, q, base in cases:
        inp = {"op": "environ-roundtrip", "given": mode, "path": p, "query": q, "base_url": base}
        try:
            b = build(mode, p, q, base)
            env = b.get_environ()
            r = Request(env)
            got_path, got_args, got_host, got_url, got_root = r.path, list(r.args.items(multi=True)), r.host, r.url, r.root_path
        except Exception as e:  # noqa: BLE001
            chk.fail("environ-roundtrip-raises", f"{type(e).__name__}: {e}", inp)
            continue
        bs = up.urlsplit(base)
        if mode == "ctor" and "\ud800" not in p + "".join(k + v for k, v in q.items()):
            # the builder model: SCRIPT_NAME / PATH_INFO / QUERY_STRING from the path components and the pairs
            add("benv " + cps(bs.scheme) + " " + cps(bs.netloc) + " " + cps(bs.path) + " " + cps(_escape_for_builder(p))
                + "".join(f" {cps(k)}={cps(v)}" for k, v in q.items()),
                f"ok {cps(env['SCRIPT_NAME'])} {cps(env['PATH_INFO'])} {cps(env['QUERY_STRING'])}")
        want_root = up.unquote(bs.path).rstrip("/")
        if got_path != p:
            chk.fail("request-path", f"Request.path = {got_path!r}", inp)
        if got_root != want_root:
            chk.fail("request-root-path", f"Request.root_path = {got_root!r}, expected {want_root!r}", inp)
        if got_args != list(q.items()):
            chk.fail("request-args", f"Request.args = {got_args!r}", inp)
        want_host = bs.hostname.encode("idna").decode("ascii")
        if ":" in want_host:
            want_host = f"[{want_host}]"
        if bs.port and (bs.scheme, bs.port) not in (("http", 80), ("https", 443)):
            want_host += f":{bs.port}"
        if got_host != want_host:
            chk.fail("request-host", f"Request.host = {got_host!r}, expected {want_host!r}", inp)
        # the PATH_INFO / SCRIPT_NAME tunnel carries UTF-8 bytes in latin-1 clothing
        try:
            raw = (env["SCRIPT_NAME"] + env["PATH_INFO"]).encode("latin-1")
        except UnicodeEncodeError:
            raw = None
        if raw != (want_root + p).encode("utf-8", "surrogatepass"):
            chk.fail("environ-path-bytes", f"SCRIPT_NAME + PATH_INFO carry {raw!r}", inp)
        # without a Host header the server address and port are used instead
        if not want_host.startswith("["):
            env2 = {k: v for k, v in env.items() if k != "HTTP_HOST"}
            try:
                h2 = Request(env2).host
            except Exception as e:  # noqa: BLE001
                h2 = repr(e)
            if h2 != want_host:
                chk.fail("request-host-server-fallback", f"SERVER_NAME={env['SERVER_NAME']!r} SERVER_PORT={env['SERVER_PORT']!r}: "
                         f"Request.host = {h2!r}, expected {want_host!r}", inp)
        # the reconstructed URL denotes the same resource: same scheme and authority, and its path and query decode to what was given
        try:
            us = up.urlsplit(wurls.iri_to_uri(got_url))
            ok_auth = (us.scheme == bs.scheme and us.hostname == want_host.strip("[]").rsplit(":", 1)[0].lower() if not want_host.startswith("[")
                       else us.scheme == bs.scheme and us.hostname == want_host[1:].split("]")[0])
            url_path = up.unquote(us.path, errors="surrogateescape")
            url_args = up.parse_qsl(us.query, keep_blank_values=True)
        except Exception as e:  # noqa: BLE001
            chk.fail("request-url-unparsable", f"Request.url = {got_url!r}: {e}", inp)
            continue
        if not ok_auth:
            chk.fail("request-url-authority", f"Request.url = {got_url!r} names another scheme or host than {base!r}", inp)
        if url_path != want_root + p:
            lit = re.search(r"%[0-9A-Fa-f]{2}", want_root + p) is not None
            chk.fail("request-url-literal-percent-escape" if lit else "request-url-path",
                     f"Request.url = {got_url!r}: its path decodes to {url_path!r}, the request was for {want_root + p!r}", inp)
        if url_args != list(q.items()):
            chk.fail("request-url-query", f"Request.url = {got_url!r}: its query decodes to {url_args!r}", inp)
        # both reconstructions agree
        try:
            w = wsgi_current_url(env)
        except Exception as e:  # noqa: BLE001
            w = repr(e)
        if w != got_url:
            chk.fail("wsgi-get_current_url-undecoded", f"wsgi.get_current_url(environ) = {w!r} but Request(environ).url = {got_url!r}", inp)
        # rebuilding the environ through EnvironBuilder.from_environ is the identity on what the request reads (paths that
        # would be re-read as URL syntax - percent sign, question mark, hash, controls - are outside: from_environ hands the
        # decoded path to the constructor as a URL path)
        if not any(ch in "%?#\\" or ord(ch) < 0x21 or ord(ch) == 0x7f for ch in p + want_root):
            try:
                r2 = Request(EnvironBuilder.from_environ(env).get_environ())
                again = (r2.path, r2.root_path, list(r2.args.items(multi=True)), r2.query_string, r2.host, r2.url)
            except Exception as e:  # noqa: BLE001
                again = f"<raised {type(e).__name__}: {e}>"
            if again != (got_path, got_root, got_args, r.query_string, got_host, got_url):
                chk.fail("from-environ-not-identity", f"Request(EnvironBuilder.from_environ(env).get_environ()) reads {again!r}, "
                         f"Request(env) read {(got_path, got_root, got_args, r.query_string, got_host, got_url)!r}", inp)
            chk.count("e2e:from_environ")
        chk.count("e2e:environ-roundtrip:" + mode)
        chk.case(("e2e", mode, p, tuple(q.items()), base), nontrivial=True,
                 sample={"op": "EnvironBuilder->Request", "path": p, "query": q, "base_url": base, "impl": {"path": got_path, "url": got_url}}
                 if len(p) > 4 else None)


def _raw_query(chk, quick, corpus) -> None:
    """a query given as TEXT (raw, not percent-encoded non-ASCII) through EnvironBuilder(query_string=str) and through a
    server-style latin-1 environ: query_string, args, full_path and both URL reconstructions give it back"""
    from werkzeug.test import EnvironBuilder, create_environ
    from werkzeug.wrappers import Request
    from werkzeug.wsgi import get_current_url as wsgi_current_url
    rng = chk.rng
    alpha = ["a", "x", "1", "-", "_", ".", "~", "é", "ü", "ö", "ß", "Ж", "у", "к", "東", "京", "☃", "€", "\U0001f600", "ı", "\xa0", "\xff"]
    word = lambda lo, hi: "".join(rng.choice(alpha) for _ in range(rng.randint(lo, hi)))
    cases = [[(k, v) for k, v in pairs] for pairs in corpus.get("raw_query", [])]
    for _ in range(700 if quick else 12000):
        cases.append([(word(1, 3), word(0, 4)) for _ in range(rng.randint(1, 3))])
    for pairs in cases:
        text = "&".join(f"{k}={v}" for k, v in pairs)
        for how in ("builder", "server"):
            path = rng.choice(["/p", "/", "/ü/☃"])
            inp = {"op": "raw-query", "given": how, "query_text": text, "path": path}
            try:
                if how == "builder":
                    env = EnvironBuilder(path=path, base_url="http://example.org/app/", query_string=text).get_environ()
                else:
                    env = create_environ(path, base_url="http://example.org/app/")
                    env["QUERY_STRING"] = text.encode("utf-8").decode("latin-1")      # raw bytes, seen as latin-1
                r = Request(env)
                got = dict(query_string=r.query_string, args=list(r.args.items(multi=True)), full_path=r.full_path, url=r.url)
                w = wsgi_current_url(env)
            except Exception as e:  # noqa: BLE001
                chk.fail("raw-query-raises", f"{type(e).__name__}: {e}", inp)
                continue
            want_url = f"http://example.org/app{path}?{text}"
            bad = []
            if got["query_string"] != text.encode("utf-8"):
                bad.append(f"Request.query_string = {got['query_string']!r}")
            order = list(dict.fromkeys(k for k, _ in pairs))     # MultiDict.items(multi=True) groups the values of a key
            if got["args"] != [(k, v) for kk in order for k, v in pairs if k == kk]:
                bad.append(f"Request.args = {got['args']!r}")
            if got["full_path"] != f"{path}?{text}":
                bad.append(f"Request.full_path = {got['full_path']!r}")
            if got["url"] != want_url:
                bad.append(f"Request.url = {got['url']!r}, expected {want_url!r}")
            if w != got["url"]:
                bad.append(f"wsgi.get_current_url(environ) = {w!r} but Request.url = {got['url']!r}")
            if bad:
                chk.fail("request-query-raw-text", "; ".join(bad), inp)
            # rebuilding the environ (EnvironBuilder.from_environ, the path taken by Client.open(environ) and by redirect
            # following) is the identity on what the request reads
            def seen(rq):
                return dict(path=rq.path, root_path=rq.root_path, args=list(rq.args.items(multi=True)), query_string=rq.query_string,
                            host=rq.host, url=rq.url)
            base_seen = seen(r)
            try:
                again = seen(Request(EnvironBuilder.from_environ(env).get_environ()))
            except Exception as e:  # noqa: BLE001
                again = f"<raised {type(e).__name__}: {e}>"
            if again != base_seen:
                diff = again if isinstance(again, str) else {k: (base_seen[k], again[k]) for k in base_seen if base_seen[k] != again[k]}
                chk.fail("from-environ-not-identity", f"Request(EnvironBuilder.from_environ(env).get_environ()) differs from Request(env): {diff!r}", inp)
            if rng.random() < 0.25:
                got_app = {}

                def app(environ, start_response, got_app=got_app):
                    rq = Request(environ)
                    if rq.path == "/redirect-me":
                        start_response("307 TEMPORARY REDIRECT", [("Location", "http://example.org/app" + path + "?" + text)])
                        return [b""]
                    got_app.update(seen(rq))
                    start_response("200 OK", [("Content-Type", "text/plain")])
                    return [b"ok"]
                from werkzeug.test import Client
                try:
                    Client(app).open(dict(env))
                except Exception as e:  # noqa: BLE001
                    got_app["error"] = repr(e)
                if got_app != base_seen:
                    diff = {k: (base_seen.get(k), got_app.get(k)) for k in set(base_seen) | set(got_app) if base_seen.get(k) != got_app.get(k)}
                    chk.fail("client-open-environ-not-identity", f"the application called through Client.open(environ) sees {diff!r}", inp)
                # ... and through a redirect whose Location carries the raw query
                got_app.clear()
                try:
                    Client(app).get("/redirect-me", base_url="http://example.org/app/", follow_redirects=True)
                except Exception as e:  # noqa: BLE001
                    got_app["error"] = repr(e)
                if got_app != base_seen:
                    diff = {k: (base_seen.get(k), got_app.get(k)) for k in set(base_seen) | set(got_app) if base_seen.get(k) != got_app.get(k)}
                    chk.fail("redirect-raw-query-not-preserved", f"after following a redirect to the same URL the application sees {diff!r}", inp)
            chk.count("e2e:raw-query:" + how)
            chk.case(("rawq", how, text, path), nontrivial=True,
                     sample={"op": "raw query text", "given": how, "query_text": text, "impl": got["url"]} if len(text) > 8 else None)


def _second_build(chk, quick, corpus) -> None:
    """each build is a function of the builder's state at that moment: build, change the builder (the live args MultiDict in
    place, or one of the attributes), build again, and the request must read back the CURRENT state"""
    from werkzeug.datastructures import MultiDict
    from werkzeug.test import EnvironBuilder
    from werkzeug.wrappers import Request
    rng = chk.rng
    words = ["a", "b", "k", "x1", "é", "ü", "東", "☃", "a b", "1+1", "&", "=", "", "v%41", "\U0001f600"]
    for _ in range(900 if quick else 15000):
        items = [(rng.choice(words[:9]) or "k", rng.choice(words)) for _ in range(rng.randint(0, 3))]
        path, base = rng.choice(["/p", "/", "/ü/☃"]), rng.choice(["http://example.org/app/", "http://localhost/", "https://h:8443/r/"])
        b = EnvironBuilder(path=path, base_url=base, query_string=MultiDict(items))
        steps = []
        try:
            for nbuild in range(rng.randint(1, 2)):
                r0 = (b.get_request() if rng.random() < 0.5 else Request(b.get_environ()))
                _ = (r0.args, r0.url)
                op = rng.choice(["add", "add", "setlist", "pop", "clear", "setitem", "update", "query_string=", "args=", "path=", "base_url=",
                                 "host=", "script_root="])
                k, v = rng.choice(words[:9]) or "k", rng.choice(words)
                if op in ("add", "setlist", "pop", "clear", "setitem", "update") and b._query_string is not None:
                    op = "args="
                if op == "add":
                    b.args.add(k, v)
                elif op == "setlist":
                    b.args.setlist(k, [v, v + "2"])
                elif op == "pop":
                    b.args.pop(k, None) if k in b.args or not b.args else b.args.pop(next(iter(b.args)))
                elif op == "clear":
                    b.args.clear()
                elif op == "setitem":
                    b.args[k] = v
                elif op == "update":
                    b.args.update({k: v})
                elif op == "query_string=":
                    b.query_string = f"{k}={v.replace('&', '').replace('=', '').replace('+', '').replace('%', '')}"
                elif op == "args=":
                    b.args = MultiDict([(k, v), ("z", "9")])
                elif op == "path=":
                    path = rng.choice(["/new", "/n/é", "/☃"])
                    b.path = path
                elif op == "base_url=":
                    base = rng.choice(["https://other.example:8443/r2/", "http://h2/"])
                    b.base_url = base
                elif op == "host=":
                    b.host = rng.choice(["other.example:81", "h3"])
                elif op == "script_root=":
                    b.script_root = rng.choice(["/sr", "", "/ü"])
                steps.append(op)
            # the builder's current state, read without going through its query_string property
            if b._query_string is not None:
                want_items = up.parse_qsl(b._query_string, keep_blank_values=True)
                want_q = b._query_string
            else:
                want_items = list(b.args.items(multi=True))
                want_q = up.urlencode(want_items, safe="!$'()*,/:;?@")
            order = list(dict.fromkeys(k_ for k_, _ in want_items))
            want_items = [(k_, v_) for kk in order for k_, v_ in want_items if k_ == kk]
            want_host = b.host[:-3] if (b.url_scheme == "http" and b.host.endswith(":80")) else b.host
            r = Request(b.get_environ())
            got = dict(args=list(r.args.items(multi=True)), query_string=r.query_string.decode("utf-8", "replace"), path=r.path,
                       root_path=r.root_path, host=r.host, scheme=r.scheme)
            want = dict(args=want_items, query_string=want_q, path=up.unquote(b.path), root_path=up.unquote(b.script_root), host=want_host,
                        scheme=b.url_scheme)
        except Exception as e:  # noqa: BLE001
            chk.fail("builder-second-build-raises", f"{type(e).__name__}: {e}", {"op": "second-build", "items": items, "steps": steps})
            continue
        inp = {"op": "second-build", "path": path, "base_url": base, "first_items": items, "then": steps}
        if got != want:
            diff = {k_: (want[k_], got[k_]) for k_ in want if want[k_] != got[k_]}
            chk.fail("builder-second-build-stale", f"after {steps} the next build does not show the builder's current state "
                     f"(expected, read): {diff!r}", inp)
        elif not r.full_path.endswith("?" + r.query_string.decode("utf-8", "replace")) or (want_q and "?" not in r.url) or (not want_q and r.url.endswith("?")):
            chk.fail("builder-second-build-stale", f"full_path {r.full_path!r} / url {r.url!r} do not carry the current query {want_q!r}", inp)
        chk.count("e2e:second-build:" + (steps[-1] if steps else "none"))
        chk.case(("second", path, base, tuple(items), tuple(steps)), nontrivial=True)


def replay(rep) -> int:
    import json
    import werkzeug.urls as wurls
    inp = rep.get("input") or {}
    print(json.dumps({k: rep.get(k) for k in ("property", "kind", "key", "what")}, indent=1, ensure_ascii=True))
    op = inp.get("op") if isinstance(inp, dict) else None
    if op == "u2i":
        f = getattr(wurls, "_unquote_" + ("user" if inp["component"] == "password" else inp["component"]))
        once = f(inp["value"])
        print(f"_unquote_{inp['component']}({inp['value']!r}) = {once!r}; again = {f(once)!r}")
        return 0 if f(once) == once else 1
    if op in ("uri_to_iri", "url"):
        u = inp["url"]
        once = wurls.uri_to_iri(u)
        print(f"uri_to_iri({u!r}) = {once!r}; again = {wurls.uri_to_iri(once)!r}; iri_to_uri = {wurls.iri_to_uri(u)!r}")
        return 0 if wurls.uri_to_iri(once) == once else 1
    print("input:", json.dumps(inp, indent=1, default=repr, ensure_ascii=True))
    return 0


def main(chk: Check) -> None:
    try:
        gen()
    except px.Unsupported as e:
        chk.broken("translator", "C15/Gen.v", str(e))
    chk.forbidden_scan()
    if chk.coq_make(["C15/GenDispatch.vo", "C15/Proofs.vo", "C15/Fixpoint.vo", "C15/Builder.vo", "C15/Extract.vo"]):
        chk.audit_props("C15/Props.v")
    else:
        chk.cov["obligations"] += 1
    chk.trusted += [
        "translator tools/c15.py + tools/pyextract.py (safe= strings of the quote calls in iri_to_uri and get_current_url, _always_unsafe and the "
        "four _make_unquote_part tables by evaluating their literal expressions; statement skeletons of _make_unquote_part, "
        "_codec_error_url_quote, the two dance functions, get_current_url and DispatcherMiddleware.__call__ pinned by ast.unparse)",
        "hand-written models of urllib.parse.quote / quote_from_bytes / unquote and of CPython's UTF-8 decoder error ranges "
        "(coq/C15/LibPercent.v), validated by differential execution against the interpreter",
        "re.IGNORECASE on the generated pattern only affects the hex digits a-f (no non-ASCII character case-folds to a hex digit)",
        "urllib.parse.urlsplit / urlunsplit, str.encode('idna') / bytes.decode('idna') and the netloc assembly are harness-side: "
        "whole URLs are split and reassembled by the interpreter around the modelled component functions",
        "UTF-8 / latin-1 codec models lib/Utf8.v",
        "extraction ExtrOcamlBasic + tools/conv.ml + coq/C15/driver.ml, OCaml 4.13.1",
        "statement pin tools/pins/c15_urls.txt: _codec_error_url_quote, _make_unquote_part, uri_to_iri, iri_to_uri, _decode_idna, the two dance "
        "functions, sansio get_current_url / get_host, wsgi get_current_url / _get_server / get_host, DispatcherMiddleware.__init__, "
        "wrappers Request.__init__, sansio Request.__init__ / args / full_path / url / base_url / root_url / host_url / host, and the URL part of "
        "EnvironBuilder (__init__, get_environ, base_url, query_string, args, server_name, server_port), with holes at the translated constants",
        "validated differentially only (CPython library code, not werkzeug code, no pin): urllib.parse.quote / unquote / unquote_to_bytes / "
        "urlsplit / urlunsplit / parse_qsl, the idna and utf-8 / latin-1 codecs, codecs.register_error; werkzeug.urls._urlencode is C02's",
        "EnvironBuilder: urlsplit of the path argument and of iri_to_uri(base_url), IDNA, SERVER_NAME / SERVER_PORT and the non-URL environ "
        "entries are outside the builder model (exercised end to end); the builder statements the model was written for are pinned",
        "C02's urlencode / parse_qsl model and its lemmas urlencoded_roundtrip / urlencode_ascii (coq/C02/Model.v, Proofs.v) are imported, not re-modelled",
    ]
    try:
        run(chk)
    except Exception:  # noqa: BLE001  (a harness crash must still end in a verdict)
        import traceback
        chk.broken("harness", "tools/c15.py run()", traceback.format_exc())
    chk.finish(rule="quote/unquote: random text over escapes (valid UTF-8, truncated, overlong, surrogate, stray percent), reserved "
                    "characters and raw Unicode x the safe strings, every escaped byte alone and in context; per-component uri_to_iri "
                    "and iri_to_uri incl. every escaped byte; whole URLs from scheme x userinfo x host kinds (ASCII, IDN, IPv4, IPv6) "
                    "x port x path/query/fragment pieces; the dance on every code point below 0x3000 (quick: every fifth) and random "
                    "text / random latin-1; get_current_url argument product; DispatcherMiddleware on random mount tables over nested "
                    "prefixes x request paths; EnvironBuilder -> Request round trips. Non-trivial = non-empty input; distinct by hash.")
