"""C19  The development server transports requests and responses faithfully."""
from __future__ import annotations

import ast
import difflib
import io
import os
import re
import socket

from . import pyextract as px
from . import c09
from .c09 import T2, _Holes, find_method, strip_doc
from .vlib import COQ, Check, ImplTimeout, cps, hexs, with_timeout

PID = "C19"
CLAIM = dict(
    text="Coq theorems over an executable model of serving.DechunkedInput (readinto / read_chunk_len over a buffered reader), of the "
         "response writer of WSGIRequestHandler.run_wsgi (status line, header emission, chunked-framing decision generated from the "
         "source, chunk frames, terminator) and of make_environ (target splitting, percent-decoding, header folding): de-chunking is "
         "exact for every chunk list, hex spelling, CRLF/LF terminator and every sequence of positive read sizes; ill-framed input "
         "(truncated, non-hex, negative, unterminated) ends in OSError after delivering only genuine chunk data; the bytes written for "
         "a response de-chunk to the application's chunks and chunked framing is used exactly when the statement says; PATH_INFO is the "
         "percent-decoded path. Tied to the code by regenerated comparisons / constants / decision functions (T1/T2) and by differential "
         "execution: DechunkedInput driven directly (~25k cases) and the whole WSGIRequestHandler driven in-process over "
         "socket.socketpair() with the model predicting environ, body and the raw response bytes (Date/Server masked).",
    note="Trusted: Coq kernel; translator tools/c19.py (+ T2 of tools/c09.py); ExtrOcamlBasic extraction + driver; http.server request-line "
         "and header parsing, email.message header storage, sockets, selectors draining and timing are runtime (exercised, not modelled); "
         "urllib.parse.urlsplit / unquote modelled by hand on printable-ASCII targets without brackets in the authority; "
         "io.RawIOBase.read / readall / readline on top of readinto modelled by hand; header text is latin-1; status strings are "
         "'<digits>[ <reason>]'.",
    design="6/C19")


class T2x(T2):
    """T2 plus the expression forms of serving.py: chained integer comparisons, membership of a constant in a
    string set / of an integer in a literal set, string == and >=, integer !=."""

    def expr(self, n):
        txt = ast.unparse(n)
        if txt in self.atoms:
            return self.atoms[txt]
        if isinstance(n, ast.Constant) and isinstance(n.value, str):
            return ("str", px.coq_string_codes(n.value))
        if isinstance(n, ast.Constant) and isinstance(n.value, bytes):
            return ("str", px.coq_string_codes(n.value))
        if isinstance(n, ast.Compare):
            ops, terms = n.ops, [n.left] + list(n.comparators)
            if len(ops) == 1 and isinstance(ops[0], ast.In):
                (ta, a) = self.expr(terms[0])
                if ta == "str":
                    tb, b = self.expr(terms[1])
                    if tb != "strset":
                        raise self.bad(f"membership in a non-set: {txt!r}")
                    return ("bool", f"(mem_str {a} {b})")
                if ta == "int" and isinstance(terms[1], ast.Set) and all(
                        isinstance(e, ast.Constant) and isinstance(e.value, int) for e in terms[1].elts):
                    return ("bool", "(" + " || ".join(f"({a} =? {e.value})%{self.int_scope}" for e in terms[1].elts) + ")")
                raise self.bad(f"membership test {txt!r}")
            parts = []
            for op, l, r in zip(ops, terms, terms[1:]):
                (ta, a), (tb, b) = self.expr(l), self.expr(r)
                if ta == tb == "int":
                    if isinstance(op, ast.NotEq):
                        parts.append(f"(negb ({a} =? {b})%{self.int_scope})")
                    elif type(op) in self.CMP:
                        parts.append(f"({a} {self.CMP[type(op)]} {b})%{self.int_scope}")
                    else:
                        raise self.bad(f"comparison {txt!r}")
                elif ta == tb == "str":
                    if isinstance(op, ast.Eq):
                        parts.append(f"(list_eqb {a} {b})")
                    elif isinstance(op, ast.GtE):
                        parts.append(f"(str_geb {a} {b})")
                    else:
                        raise self.bad(f"string comparison {txt!r}")
                else:
                    raise self.bad(f"comparison of {ta} with {tb} in {txt!r}")
            return ("bool", parts[0] if len(parts) == 1 else "(" + " && ".join(parts) + ")")
        return super().expr(n)


class T3:
    """Translation of straight-line string code with if / continue / local assignment / dict item assignment into
    nested Gallina lets over the variables it assigns (make_environ's header loop and its neighbours).  Fail closed."""

    def __init__(self, name, vars_, atoms=None, state="environ"):
        self.name = name
        self.vars = set(vars_)        # names usable as str variables
        self.atoms = atoms or {}      # unparse text -> (type, coq)
        self.state = state
        self.sub = {}                 # temporary substitutions (environ[key] under `if key in environ`)

    def bad(self, what):
        return px.Unsupported(f"{self.name}: {what}")

    def lit(self, v):
        return px.coq_string_codes(v)

    def sexpr(self, n):
        """string-valued expression"""
        txt = ast.unparse(n)
        if txt in self.sub:
            return self.sub[txt]
        if txt in self.atoms and self.atoms[txt][0] == "str":
            return self.atoms[txt][1]
        if isinstance(n, ast.Name) and n.id in self.vars:
            return n.id
        if isinstance(n, ast.Constant) and isinstance(n.value, str):
            return self.lit(n.value)
        if isinstance(n, ast.JoinedStr):
            parts = []
            for v in n.values:
                if isinstance(v, ast.Constant):
                    parts.append(self.lit(v.value))
                elif isinstance(v, ast.FormattedValue) and v.conversion == -1 and v.format_spec is None:
                    parts.append(self.sexpr(v.value))
                else:
                    raise self.bad(f"f-string part {ast.unparse(v)!r}")
            return "(" + " ++ ".join(parts) + ")"
        if isinstance(n, ast.Call) and isinstance(n.func, ast.Attribute) and not n.keywords:
            recv, meth, args = n.func.value, n.func.attr, n.args
            if meth in ("upper", "lower", "strip") and not args:
                return f"(str_{meth} {self.sexpr(recv)})"
            if meth == "replace" and len(args) == 2 and isinstance(args[0], ast.Constant) and isinstance(args[0].value, str) \
                    and args[0].value != "":
                return f"(str_replace {self.sexpr(recv)} {self.sexpr(args[0])} {self.sexpr(args[1])})"
            if meth == "get" and ast.unparse(recv) == self.state and len(args) == 2:
                return f"(env_get_d {self.sexpr(args[0])} {self.sexpr(args[1])} {self.state})"
        raise self.bad(f"unmapped string expression {txt!r}")

    def bexpr(self, n):
        txt = ast.unparse(n)
        if txt in self.atoms and self.atoms[txt][0] == "bool":
            return self.atoms[txt][1]
        if isinstance(n, ast.BoolOp):
            op = " && " if isinstance(n.op, ast.And) else " || "
            return "(" + op.join(self.bexpr(v) for v in n.values) + ")"
        if isinstance(n, ast.UnaryOp) and isinstance(n.op, ast.Not):
            return f"(negb {self.bexpr(n.operand)})"
        if isinstance(n, ast.Compare) and len(n.ops) == 1:
            op, l, r = n.ops[0], n.left, n.comparators[0]
            if isinstance(op, (ast.In, ast.NotIn)):
                if isinstance(r, ast.Tuple):
                    c = f"(mem_str {self.sexpr(l)} [" + "; ".join(self.sexpr(e) for e in r.elts) + "])"
                elif isinstance(l, ast.Constant):
                    c = f"(str_contains {self.sexpr(l)} {self.sexpr(r)})"
                else:
                    raise self.bad(f"membership {txt!r}")
                return c if isinstance(op, ast.In) else f"(negb {c})"
            if isinstance(op, ast.Eq):
                return f"(list_eqb {self.sexpr(l)} {self.sexpr(r)})"
        # truthiness of a str
        try:
            return f"(nonempty_str {self.sexpr(n)})"
        except px.Unsupported:
            raise self.bad(f"unmapped test {txt!r}") from None

    def block(self, stmts, k):
        if not stmts:
            return k()
        st, rest = stmts[0], stmts[1:]

        def cont():
            return self.block(rest, k)
        if isinstance(st, ast.Continue):
            return self.state
        if isinstance(st, ast.Assign) and len(st.targets) == 1:
            tg = st.targets[0]
            if isinstance(tg, ast.Name):
                self.vars.add(tg.id)
                return f"(let {tg.id} := {self.sexpr(st.value)} in\n   {cont()})"
            if isinstance(tg, ast.Subscript) and ast.unparse(tg.value) == self.state:
                return f"(let {self.state} := env_set {self.sexpr(tg.slice)} {self.sexpr(st.value)} {self.state} in\n   {cont()})"
            raise self.bad(f"assignment target {ast.unparse(tg)!r}")
        if isinstance(st, ast.If):
            t = st.test
            if (isinstance(t, ast.Compare) and len(t.ops) == 1 and isinstance(t.ops[0], ast.In)
                    and ast.unparse(t.comparators[0]) == self.state and not isinstance(t.left, ast.Constant)):
                # `if key in environ:` - inside, environ[key] is the value found
                key = self.sexpr(t.left)
                item = f"{self.state}[{ast.unparse(t.left)}]"
                self.sub[item] = "cur_"
                a = self.block(st.body, cont)
                del self.sub[item]
                b = self.block(st.orelse, cont)
                return f"(match env_get {key} {self.state} with\n   | Some cur_ => {a}\n   | None => {b} end)"
            c = self.bexpr(t)
            saved = set(self.vars)
            a = self.block(st.body, cont)
            self.vars = set(saved)
            b = self.block(st.orelse, cont)
            return f"(if {c}\n   then {a}\n   else {b})"
        raise self.bad(f"statement {ast.unparse(st)[:80]!r}")


def _stdlib_http_server():
    """T1 from the running interpreter's http.server: the formats and default headers behind send_response /
    send_header / end_headers (part of the bytes the development server writes)"""
    import http.server as hs
    try:
        with open(hs.__file__, encoding="utf-8") as f:
            mod = ast.parse(f.read())
    except (OSError, SyntaxError) as e:
        raise px.Unsupported(f"cannot read http.server source: {e}") from e
    cls = px.find_class(mod, "BaseHTTPRequestHandler")
    got = {n: [ast.unparse(x) for x in strip_doc(find_method(cls, n).body)] for n in
           ("send_response", "send_response_only", "send_header", "end_headers")}
    if got["send_response"] != ["self.log_request(code)", "self.send_response_only(code, message)",
                                "self.send_header('Server', self.version_string())",
                                "self.send_header('Date', self.date_time_string())"]:
        raise px.Unsupported("http.server send_response changed: " + repr(got["send_response"]))
    m1 = re.search(r"self\._headers_buffer\.append\(\(('[^']*') % \(self\.protocol_version, code, message\)\)\.encode\('latin-1', 'strict'\)\)",
                   "\n".join(got["send_response_only"]))
    m2 = re.search(r"self\._headers_buffer\.append\(\(('[^']*') % \(keyword, value\)\)\.encode\('latin-1', 'strict'\)\)",
                   "\n".join(got["send_header"]))
    m3 = re.search(r"self\._headers_buffer\.append\((b'[^']*')\)", "\n".join(got["end_headers"]))
    if not (m1 and m2 and m3):
        raise px.Unsupported("http.server status line / header / end_headers formats not recognised")
    return ast.literal_eval(m1.group(1)), ast.literal_eval(m2.group(1)), ast.literal_eval(m3.group(1)), ["Server", "Date"]


def _skel(body, holes, expected, what):
    got = ast.unparse(ast.fix_missing_locations(_Holes(holes).visit(ast.Module(body=body, type_ignores=[]))))
    if got != expected:
        d = "\n".join(difflib.unified_diff(expected.split("\n"), got.split("\n"), lineterm="", n=0))
        raise px.Unsupported(f"{what}: statement skeleton changed:\n{d}")


READ_CHUNK_LEN_SKELETON = '''try:
    line = self._rfile.readline().decode('latin1').strip()
    if _chunk_size_re.fullmatch(line) is None:
        raise ValueError(line)
    _len = int(line, H_base)
except ValueError as e:
    raise OSError('Invalid chunk header') from e
if H_neg:
    raise OSError('Negative chunk length not allowed')
return _len'''

DC_READINTO_SKELETON = '''read = 0
while H_continue:
    if H_zero1:
        self._len = self.read_chunk_len()
    if H_zero2:
        self._done = True
    if H_pos:
        n = H_n
        data = self._rfile.read(n)
        if H_short:
            raise OSError('Incomplete chunk')
        buf[read:read + n] = data
        self._len -= n
        read += n
    if H_zero3:
        terminator = self._rfile.readline()
        if terminator not in H_terminators:
            raise OSError('Missing chunk terminating newline')
return read'''

WRITE_SKELETON = '''nonlocal status_sent, headers_sent, chunk_response
assert status_set is not None, 'write() before start_response'
assert headers_set is not None, 'write() before start_response'
if status_sent is None:
    status_sent = status_set
    headers_sent = headers_set
    try:
        code_str, msg = status_sent.split(None, 1)
    except ValueError:
        code_str, msg = (status_sent, '')
    code = int(code_str)
    H_plan
assert isinstance(data, bytes), 'applications must write bytes'
if data:
    if chunk_response:
        self.wfile.write(hex(len(data))[2:].encode())
        self.wfile.write(H_crlf1)
    self.wfile.write(data)
    if chunk_response:
        self.wfile.write(H_crlf2)
self.wfile.flush()'''

EXECUTE_TRY_SKELETON = '''for data in application_iter:
    write(data)
if not headers_sent:
    write(b'')
if chunk_response:
    self.wfile.write(H_final)'''

RUN_WSGI_HEAD_SKELETON = '''if self.headers.get(H_exp_k, '').lower().strip() == H_exp_v:
    self.wfile.write(H_cont)
self.environ = environ = self.make_environ()'''

MAKE_ENVIRON_SKELETON = '''request_url = urlsplit(self.path)
url_scheme = 'http' if self.server.ssl_context is None else 'https'
if not self.client_address:
    self.client_address = ('<local>', 0)
elif isinstance(self.client_address, str):
    self.client_address = (self.client_address, 0)
H_path_info
path_info = unquote(path_info)
environ: WSGIEnvironment = {'wsgi.version': (1, 0), 'wsgi.url_scheme': url_scheme, 'wsgi.input': self.rfile, 'wsgi.errors': sys.stderr, 'wsgi.multithread': self.server.multithread, 'wsgi.multiprocess': self.server.multiprocess, 'wsgi.run_once': False, 'werkzeug.socket': self.connection, 'SERVER_SOFTWARE': self.server_version, 'REQUEST_METHOD': self.command, 'SCRIPT_NAME': '', 'PATH_INFO': _wsgi_encoding_dance(path_info), 'QUERY_STRING': _wsgi_encoding_dance(request_url.query), 'REQUEST_URI': _wsgi_encoding_dance(self.path), 'RAW_URI': _wsgi_encoding_dance(self.path), 'REMOTE_ADDR': self.address_string(), 'REMOTE_PORT': self.port_integer(), 'SERVER_NAME': self.server.server_address[0], 'SERVER_PORT': str(self.server.server_address[1]), 'SERVER_PROTOCOL': self.request_version}
for key, value in self.headers.items():
    H_loop_body
if H_chunked_test:
    environ['wsgi.input_terminated'] = True
    environ['wsgi.input'] = DechunkedInput(environ['wsgi.input'])
H_host
try:
    peer_cert = self.connection.getpeercert(binary_form=True)
    if peer_cert is not None:
        environ['SSL_CLIENT_CERT'] = ssl.DER_cert_to_PEM_cert(peer_cert)
except ValueError:
    self.server.log('error', 'Cannot fetch SSL peer certificate info')
except AttributeError:
    pass
return environ'''


def _lit(node, typ, what):
    try:
        v = px.const(node)
    except px.Unsupported:
        raise
    if not isinstance(v, typ):
        raise px.Unsupported(f"{what}: literal of type {type(v).__name__}")
    return v


def gen() -> None:
    """T1/T2: regenerate coq/C19/Gen.v from serving.py (and coq/C09/Gen.v from wsgi.py: C19/Limited.v is built over the
    regenerated LimitedStream definitions)."""
    try:
        c09.gen()
    except px.Unsupported as e:
        raise px.Unsupported(f"C09/Gen.v (LimitedStream, used by C19/Limited.v): {e}") from e
    mod = px.load("serving.py")
    text = "(* GENERATED by tools/c19.py from serving.py on every run - do not edit *)\n"
    text += "From Wz Require Import C19.Base.\nOpen Scope N_scope.\n\n"

    # ---- DechunkedInput
    pat, flags = px.regex_of(px.find_assign(mod, "_chunk_size_re"))
    if not isinstance(pat, str):
        raise px.Unsupported("_chunk_size_re is not a str pattern")
    text += f"Definition chunk_size_re_text : list N := {px.coq_string_codes(pat)}.\n"
    text += f"Definition chunk_size_re_flags : N := {int(flags)}.\n"
    cls = px.find_class(mod, "DechunkedInput")
    init = find_method(cls, "__init__")
    if [ast.unparse(s) for s in strip_doc(init.body)] != ["self._rfile = rfile", "self._done = False", "self._len = 0"]:
        raise px.Unsupported("DechunkedInput.__init__ changed")
    fn = find_method(cls, "read_chunk_len")
    body = strip_doc(fn.body)
    try:
        holes = {"H_base": body[0].body[2].value.args[1], "H_neg": body[1].test}
    except (AttributeError, IndexError) as e:
        raise px.Unsupported(f"DechunkedInput.read_chunk_len: shape changed ({e})") from e
    _skel(body, holes, READ_CHUNK_LEN_SKELETON, "DechunkedInput.read_chunk_len")
    tr = T2x("DechunkedInput", {"_len": ("int", "len"), "self._len": ("int", "len"), "read": ("int", "read"),
                                "len(buf)": ("int", "size"), "self._done": ("bool", "done"), "n": ("int", "n"),
                                "len(data)": ("int", "dlen")})
    base = _lit(holes["H_base"], int, "int() base")
    text += f"Definition dc_int_base : N := {base}.\n"

    def ex(node, want):
        t, c = tr.expr(node)
        if t != want:
            raise px.Unsupported(f"DechunkedInput: {ast.unparse(node)!r} has type {t}, expected {want}")
        return c
    text += f"Definition dc_neg (len : Z) : bool := {ex(holes['H_neg'], 'bool')}.\n"
    fn = find_method(cls, "readinto")
    if [a.arg for a in fn.args.args] != ["self", "buf"]:
        raise px.Unsupported("DechunkedInput.readinto signature changed")
    body = strip_doc(fn.body)
    try:
        loop = body[1]
        holes = {"H_continue": loop.test, "H_zero1": loop.body[0].test, "H_zero2": loop.body[1].test,
                 "H_pos": loop.body[2].test, "H_n": loop.body[2].body[0].value, "H_short": loop.body[2].body[2].test,
                 "H_zero3": loop.body[3].test, "H_terminators": loop.body[3].body[1].test.comparators[0]}
    except (AttributeError, IndexError) as e:
        raise px.Unsupported(f"DechunkedInput.readinto: shape changed ({e})") from e
    _skel(body, holes, DC_READINTO_SKELETON, "DechunkedInput.readinto")
    terms = _lit(holes["H_terminators"], tuple, "terminator tuple")
    if not all(isinstance(x, bytes) for x in terms):
        raise px.Unsupported("terminator tuple is not a tuple of bytes")
    text += f"Definition dc_continue (done : bool) (read size : Z) : bool := {ex(holes['H_continue'], 'bool')}.\n"
    for k in ("H_zero1", "H_zero2", "H_zero3", "H_pos"):
        text += f"Definition dc_{k[2:]} (len : Z) : bool := {ex(holes[k], 'bool')}.\n"
    text += f"Definition dc_n (size read len : Z) : Z := {ex(holes['H_n'], 'int')}.\n"
    text += f"Definition dc_short (dlen n : Z) : bool := {ex(holes['H_short'], 'bool')}.\n"
    text += "Definition dc_terminators : list (list N) := [" + "; ".join(px.coq_string_codes(x) for x in terms) + "].\n\n"

    # ---- run_wsgi: write / execute / 100-continue
    hcls = px.find_class(mod, "WSGIRequestHandler")
    rw = find_method(hcls, "run_wsgi")
    inner = {n.name: n for n in rw.body if isinstance(n, ast.FunctionDef)}
    if set(inner) != {"write", "start_response", "execute"}:
        raise px.Unsupported(f"run_wsgi inner functions changed: {sorted(inner)}")
    wbody = strip_doc(inner["write"].body)
    try:
        first = wbody[3]
        start = next(i for i, x in enumerate(first.body) if ast.unparse(x) == "header_keys = set()" or
                     ast.unparse(x) == "self.send_response(code, msg)")
        span = first.body[start:]
        cond_if = next(x for x in span if isinstance(x, ast.If) and any(ast.unparse(y) == "chunk_response = True" for y in x.body))
        holes = {"H_cond": cond_if.test,
                 "H_crlf1": wbody[5].body[0].body[1].value.args[0], "H_crlf2": wbody[5].body[2].body[0].value.args[0]}
    except (AttributeError, IndexError, StopIteration) as e:
        raise px.Unsupported(f"run_wsgi.write: shape changed ({e})") from e
    # what write() emits on its first call, in source order (everything from send_response to end_headers)
    plan = []
    for stt in span:
        u = ast.unparse(stt)
        if u == "header_keys = set()":
            continue
        if u == "self.send_response(code, msg)":
            plan.append("PStatus")
        elif isinstance(stt, ast.For) and ast.unparse(stt.iter) == "headers_sent" and [ast.unparse(x) for x in stt.body] == [
                "self.send_header(key, value)", "header_keys.add(key.lower())"]:
            plan.append("PAppHeaders")
        elif stt is cond_if:
            if len(stt.body) != 2 or stt.orelse or ast.unparse(stt.body[1].value.func) != "self.send_header":
                raise px.Unsupported("run_wsgi.write: chunked branch changed")
            te = (_lit(stt.body[1].value.args[0], str, "te"), _lit(stt.body[1].value.args[1], str, "te"))
            plan.append(f"PIfChunked {px.coq_string_codes(te[0])} {px.coq_string_codes(te[1])}")
        elif (isinstance(stt, ast.Expr) and isinstance(stt.value, ast.Call) and ast.unparse(stt.value.func) == "self.send_header"
              and len(stt.value.args) == 2):
            cn = (_lit(stt.value.args[0], str, "header"), _lit(stt.value.args[1], str, "header"))
            plan.append(f"PHeader {px.coq_string_codes(cn[0])} {px.coq_string_codes(cn[1])}")
        elif u == "self.end_headers()":
            plan.append("PEnd")
        else:
            raise px.Unsupported(f"run_wsgi.write: statement not recognised in the emission plan: {u[:80]!r}")
    first.body[start:] = [ast.Expr(ast.Name(id="H_plan", ctx=ast.Load()))]
    cond_node = holes.pop("H_cond")
    _skel(wbody, holes, WRITE_SKELETON, "run_wsgi.write")
    holes["H_cond"] = cond_node
    tr = T2x("run_wsgi.write", {"header_keys": ("strset", "header_keys"), "environ['REQUEST_METHOD']": ("str", "method"),
                                "code": ("int", "code"), "self.protocol_version": ("str", "proto")})
    t, c = tr.expr(holes["H_cond"])
    if t != "bool":
        raise px.Unsupported("chunked-framing condition is not boolean")
    text += ("(* the chunked-framing decision of run_wsgi.write; header_keys = lower-cased response header names *)\n"
             "Definition chunk_condition_gen (header_keys : list str) (method : str) (code : Z) (proto : str) : bool :=\n  "
             f"{c}.\n")
    text += "Definition head_plan : list hitem := [" + "; ".join(plan) + "].\n"
    for k, nm in (("H_crlf1", "chunk_sep1"), ("H_crlf2", "chunk_sep2")):
        text += f"Definition {nm} : list N := {px.coq_string_codes(_lit(holes[k], bytes, nm))}.\n"
    ebody = strip_doc(inner["execute"].body)
    try:
        tr_ = ebody[1]
        holes = {"H_final": tr_.body[2].body[0].value.args[0]}
        if ast.unparse(ebody[0]) != "application_iter = app(environ, start_response)" or not isinstance(tr_, ast.Try):
            raise AttributeError("prologue")
    except (AttributeError, IndexError) as e:
        raise px.Unsupported(f"run_wsgi.execute: shape changed ({e})") from e
    _skel(tr_.body, holes, EXECUTE_TRY_SKELETON, "run_wsgi.execute")
    text += f"Definition final_chunk : list N := {px.coq_string_codes(_lit(holes['H_final'], bytes, 'final chunk'))}.\n"
    # T2: start_response, the assertions and the first-call test of write(), the flush / terminator tests of execute()
    sr = inner["start_response"]
    if [a.arg for a in sr.args.args] != ["status", "headers", "exc_info"] or [ast.unparse(d) for d in sr.args.defaults] != ["None"]:
        raise px.Unsupported("start_response signature changed")
    srb = strip_doc(sr.body)
    try:
        top = srb[1]
        tryn = top.body[0]
        if not (ast.unparse(srb[0]) == "nonlocal status_set, headers_set" and isinstance(tryn, ast.Try) and not tryn.handlers
                and [ast.unparse(x) for x in tryn.finalbody] == ["exc_info = None"] and len(top.body) == 1):
            raise AttributeError("try/finally")
        flat = [ast.If(test=top.test, body=list(tryn.body), orelse=top.orelse)] + srb[2:]
    except (AttributeError, IndexError) as e:
        raise px.Unsupported(f"start_response: shape changed ({e})") from e
    trs = T2("start_response",
             atoms={"exc_info": ("bool", "exc_info"), "headers_sent": ("bool", "headers_sent"), "headers_set": ("bool", "headers_set"),
                    "write": ("val", "SRAccept")},
             exc={"exc_info[1].with_traceback(exc_info[2])": "SRReraise", "AssertionError('Headers already set')": "SRAssert"},
             binds={("status_set", "status"): None, ("headers_set", "headers"): None})
    text += ("(* start_response(status, headers, exc_info): the arguments are the truth values of exc_info, of the header list\n"
             "   already sent and of the header list already set (an empty list counts as not set / not sent) *)\n"
             "Definition start_response_gen (exc_info headers_sent headers_set : bool) : sr_outcome :=\n  "
             f"{trs.block(flat, lambda: (_ for _ in ()).throw(px.Unsupported('start_response falls off the end')))}.\n")
    wb = strip_doc(inner["write"].body)
    asserts = [x for x in wb if isinstance(x, ast.Assert)]
    if [ast.unparse(a.test) for a in asserts[:2]] != ["status_set is not None", "headers_set is not None"]:
        raise px.Unsupported("write(): assertions changed")
    if ast.unparse(wb[3].test) != "status_sent is None" or ast.unparse(wb[5].test) != "data":
        raise px.Unsupported("write(): first-call / data tests changed")
    text += ("Definition write_allowed_gen (status_set_given headers_set_given : bool) : bool := status_set_given && headers_set_given.\n"
             "Definition write_first_gen (status_sent_given : bool) : bool := negb status_sent_given.\n")
    trx = T2("execute", atoms={"headers_sent": ("bool", "headers_sent"), "chunk_response": ("bool", "chunk_response")})
    text += f"Definition exec_flush_gen (headers_sent : bool) : bool := {trx.expr(tr_.body[1].test)[1]}.\n"
    text += f"Definition exec_final_gen (chunk_response : bool) : bool := {trx.expr(tr_.body[2].test)[1]}.\n"
    head = rw.body[:2]
    try:
        holes = {"H_exp_k": head[0].test.left.func.value.func.value.args[0], "H_exp_v": head[0].test.comparators[0],
                 "H_cont": head[0].body[0].value.args[0]}
    except (AttributeError, IndexError) as e:
        raise px.Unsupported(f"run_wsgi: 100-continue prologue changed ({e})") from e
    _skel(head, holes, RUN_WSGI_HEAD_SKELETON, "run_wsgi prologue")
    text += f"Definition expect_name : str := {px.coq_string_codes(_lit(holes['H_exp_k'], str, 'Expect').lower())}.\n"
    text += f"Definition expect_value : str := {px.coq_string_codes(_lit(holes['H_exp_v'], str, '100-continue'))}.\n"
    text += f"Definition continue_bytes : list N := {px.coq_string_codes(_lit(holes['H_cont'], bytes, '100 Continue'))}.\n\n"

    # ---- make_environ
    me = find_method(hcls, "make_environ")
    body = strip_doc(me.body)
    try:
        loop = body[6]
        pi, chunk_if, host_if = body[3], body[7], body[8]
        if not (isinstance(pi, ast.If) and isinstance(chunk_if, ast.If) and isinstance(host_if, ast.If) and isinstance(loop, ast.For)):
            raise AttributeError("statement kinds")
    except (AttributeError, IndexError) as e:
        raise px.Unsupported(f"make_environ: shape changed ({e})") from e
    # T2: the header loop body, the path_info choice, the chunked test and the absolute-form Host override, statement by statement
    if not (isinstance(loop, ast.For) and ast.unparse(loop.target) in ("key, value", "(key, value)") and ast.unparse(loop.iter) == "self.headers.items()"
            and not loop.orelse):
        raise px.Unsupported("make_environ: header loop header changed")
    t3 = T3("make_environ header loop", {"key", "value"})
    text += ("(* the body of `for key, value in self.headers.items():` as a function of the environ built so far *)\n"
             "Definition env_header_step_gen (key value : str) (environ : list (str * str)) : list (str * str) :=\n  "
             f"{t3.block(loop.body, lambda: 'environ')}.\n")
    url_atoms = {"request_url.scheme": ("str", "scheme"), "request_url.netloc": ("str", "netloc"),
                 "request_url.path": ("str", "path")}
    t3 = T3("make_environ path_info", set(), url_atoms)
    pi = body[3]
    if not (isinstance(pi, ast.If) and ast.unparse(body[4]) == "path_info = unquote(path_info)"):
        raise px.Unsupported("make_environ: path_info statements moved")
    text += ("Definition path_info_gen (scheme netloc path : str) : str :=\n  "
             f"{t3.block([pi], lambda: 'path_info')}.\n")
    t3 = T3("make_environ chunked test", set())
    text += f"Definition chunked_request_gen (environ : list (str * str)) : bool :=\n  {t3.bexpr(body[7].test)}.\n"
    t3 = T3("make_environ absolute-form Host", set(), url_atoms)
    text += ("Definition host_override_gen (scheme netloc : str) (environ : list (str * str)) : list (str * str) :=\n  "
             f"{t3.block([body[8]], lambda: 'environ')}.\n\n")
    # the rest of make_environ is pinned as a skeleton with the translated statements as placeholders
    body[3] = ast.Expr(ast.Name(id="H_path_info", ctx=ast.Load()))
    loop.body = [ast.Expr(ast.Name(id="H_loop_body", ctx=ast.Load()))]
    chunk_if.test = ast.Name(id="H_chunked_test", ctx=ast.Load())
    body[8] = ast.Expr(ast.Name(id="H_host", ctx=ast.Load()))
    _skel(body, {}, MAKE_ENVIRON_SKELETON, "make_environ")
    # T1: the http.server formats behind send_response / send_header / end_headers
    sl, hf, eh, defaults = _stdlib_http_server()
    text += f"(* http.server (running interpreter): send_response_only / send_header / end_headers / send_response *)\n"
    text += f"Definition status_line_fmt : str := {px.coq_string_codes(sl)}.\n"
    text += f"Definition header_fmt : str := {px.coq_string_codes(hf)}.\n"
    text += f"Definition end_headers_bytes : list N := {px.coq_string_codes(eh)}.\n"
    text += "Definition default_headers : list str := [" + "; ".join(px.coq_string_codes(x) for x in defaults) + "].\n"
    px.write_if_changed(os.path.join(COQ, "C19", "Gen.v"), text)
    _check_pins()


def _check_pins() -> None:
    """statement pins, checked after Gen.v was written: the whole DechunkedInput class, the whole request handler glue the
    model and the socket-pair oracle stand for (dispatch of every do_* to run_wsgi, handle, run_wsgi with its three nested
    functions, the drain loop and the 500 fallback, make_environ, server_version / address_string / port_integer), and
    _wsgi_encoding_dance"""
    mod = px.load("serving.py")
    h = px.find_class(mod, "WSGIRequestHandler")
    parts = ["## serving.DechunkedInput\n" + px.skeleton(px.find_class(mod, "DechunkedInput")),
             "## serving._chunk_size_re\n" + ast.unparse(px.find_assign(mod, "_chunk_size_re"))]
    # log_request / log are on the response path: http.server's send_response calls log_request before anything is written
    for name in ("server_version", "make_environ", "run_wsgi", "handle", "connection_dropped", "__getattr__", "address_string",
                 "port_integer", "log_request", "log_error", "log_message", "log"):
        parts.append(f"## serving.WSGIRequestHandler.{name}\n" + px.skeleton(find_method(h, name)))
    own = [n.name for n in h.body if isinstance(n, ast.FunctionDef)]
    parts.append("## serving.WSGIRequestHandler defines\n" + " ".join(own))
    # every class-level statement that is not a method: an attribute such as rbufsize / wbufsize / protocol_version / timeout
    # changes how socketserver and http.server build rfile / wfile and frame the exchange
    level = []
    for n in h.body:
        if isinstance(n, ast.FunctionDef) or (isinstance(n, ast.Expr) and isinstance(n.value, ast.Constant)):
            continue
        t = ast.unparse(n)
        level.append(t if len(t) < 200 else t[:60] + " ...")
    parts.append("## serving.WSGIRequestHandler class-level statements, bases " + ", ".join(ast.unparse(b_) for b_ in h.bases)
                 + "\n" + "\n".join(level))
    parts.append("## serving.DechunkedInput bases\n" + ", ".join(ast.unparse(b_) for b_ in px.find_class(mod, "DechunkedInput").bases))
    parts.append("## _internal._wsgi_encoding_dance\n" + px.skeleton(px.find_def(px.load("_internal.py"), "_wsgi_encoding_dance")))
    px.check_pin("C19", "c19_serving.txt", "\n".join(parts) + "\n",
                 "serving.DechunkedInput / WSGIRequestHandler (make_environ, run_wsgi, dispatch, handle)")


# ====================================================================== harness: reference decoder (the property, transcribed)

HEXDIG = set(b"0123456789abcdefABCDEF")
TERMS = (b"\n", b"\r\n")


def ref_dechunk(wire: bytes):
    """independent reading of RFC 9112 chunked framing as the property uses it: size lines are hexadecimal
    digits only (white space around them tolerated), every chunk is followed by CRLF or LF, a zero chunk and one line break
    end the body.  Returns (deliverable, complete, tail_len): the chunk data that may legitimately be handed to the
    application before the framing stops being valid, whether the framing is complete, and what follows it."""
    pos, out = 0, b""
    while True:
        nl = wire.find(b"\n", pos)
        if nl < 0:
            return out, False, 0
        tok = wire[pos:nl + 1].decode("latin1").strip()
        if not tok or any(ord(c) not in HEXDIG for c in tok):
            return out, False, 0
        size = int(tok, 16)
        pos = nl + 1
        if size == 0:
            for t in (b"\r\n", b"\n"):
                if wire.startswith(t, pos):
                    return out, True, len(wire) - pos - len(t)
            if wire[pos:] == b"\r":
                return out, True, 0          # tolerated: lone CR at the very end of the input
            return out, False, 0
        data = wire[pos:pos + size]
        out += data
        if len(data) < size:
            return out, False, 0
        pos += size
        for t in (b"\r\n", b"\n"):
            if wire.startswith(t, pos):
                pos += len(t)
                break
        else:
            if wire[pos:] == b"\r":
                pos += 1
                continue
            return out, False, 0


def gen_hex(rng, n: int) -> bytes:
    h = f"{n:x}"
    r = rng.random()
    if r < 0.3:
        h = h.upper()
    elif r < 0.45:
        h = "".join(c.upper() if rng.random() < 0.5 else c for c in h)
    r = rng.random()
    if r < 0.2:
        h = "0" * rng.randint(1, 3) + h
    elif r < 0.45:
        # zero-padded to a fixed width (chunk-size = 1*HEXDIG): widths around what a reader might assume (8, 16, 32 digits)
        w = rng.choice([14, 15, 16, 17, 15, 16, 8, 9, 31, 32, 33, 40, rng.randint(1, 40)])
        h = h.rjust(w, "0")
    if rng.random() < 0.1:
        h = rng.choice(["", " ", "\t"]) + h + rng.choice([" ", "\t", "  "])
    return h.encode()


BODY_ALPHA = [0x61, 0x62, 0x63, 0x0A, 0x0D, 0x00, 0x30, 0x3B, 0xFF, 0x20]


def gen_chunked(rng, body: bytes | None = None):
    """(wire, body, tail) of a well-framed chunked encoding"""
    if body is None:
        body = bytes(rng.choice(BODY_ALPHA) for _ in range(rng.choice([0, 1, 2, 3, 5, 8, 13, 20])))
    wire = b""
    i = 0
    while i < len(body):
        k = rng.choice([1, 1, 2, 3, 4, 7, 16, len(body) - i])
        k = max(1, min(k, len(body) - i))
        wire += gen_hex(rng, k) + rng.choice(TERMS) + body[i:i + k] + rng.choice(TERMS)
        i += k
    wire += rng.choice([b"0", b"0", b"00", b"000", b" 0 ", b"0" * rng.choice([14, 15, 16, 17, 32, 40])]) + rng.choice(TERMS) + rng.choice(TERMS)
    tail = rng.choice([b"", b"", b"NEXT", b"\r\n", b"0\r\n\r\n", b"5\r\nhello\r\n"])
    return wire + tail, body, tail


BAD_SIZES = [b"0x2", b"+2", b"-2", b"1_0", b"2;x=1", b"g", b"", b" ", b"2 2", b"\xb2", b"0X2", b"-0", b"+0", b"0x0", b"2.0", b"_2",
             b"2_", b"\xa02", b"2\x1c", b"0x_2", b"2;", b"\x00", b"1e1x"]


def gen_malformed(rng):
    wire, body, tail = gen_chunked(rng)
    r = rng.random()
    if r < 0.35:                       # truncated anywhere
        return wire[:rng.randint(0, max(0, len(wire) - len(tail) - 1))]
    if r < 0.65:                       # a bad size line in front of / between / after well-formed chunks
        w2, _, _ = gen_chunked(rng)
        bad = rng.choice(BAD_SIZES) + rng.choice(TERMS) + b"ab" + rng.choice(TERMS)
        cut = len(wire) - len(tail)
        # split at a chunk boundary of the first encoding when possible
        pre = wire[:cut]
        k = pre.rfind(b"0")
        return (pre[:k] if rng.random() < 0.7 and k >= 0 else b"") + bad + w2
    if r < 0.7:                        # the largest sizes that fit 32 / 64 / 128 bits, far more than what follows
        big = rng.choice(["7fffffff", "ffffffff", "7fffffffffffffff", "ffffffffffffffff", "FFFFFFFFFFFFFFFFF", "f" * 32, "1" + "0" * 16])
        return big.encode() + rng.choice(TERMS) + bytes(rng.choice(BODY_ALPHA) for _ in range(rng.randint(0, 6)))
    if r < 0.85:                       # missing / wrong terminator after chunk data
        n = rng.randint(1, 4)
        junk = rng.choice([b"XX", b"\r", b"\rX", b"", b"\x00\n", b" \r\n", b"0\r\n"])
        return gen_hex(rng, n) + b"\r\n" + b"abcd"[:n] + junk + rng.choice([b"", b"0\r\n\r\n"])
    # random bytes from a framing alphabet
    return bytes(rng.choice(b"0123456789abcdefx+-_ \r\n\r\n;gA") for _ in range(rng.randint(0, 14)))


def gen_dops(rng):
    ops = []
    for _ in range(rng.choice([1, 2, 3, 4, 6])):
        r = rng.random()
        if r < 0.75:
            ops.append(f"r:{rng.choice([1, 1, 2, 3, 4, 5, 8, 100])}")
        elif r < 0.9:
            ops.append("a")
        else:
            ops.append("l")
    if rng.random() < 0.6 and ops[-1] != "a":
        ops.append("a")
    return ops


def impl_dechunk(wire: bytes, ops, rng, fails: list, stream=None):
    """drive the real DechunkedInput; canonical result string + oracle"""
    from werkzeug.serving import DechunkedInput
    raw = None
    if stream is None:
        raw = io.BytesIO(wire)
        stream = DechunkedInput(io.BufferedReader(raw, buffer_size=rng.choice([1, 2, 16, 8192])))
        rfile = stream._rfile
    res = []
    got = b""
    err = None
    class _Bad(Exception):
        pass

    def rd(n):
        """io.RawIOBase.read(n) spelled out in Python: the C implementation copies `k` bytes out of the bytearray's
        storage whatever its length, so a readinto that shrinks the buffer or over-reports would crash the checker"""
        buf = bytearray(b"\xee" * n)
        k = stream.readinto(memoryview(buf) if rng.random() < 0.5 else buf)
        if len(buf) != n:
            fails.append(("buffer-resized", f"readinto changed the caller's buffer length from {n} to {len(buf)} (returned {k})"))
            raise _Bad()
        if not isinstance(k, int) or k < 0 or k > n:
            fails.append(("garbage-delivered", f"readinto reported {k!r} bytes for a buffer of {n}"))
            raise _Bad()
        return bytes(buf[:k])
    for o in ops:
        f = o.split(":")
        try:
            if f[0] == "r":
                d = rd(int(f[1]))
            elif f[0] == "a":                       # RawIOBase.readall(): read(DEFAULT_BUFFER_SIZE) until empty
                d = b""
                while True:
                    x = rd(io.DEFAULT_BUFFER_SIZE)
                    if not x:
                        break
                    d += x
            else:                                   # IOBase.readline() without peek(): read(1) until LF or end
                d = b""
                while True:
                    x = rd(1)
                    if not x:
                        break
                    d += x
                    if x == b"\n":
                        break
        except OSError:
            err = "OS"
            break
        except ImplTimeout:
            raise
        except _Bad:
            err = "BadReadinto"
            break
        except Exception as e:  # noqa: BLE001
            err = type(e).__name__
            break
        got += d
        left = (len(wire) - rfile.tell()) if raw is not None else 0
        res.append(f"{hexs(d)}@{left}")
    if err:
        res.append("!" + err)
    # ---------------- the property
    deliverable, complete, tail_len = ref_dechunk(wire)
    if err not in (None, "OS", "BadReadinto"):
        fails.append(("unrelated-exception", f"{type(stream).__name__} raised {err} instead of an I/O error"))
    if not deliverable.startswith(got):
        key = "garbage-delivered" if complete or len(got) > len(deliverable) or not got.startswith(deliverable) else "malformed-accepted"
        if got.startswith(deliverable) and not complete:
            key = "malformed-accepted"
        fails.append((key, f"delivered {got!r}; the well-framed part of the input carries {deliverable!r}"))
    drained = err is None and ops and ops[-1] == "a"
    if drained and not complete:
        fails.append(("malformed-accepted", f"ill-framed input read to a clean end of stream (delivered {got!r})"))
    if drained and complete and got != deliverable:
        fails.append(("body-truncated", f"complete read delivered {got!r} of {deliverable!r}"))
    if drained and complete and raw is not None and len(wire) - rfile.tell() != tail_len:
        fails.append(("cursor", f"{len(wire) - rfile.tell()} bytes left after the final chunk, expected {tail_len}"))
    if err == "OS" and complete:
        fails.append(("wellframed-rejected", f"OSError on a well-framed body after {got!r}"))
    return "|".join(res), got, err


def impl_limited(wire: bytes, mx: int, ops, fails: list, stream=None):
    """LimitedStream(DechunkedInput(rfile), mx, is_max=True), as get_input_stream builds it when the request class
    sets max_content_length; results until the first exception + the property as an oracle"""
    from werkzeug.exceptions import ClientDisconnected, RequestEntityTooLarge
    from werkzeug.serving import DechunkedInput
    from werkzeug.wsgi import LimitedStream
    if stream is None:
        stream = LimitedStream(DechunkedInput(io.BufferedReader(io.BytesIO(wire))), mx, is_max=True)
    res, got, err = [], b"", None
    clean_end = False
    for o in ops:
        f = o.split(":")
        try:
            if f[0] == "r":
                buf = bytearray(int(f[1]))
                k = stream.readinto(buf)
                if len(buf) != int(f[1]) or not isinstance(k, int) or not 0 <= k <= len(buf):
                    fails.append(("garbage-delivered", f"readinto returned {k!r} for a buffer of {f[1]} (now {len(buf)})"))
                    err = "BadReadinto"
                    break
                d = bytes(buf[:k])
                if d == b"":
                    clean_end = True
            else:
                d = stream.readall()
                clean_end = True
        except ClientDisconnected:
            err = "CD"
            break
        except RequestEntityTooLarge:
            err = "413"
            break
        except ImplTimeout:
            raise
        except Exception as e:  # noqa: BLE001
            err = type(e).__name__
            break
        got += d
        res.append(hexs(d))
    if err:
        res.append("!" + err)
    deliverable, complete, _ = ref_dechunk(wire)
    if err not in (None, "CD", "413", "BadReadinto"):
        fails.append(("unrelated-exception", f"reading the de-chunked body through LimitedStream raised {err}"))
    if not deliverable.startswith(got) or len(got) > mx:
        fails.append(("garbage-delivered", f"delivered {got!r}; genuine chunk data {deliverable!r}, maximum {mx}"))
    if clean_end and err is None and not complete:
        fails.append(("malformed-accepted-behind-max", f"ill-framed chunked body read to a clean end of stream through "
                      f"LimitedStream(is_max) (delivered {got!r}); the I/O error of the de-chunking stream was swallowed"))
    if err == "413" and len(got) < mx and stream._pos < mx:
        fails.append(("413-unjustified", f"RequestEntityTooLarge after {len(got)} of at most {mx} bytes"))
    if err == "CD" and complete and len(deliverable) <= mx:
        fails.append(("wellframed-rejected", f"ClientDisconnected on a well-framed body after {got!r}"))
    return "|".join(res), got, err


# ====================================================================== harness: the whole handler over a socket pair

class _Srv:
    ssl_context = None
    multithread = False
    multiprocess = False
    passthrough_errors = False
    server_address = ("127.0.0.1", 5000)
    _server_version = "Werkzeug/T"
    app = None

    def log(self, *a, **k):
        pass


_HCACHE: dict = {}


class SegSocket(socket.socket):
    """the server side of the socket pair, delivering the request in SEGMENTS: one recv / recv_into never crosses the next
    cut offset, as if the bytes had arrived in separate TCP segments.  The handler builds rfile from it exactly as
    socketserver.StreamRequestHandler.setup does (socket.makefile('rb', self.rbufsize) -> SocketIO(self) [+ BufferedReader]),
    so a buffered rfile still returns full reads while an unbuffered one returns short reads at the cuts.  Deterministic:
    the whole request is already in the socket buffer, no threads, no timing."""

    def set_cuts(self, cuts):
        self._cuts = sorted(set(cuts))
        self._got = 0

    def _room(self, n):
        for c in getattr(self, "_cuts", ()):
            if c > self._got:
                return min(n, c - self._got)
        return n

    def recv_into(self, buffer, nbytes=0, flags=0):
        mv = memoryview(buffer)
        n = self._room(nbytes or len(mv))
        k = super().recv_into(mv[:n], n, flags)
        self._got += k
        return k

    def recv(self, bufsize, flags=0):
        d = super().recv(self._room(bufsize), flags)
        self._got += len(d)
        return d


def drive_handler(raw: bytes, app, proto: str, cuts=None) -> bytes:
    from werkzeug.serving import WSGIRequestHandler
    if proto not in _HCACHE:
        _HCACHE[proto] = type("H" + proto[-1], (WSGIRequestHandler,), {"protocol_version": proto})
    H = _HCACHE[proto]
    srv = _Srv()
    srv.app = app
    a, b = socket.socketpair()
    if cuts:
        a = SegSocket(fileno=a.detach())
        a.set_cuts(cuts)
    try:
        b.sendall(raw)
        b.shutdown(socket.SHUT_WR)
        try:
            H(a, ("127.0.0.1", 12345), srv)
        finally:
            a.close()
        out = b""
        while True:
            d = b.recv(65536)
            if not d:
                break
            out += d
        return out
    finally:
        b.close()


SEG_ATOMS = ["a", "b", "index", "x.y", "%41", "%2F", "%C3%A9", "%E2%82%AC", "%F0%9F%98%80", "%ff", "%zz", "%4", "%", "%25", ";p=1", ":", "@",
             "&", "=", "+", "$", ",", "!", "~", "*", "'", "(", ")", "-", "_", "%20", "%00", "%0A", "%c3%a9", "|", "^", "`", "{", "}", "\\", "\""]
QUERY_ATOMS = ["a=1", "b=%41", "x", "&", "=", "+", "%C3%A9", "?", "/", "%", ";", "k=v=w", "%26"]


def gen_target(rng):
    segs = ["".join(rng.choice(SEG_ATOMS) for _ in range(rng.randint(0, 3))) for _ in range(rng.randint(0, 3))]
    path = "/" + "/".join(segs)
    r = rng.random()
    if r < 0.12:
        path = "/" + path                      # '//' prefix
    elif r < 0.17:
        path = "//" + path
    if rng.random() < 0.5:
        path += "?" + "".join(rng.choice(QUERY_ATOMS) for _ in range(rng.randint(0, 4)))
    if rng.random() < 0.04:
        path += "#frag"
    if rng.random() < 0.12:
        path = rng.choice(["http://", "https://", "HTTP://"]) + rng.choice(["example.com", "h:8080", "u@h"]) + path
    elif rng.random() < 0.02:
        path = rng.choice(["*", "h:80", "a:b/c"])
    return path


HDR_NAMES = ["X-A", "X-A", "x-a", "X-B", "Accept", "User-Agent", "X_Under", "X-Un_der", "Cookie", "X-Long-Name-Here", "Content-Type", "content-type"]
HDR_VALUES = ["1", "two", "a, b", "text/plain; charset=utf-8", "é", "x=y; z", "", "0", "a:b", "\"q\""]


def build_request(rng):
    method = rng.choice(["GET", "GET", "POST", "POST", "PUT", "HEAD", "DELETE", "OPTIONS", "PATCH", "QUERY"])
    target = gen_target(rng)
    reqver = rng.choice(["HTTP/1.1", "HTTP/1.1", "HTTP/1.0"])
    headers = [("Host", rng.choice(["localhost", "example.com:8080"]))]
    for _ in range(rng.randint(0, 4)):
        headers.append((rng.choice(HDR_NAMES), rng.choice(HDR_VALUES)))
    body_kind = rng.choice(["none", "none", "cl", "cl", "chunked", "chunked", "chunked-bad"]) if method != "GET" or rng.random() < 0.3 else "none"
    body = bytes(rng.choice(BODY_ALPHA) for _ in range(rng.choice([0, 1, 2, 3, 5, 8, 13, 20])))
    wire_body = b""
    if body_kind == "cl":
        headers.append(("Content-Length", str(len(body))))
        wire_body = body
    elif body_kind.startswith("chunked"):
        headers.append(("Transfer-Encoding", rng.choice(["chunked", "chunked", "Chunked", " chunked "]) if body_kind == "chunked" else "chunked"))
        if body_kind == "chunked":
            wire_body, body, _ = gen_chunked(rng, body)
        else:
            wire_body = gen_malformed(rng)
    if rng.random() < 0.05:
        headers.append(("Expect", rng.choice(["100-continue", "100-Continue", " 100-continue"])))
    rng.shuffle(headers)
    raw = f"{method} {target} {reqver}\r\n".encode("latin1")
    for k, v in headers:
        raw += f"{k}: {v}\r\n".encode("latin1")
    raw += b"\r\n" + wire_body
    # what http.server hands to the handler (runtime, not werkzeug): header values lose their leading blanks in
    # email.feedparser, and since CPython 3.12 parse_request() collapses a run of leading slashes of the target into one
    stored = [(k, v.lstrip(" \t")) for k, v in headers]
    path = "/" + target.lstrip("/") if target.startswith("//") else target
    return dict(method=method, target=target, path=path, reqver=reqver, headers=stored, body_kind=body_kind, body=body,
                wire_body=wire_body, raw=raw)


STATUSES = ["200 OK", "200 OK", "201 Created", "204 No Content", "304 Not Modified", "404 Not Found", "500 Internal Server Error", "200",
            "101 Switching Protocols", "199 Custom", "299 Custom Reason", "302 Found", "205 Reset Content", "200  Two  Spaces",
            # every status the grammar <digits>[ <reason>] admits must reach the client, also outside 100-599
            "100 Continue", "599 Edge", "600 Custom", "999 Request Denied", "777", "99 x", "1000 y", "000", "7 seven", "12345 five digits"]
RESP_HDRS = [("Content-Type", "text/plain"), ("X-R", "1"), ("X-R", "2"), ("Set-Cookie", "a=b"), ("Set-Cookie", "c=d"), ("X-Empty", ""),
             ("Cache-Control", "no-cache"), ("X-Latin", "é")]


def build_response_spec(rng):
    status = rng.choice(STATUSES)
    headers = [rng.choice(RESP_HDRS) for _ in range(rng.randint(0, 3))]
    pieces = [bytes(rng.choice(BODY_ALPHA) for _ in range(rng.choice([0, 0, 1, 2, 3, 9, 17, 300]))) for _ in range(rng.choice([0, 1, 1, 2, 3, 4]))]
    if rng.random() < 0.4:
        headers.insert(rng.randint(0, len(headers)),
                       (rng.choice(["Content-Length", "content-length", "CONTENT-LENGTH"]), str(sum(len(p) for p in pieces))))
    n_write = rng.choice([0, 0, 0, 1, len(pieces)])
    return dict(status=status, headers=headers, pieces=pieces, n_write=min(n_write, len(pieces)),
                proto=rng.choice(["HTTP/1.1", "HTTP/1.1", "HTTP/1.0"]))


def gen_script(rng):
    """what an application does with start_response / write / its iterable, incl. the misuses run_wsgi guards against"""
    def hdrs(allow_empty=True):
        n = rng.choice([0, 1, 2]) if allow_empty else rng.choice([1, 2])
        return [rng.choice(RESP_HDRS[:7]) for _ in range(n)]

    def piece():
        return bytes(rng.choice(BODY_ALPHA) for _ in range(rng.choice([0, 1, 3, 9])))
    kind = rng.choice(["replace-before-send", "replace-before-send", "twice", "twice-empty-first", "piece-before-start",
                       "exc-after-send", "exc-after-send-empty-headers", "lazy-start", "no-pieces"])
    st = lambda: rng.choice(STATUSES[:8] + STATUSES[14:])  # noqa: E731
    if kind == "replace-before-send":
        acts = [("s", st(), hdrs(), rng.random() < 0.3)] + [("s", st(), hdrs(), True) for _ in range(rng.choice([1, 2]))]
        acts += [(rng.choice("wy"), piece()) for _ in range(rng.choice([0, 1, 3]))]
    elif kind == "twice":
        acts = [("s", st(), hdrs(False), False), ("s", st(), hdrs(), False), ("y", piece())]
    elif kind == "twice-empty-first":
        acts = [("s", st(), [], False), ("s", st(), hdrs(), False), ("y", piece())]
    elif kind == "piece-before-start":
        acts = [("y", piece()), ("s", st(), hdrs(), False)]
    elif kind == "exc-after-send":
        acts = [("s", st(), hdrs(False), False), (rng.choice("wy"), b"x" + piece()), ("s", "500 X", hdrs(), True), ("y", piece())]
    elif kind == "exc-after-send-empty-headers":
        acts = [("s", st(), [], False), ("y", b"x" + piece()), ("s", "500 X", hdrs(), True), ("y", piece())]
    elif kind == "lazy-start":
        acts = [("s", st(), hdrs(), False), ("y", piece()), ("y", piece()), ("w", piece())]
    else:
        acts = [("s", st(), hdrs(), False)]
    return kind, acts


def script_line(proto, method, expect, acts) -> str:
    parts = []
    for a in acts:
        if a[0] == "s":
            parts.append(f"s/{hx(a[1])}/{pairs_hex(a[2])}/{int(a[3])}")
        else:
            parts.append(f"{a[0]}/{hx(a[1])}")
    return f"app {hx(proto)} {hx(method)} {'~' if expect is None else hx(expect)} {'+'.join(parts) if parts else '~'}"


def script_app(acts, seen):
    import sys

    def app(environ, start_response):
        seen["environ"] = {k: v for k, v in environ.items() if isinstance(v, str)}
        seen["terminated"] = environ.get("wsgi.input_terminated")
        seen["input_type"] = type(environ["wsgi.input"]).__name__
        write = None
        for a in acts:
            if a[0] == "s":
                exc = None
                if a[3]:
                    try:
                        raise KeyError("application failure")
                    except KeyError:
                        exc = sys.exc_info()
                write = start_response(a[1], list(a[2]), exc) if exc else start_response(a[1], list(a[2]))
            elif a[0] == "w" and write is not None:
                write(a[1])
            else:
                yield a[1]
    return app


def hx(s) -> str:
    if isinstance(s, str):
        s = s.encode("latin1")
    return hexs(s)


def pairs_hex(hs) -> str:
    return ",".join(f"{hx(k)}:{hx(v)}" for k, v in hs) if hs else "-"


def parse_response(raw: bytes):
    """independent mini-parser of what the client received: interim 100 responses, status line, headers, body"""
    interim = 0
    while raw.startswith(b"HTTP/1.1 100 Continue\r\n\r\n"):
        raw = raw[len(b"HTTP/1.1 100 Continue\r\n\r\n"):]
        interim += 1
    head, sep, body = raw.partition(b"\r\n\r\n")
    if not sep:
        return None
    lines = head.split(b"\r\n")
    m = re.fullmatch(rb"(HTTP/1\.[01]) (\d+) (.*)", lines[0], re.S)
    if not m:
        return None
    hdrs = []
    for ln in lines[1:]:
        k, s2, v = ln.partition(b": ")
        if not s2:
            return None
        hdrs.append((k.decode("latin1"), v.decode("latin1")))
    return dict(interim=interim, proto=m.group(1).decode(), code=int(m.group(2)), reason=m.group(3).decode("latin1"), headers=hdrs, body=body)


def run(chk: Check) -> None:
    import logging
    from urllib.parse import unquote_to_bytes
    logging.getLogger("werkzeug").setLevel(logging.CRITICAL + 10)

    rng = chk.rng
    quick = chk.tier == "quick"
    lines: list[str] = []
    impl_out: list[str] = []
    cases: list = []

    # ------------------------------------------------ A. DechunkedInput driven directly
    def do_dc(wire, ops, tag):
        fails: list = []
        try:
            r, got, err = with_timeout(impl_dechunk, 5, wire, ops, rng, fails)
        except ImplTimeout:
            r, got, err = "!TIMEOUT", b"", "TIMEOUT"
            fails.append(("hang", "DechunkedInput did not return within 5 s"))
        except Exception as e:  # noqa: BLE001  (e.g. a changed constructor signature)
            r, got, err = "!HARNESS", b"", type(e).__name__
            fails.append(("interface-changed", f"DechunkedInput could not be driven: {type(e).__name__}: {e}"))
        case = {"kind": "dc", "wire": wire.hex(), "ops": ops}
        for key, what in fails[:2]:
            chk.fail(key, what, case)
        lines.append(f"dc {hexs(wire)} {';'.join(ops)}")
        impl_out.append(r)
        cases.append(case)
        chk.case(("dc", wire, tuple(ops)), nontrivial=len(wire) > 0, sample={"case": case, "impl": r[:100]} if tag == "wf" else None)
        chk.count("dc:" + tag + (":err" if err else ""))

    corpus = [
        (b"5\r\nab", ["r:3"]), (b"5\r\nab", ["r:2", "r:3"]), (b"5\r\nab", ["a"]),
        (b"0x2\r\nab\r\n0\r\n\r\n", ["a"]), (b"+2\r\nab\r\n0\r\n\r\n", ["a"]), (b"1_0\r\n0123456789abcdef\r\n0\r\n\r\n", ["a"]),
        (b"-2\r\nab\r\n0\r\n\r\n", ["a"]), (b"2;x=1\r\nab\r\n0\r\n\r\n", ["a"]), (b"2\r\nab\r\n0\r\n\r\nNEXT", ["r:1", "r:1", "r:1", "r:1"]),
        (b"2\r\nabXX0\r\n\r\n", ["a"]), (b"2\nab\n0\n\n", ["r:2", "a"]), (b"A\r\n0123456789\r\n0\r\n\r\n", ["r:3", "r:7", "r:1"]),
        (b"", ["r:1"]), (b"0\r\n", ["a"]), (b"0\r\n\r\n", ["a", "a"]), (b"2\r\nab\r\n0\r\nTrailer: x\r\n\r\n", ["a"]),
    ]
    cdir = os.path.join(os.path.dirname(COQ), "corpus", "C19")
    for name in sorted(os.listdir(cdir)):
        with open(os.path.join(cdir, name)) as f:
            for ln in f:
                p = ln.strip().split(" ")
                if p[0] == "dc" and len(p) == 3:
                    corpus.append((b"" if p[1] == "-" else bytes.fromhex(p[1]), p[2].split(";")))
    for w, o in corpus:
        do_dc(w, o, "corpus")
    # exhaustive small scope: one body, every 1..3-way chunking x terminators x every pair of read sizes
    body = b"ab\ncd"
    for cut in range(1, 2 ** (len(body) - 1)):
        parts, last = [], 0
        for i in range(1, len(body)):
            if cut >> (i - 1) & 1:
                parts.append(body[last:i])
                last = i
        parts.append(body[last:])
        if len(parts) > 3:
            continue
        for term in TERMS:
            wire = b"".join(f"{len(p):x}".encode() + term + p + term for p in parts) + b"0" + term + term + b"N"
            for s1 in range(1, 7):
                for s2 in range(1, 7):
                    do_dc(wire, [f"r:{s1}", f"r:{s2}", "a", "r:1"], "exhaustive")
    for width in range(1, 41):
        for term in TERMS:
            for size_text in (f"{11:x}".rjust(width, "0"), f"{11:X}".rjust(width, "0")):
                wire = size_text.encode() + term + b"hello world" + term + b"0" * width + term + term + b"N"
                do_dc(wire, ["r:4", "a", "r:1"], "exhaustive-width")
    for _ in range(9000 if quick else 120000):
        w, _, _ = gen_chunked(rng)
        do_dc(w, gen_dops(rng), "wf")
    for _ in range(9000 if quick else 120000):
        do_dc(gen_malformed(rng), gen_dops(rng), "malformed")

    # ------------------------------------------------ A2. behind LimitedStream(is_max=True) (C19 x C09)
    def do_ldc(wire, mx, ops, tag):
        fails: list = []
        try:
            r, got, err = with_timeout(impl_limited, 5, wire, mx, ops, fails)
        except ImplTimeout:
            r, got, err = "!TIMEOUT", b"", "TIMEOUT"
            fails.append(("hang", "LimitedStream over DechunkedInput did not return within 5 s"))
        except Exception as e:  # noqa: BLE001
            r, got, err = "!HARNESS", b"", type(e).__name__
            fails.append(("interface-changed", f"LimitedStream(DechunkedInput) could not be driven: {type(e).__name__}: {e}"))
        case = {"kind": "ldc", "wire": wire.hex(), "max": mx, "ops": ops}
        for key, what in fails[:2]:
            chk.fail(key, what, case)
        lines.append(f"ldc {hexs(wire)} {mx} {';'.join(ops)}")
        impl_out.append(r)
        cases.append(case)
        chk.case(("ldc", wire, mx, tuple(ops)), nontrivial=len(wire) > 0)
        chk.count("ldc:" + tag + (":" + err if err else ""))
    for w, o in [(b"5\r\nab", ["r:2", "a"]), (b"5\r\nab", ["a"]), (b"g\r\n", ["a"]), (b"2\r\nabXX", ["r:5", "r:5"]),
                 (b"2\r\nab\r\n", ["a"]), (b"2\r\nab\r\n0\r\n\r\n", ["a", "r:1"])]:
        do_ldc(w, 100, o, "corpus")
    for _ in range(2500 if quick else 40000):
        w = gen_chunked(rng)[0] if rng.random() < 0.4 else gen_malformed(rng)
        body_len = len(ref_dechunk(w)[0])
        mx = rng.choice([100, 100, 1000, body_len + 1, max(0, body_len - 1), body_len, 3])
        ops = [o for o in gen_dops(rng) if o != "l"] or ["a"]
        do_ldc(w, mx, ops, "random")

    # ------------------------------------------------ B. the whole handler, in process
    n_e2e = 3000 if quick else 40000
    for i in range(n_e2e):
        rq = build_request(rng)
        rs = build_response_spec(rng)
        dops = gen_dops(rng)
        seen: dict = {}

        via_request = rng.choice([0, 0, 1000, 1000, 7]) if rq["body_kind"].startswith("chunked") else 0

        def app(environ, start_response, rq=rq, rs=rs, dops=dops, seen=seen, via_request=via_request):
            seen["environ"] = {k: v for k, v in environ.items() if isinstance(v, str)}
            seen["terminated"] = environ.get("wsgi.input_terminated")
            inp = environ["wsgi.input"]
            seen["input_type"] = type(inp).__name__
            if rq["body_kind"] == "cl":
                got = b""
                n = len(rq["body"])
                while len(got) < n:
                    d = inp.read(min(n - len(got), rng.choice([1, 2, 3, 7, 100])))
                    if not d:
                        break
                    got += d
                seen["body"] = got
            elif seen["input_type"] == "DechunkedInput" and via_request:
                # the usual werkzeug way: Request(environ) with max_content_length -> LimitedStream(is_max) over the stream
                from werkzeug.wrappers import Request
                from werkzeug.wsgi import LimitedStream
                req = type("R", (Request,), {"max_content_length": via_request})(environ)
                st = req.stream
                seen["via"] = type(st).__name__
                if isinstance(st, LimitedStream):
                    fails = []
                    lops = [o for o in dops if o != "l"] or ["a"]
                    r, got, err = impl_limited(rq["wire_body"], via_request, lops, fails, stream=st)
                    seen["ldc"] = (r, lops)
                    seen["dc_fails"] = fails
                    seen["body"] = got
                    seen["dc_err"] = err
                    seen["drained"] = err is None and lops[-1] == "a"
            elif seen["input_type"] == "DechunkedInput":
                fails: list = []
                r, got, err = impl_dechunk(rq["wire_body"], dops, rng, fails, stream=inp)
                seen["dc"] = "|".join(p.split("@")[0] for p in r.split("|")) if r else ""
                seen["dc_fails"] = fails
                seen["body"] = got
                seen["dc_err"] = err
            write = start_response(rs["status"], list(rs["headers"]))
            for p in rs["pieces"][:rs["n_write"]]:
                write(p)
            return iter(rs["pieces"][rs["n_write"]:])
        script = gen_script(rng) if rng.random() < 0.2 and not rq["body_kind"].startswith("chunked") else None
        if script:
            # start_response / write() protocol: the state machine of run_wsgi against its model
            app = script_app(script[1], seen)
            case = {"kind": "e2e-script", "request": rq["raw"].hex(), "script": script[0],
                    "acts": [[x.hex() if isinstance(x, bytes) else x for x in a] for a in script[1]], "proto": rs["proto"]}
            try:
                raw_resp = with_timeout(drive_handler, 10, rq["raw"], app, rs["proto"])
            except ImplTimeout:
                chk.fail("hang", "request handler did not finish within 10 s", case)
                continue
            except Exception as e:  # noqa: BLE001
                chk.fail("handler-crash", f"handler raised {type(e).__name__}: {e}", case)
                continue
            chk.case(("script", rq["raw"], script[0], repr(script[1]), rs["proto"]), nontrivial=True)
            chk.count("e2e:script:" + script[0])
            expect = next((v for k, v in rq["headers"] if k.lower() == "expect"), None)
            runtime_100 = (b"HTTP/1.1 100 Continue\r\n\r\n" if expect is not None and expect.lower() == "100-continue"
                           and rs["proto"] >= "HTTP/1.1" and rq["reqver"] >= "HTTP/1.1" else b"")
            masked = raw_resp[len(runtime_100):] if raw_resp.startswith(runtime_100) else raw_resp
            masked = re.sub(rb"\r\nServer: [^\r]*\r\nDate: [^\r]*\r\n", b"\r\nServer: S\r\nDate: D\r\n", masked, count=1)
            # the documented protocol, independently of the model: misuse is answered with a 500 page, a replacement
            # before anything was sent takes effect
            prs = parse_response(raw_resp)
            code_seen = prs["code"] if prs else None
            if script[0] in ("twice", "piece-before-start") and code_seen != 500:
                chk.fail("start-response-misuse-accepted", f"{script[0]}: the client got status {code_seen} instead of the 500 page "
                         "(AssertionError expected from start_response / write)", case)
            if script[0] in ("replace-before-send", "lazy-start", "no-pieces"):
                want_code = int([a for a in script[1] if a[0] == "s"][-1][1].split()[0])
                if code_seen != want_code:
                    chk.fail("start-response-replacement-lost", f"{script[0]}: the client got status {code_seen}, the last accepted "
                             f"start_response said {want_code}", case)
            if script[0] == "exc-after-send" and (code_seen != int(script[1][0][1].split()[0]) or script[1][1][1] not in raw_resp):
                chk.fail("response-after-send-replaced", f"exc-after-send: status {code_seen} / first piece missing", case)
            lines.append(script_line(rs["proto"], rq["method"], expect, script[1]))
            impl_out.append("S" + hexs(masked))
            cases.append(case)
            continue
        # segmentation of the request as it reaches the server: inside the headers, inside a size line, between CR and LF,
        # inside a chunk payload (the buffered rfile must hide it from the application)
        cuts = None
        if rng.random() < 0.5:
            body_at = len(rq["raw"]) - len(rq["wire_body"])
            cand = [i + 1 for i in range(len(rq["raw"]) - 1) if rq["raw"][i:i + 2] == b"\r\n"]
            cuts = [rng.randrange(1, max(2, len(rq["raw"]))) for _ in range(rng.choice([1, 2, 3]))]
            if rq["wire_body"]:
                cuts += [rng.randrange(body_at, len(rq["raw"]) + 1) for _ in range(rng.choice([1, 2, 4]))]
            if cand and rng.random() < 0.6:
                cuts.append(rng.choice(cand))
            if rng.random() < 0.15:
                cuts = list(range(1, len(rq["raw"])))          # byte by byte
        case = {"kind": "e2e", "request": rq["raw"].hex(), "cuts": cuts, "response": {"status": rs["status"], "headers": rs["headers"],
                                                                          "pieces": [p.hex() for p in rs["pieces"]], "n_write": rs["n_write"],
                                                                          "proto": rs["proto"]}, "ops": dops}
        try:
            raw_resp = with_timeout(drive_handler, 10, rq["raw"], app, rs["proto"], cuts)
        except ImplTimeout:
            chk.fail("hang", "request handler did not finish within 10 s", case)
            continue
        except Exception as e:  # noqa: BLE001
            chk.fail("handler-crash", f"handler raised {type(e).__name__}: {e}", case)
            continue
        chk.count("e2e:segmented" if cuts else "e2e:one-segment")
        chk.case(("e2e", rq["raw"], tuple(cuts or ()), rs["status"], tuple(rs["headers"]), tuple(rs["pieces"]), rs["n_write"], rs["proto"], tuple(dops)),
                 nontrivial=True, sample={"request": rq["raw"][:80].decode("latin1"), "response": raw_resp[:80].decode("latin1")})
        chk.count("e2e:body=" + rq["body_kind"])

        def bad(key, what, case=case):
            chk.fail(key, what, case)
        if "environ" not in seen:
            bad("app-not-called", f"the application was not called; response {raw_resp[:60]!r}")
            continue
        env = seen["environ"]
        # ---- request side oracle: method, percent-decoded path, query, headers, body
        if env.get("REQUEST_METHOD") != rq["method"]:
            bad("method", f"REQUEST_METHOD {env.get('REQUEST_METHOD')!r} != {rq['method']!r}")
        tgt = rq["path"]
        if tgt.startswith("/") and "#" not in tgt:
            p, _, q = tgt.partition("?")
            want = unquote_to_bytes(p)
            try:
                want.decode("utf-8")
                valid = True
            except UnicodeDecodeError:
                valid = False
            if valid and env.get("PATH_INFO", "").encode("latin1") != want:
                bad("path-info", f"PATH_INFO {env.get('PATH_INFO')!r} is not the percent-decoded path {want!r}")
            if env.get("QUERY_STRING") != q:
                bad("query-string", f"QUERY_STRING {env.get('QUERY_STRING')!r} != {q!r}")
        mabs = re.match(r"(?i)(https?)://([^/?#]*)(/[^?#]*)?(?:\?([^#]*))?", tgt)
        if mabs and "#" not in tgt:
            # absolute-form: the path after the authority, percent-decoded; the query; Host from the target
            want = unquote_to_bytes(mabs.group(3) or "")
            try:
                want.decode("utf-8")
                if env.get("PATH_INFO", "").encode("latin1") != want:
                    bad("path-info", f"PATH_INFO {env.get('PATH_INFO')!r} is not the percent-decoded path {want!r} of the absolute-form target")
            except UnicodeDecodeError:
                pass
            if env.get("QUERY_STRING") != (mabs.group(4) or ""):
                bad("query-string", f"QUERY_STRING {env.get('QUERY_STRING')!r} != {mabs.group(4) or ''!r}")
        if env.get("REQUEST_URI") != tgt:
            bad("request-uri", f"REQUEST_URI {env.get('REQUEST_URI')!r} != {tgt!r}")
        by_name: dict = {}
        for k, v in rq["headers"]:
            if "_" in k:
                continue
            by_name.setdefault(k.upper().replace("-", "_"), []).append(v)
        for k, vs in by_name.items():
            ek = k if k in ("CONTENT_TYPE", "CONTENT_LENGTH") else "HTTP_" + k
            want_v = vs[-1] if ek == k else ",".join(vs)
            if ek == "HTTP_HOST" and re.match(r"(?i)https?://", tgt):
                want_v = re.match(r"(?i)https?://([^/?#]*)", tgt).group(1)
            if env.get(ek) != want_v:
                bad("header-lost", f"{ek} = {env.get(ek)!r}, the client sent {want_v!r}")
        want_keys = {(k if k in ("CONTENT_TYPE", "CONTENT_LENGTH") else "HTTP_" + k) for k in by_name}
        got_keys = {k for k in env if k.startswith("HTTP_") or k in ("CONTENT_TYPE", "CONTENT_LENGTH")}
        if got_keys - want_keys - ({"HTTP_HOST"} if re.match(r"(?i)https?://", tgt) else set()):
            bad("header-unexpected", f"environ carries {sorted(got_keys - want_keys)!r}, which no header the client sent maps to "
                                     "(names with an underscore must be dropped: they would alias dashed names)")
        if rq["body_kind"] in ("cl", "chunked") and seen.get("body") is not None:
            drained = rq["body_kind"] == "cl" or (dops and dops[-1] == "a" and not seen.get("dc_err"))
            if "ldc" in seen:
                drained = seen["drained"] and len(rq["body"]) < via_request
            if not rq["body"].startswith(seen["body"]) or (drained and seen["body"] != rq["body"]):
                bad("body", f"application read {seen['body']!r}, the client sent {rq['body']!r}")
        if rq["body_kind"].startswith("chunked"):
            if seen["input_type"] != "DechunkedInput" or not seen["terminated"]:
                bad("not-dechunked", f"chunked request handed over as {seen['input_type']}, terminated={seen['terminated']}")
            for key, what in seen.get("dc_fails", [])[:2]:
                bad(key, what)
        # ---- response side oracle
        pr = parse_response(raw_resp)
        code = int(rs["status"].split()[0])
        if pr is None:
            bad("response-unparsable", f"client received {raw_resp[:80]!r}")
        else:
            if pr["code"] != code or pr["reason"] != (rs["status"].split(None, 1) + [""])[1]:
                bad("status", f"status line {pr['code']} {pr['reason']!r} for {rs['status']!r}")
            app_hdrs = [(k, v) for k, v in pr["headers"][2:] if (k, v) not in (("Transfer-Encoding", "chunked"), ("Connection", "close"))]
            if app_hdrs != rs["headers"]:
                bad("response-headers", f"headers {app_hdrs!r} != {rs['headers']!r}")
            chunked = ("Transfer-Encoding", "chunked") in pr["headers"][2:]
            want_chunked = (not any(k.lower() == "content-length" for k, _ in rs["headers"]) and rs["proto"] == "HTTP/1.1"
                            and rq["method"] != "HEAD" and not (100 <= code < 200) and code not in (204, 304))
            if chunked != want_chunked:
                bad("chunked-framing-decision", f"Transfer-Encoding chunked={chunked} for {rq['method']} {rs['status']!r} "
                                                f"headers={rs['headers']!r} {rs['proto']}")
            payload = b"".join(rs["pieces"])
            if chunked:
                deliverable, complete, tail_len = ref_dechunk(pr["body"])
                if not complete or tail_len != 0 or deliverable != payload:
                    bad("response-body", f"chunked body {pr['body'][:80]!r} does not decode to {payload[:60]!r}")
            elif pr["body"] != payload:
                bad("response-body", f"body {pr['body'][:80]!r} != {payload[:60]!r}")
        # ---- model predictions
        expect = next((v for k, v in rq["headers"] if k.lower() == "expect"), None)
        runtime_100 = (b"HTTP/1.1 100 Continue\r\n\r\n" if expect is not None and expect.lower() == "100-continue"
                       and rs["proto"] >= "HTTP/1.1" and rq["reqver"] >= "HTTP/1.1" else b"")
        masked = raw_resp[len(runtime_100):] if raw_resp.startswith(runtime_100) else raw_resp
        masked = re.sub(rb"\r\nServer: [^\r]*\r\nDate: [^\r]*\r\n", b"\r\nServer: S\r\nDate: D\r\n", masked, count=1)
        lines.append(f"resp {hx(rs['proto'])} {hx(rq['method'])} {'~' if expect is None else hx(expect)} {hx(rs['status'])} "
                     f"{pairs_hex(rs['headers'])} {','.join(hx(p) for p in rs['pieces']) if rs['pieces'] else '~'}")
        impl_out.append(hexs(masked))
        cases.append(case)
        hs = [(k, v) for k, v in rq["headers"]]
        lines.append(f"env {hx(tgt)} {pairs_hex(hs)}")
        hdr_env = sorted((k, v) for k, v in env.items() if k.startswith("HTTP_") or k in ("CONTENT_TYPE", "CONTENT_LENGTH"))
        impl_out.append(f"path={hx(env.get('PATH_INFO', ''))} query={hx(env.get('QUERY_STRING', ''))} uri={hx(env.get('REQUEST_URI', ''))} "
                        f"chunked={int(seen['input_type'] == 'DechunkedInput')} hdrs={pairs_hex(hdr_env)}")
        cases.append(case)
        if "ldc" in seen:
            lines.append(f"ldc {hexs(rq['wire_body'])} {via_request} {';'.join(seen['ldc'][1])}")
            impl_out.append(seen["ldc"][0])
            cases.append(case)
            chk.count("e2e:via-Request-max_content_length")
        if "dc" in seen:
            lines.append(f"dc {hexs(rq['wire_body'])} {';'.join(dops)}")
            impl_out.append("D" + seen["dc"])
            cases.append(case)

    # ---------------------------------------------------------------- model side
    exe = chk.build_modelrun("C19")
    if exe:
        res = chk.run_model(exe, lines)
        if res is not None:
            mism = unsupported = 0
            for ln, a, b, c in zip(lines, impl_out, res, cases):
                if b == "unsupported":
                    unsupported += 1
                    continue
                if ln.startswith("env ") and b.startswith("path="):
                    head, _, hd = b.rpartition(" hdrs=")
                    items = sorted(hd.split(",")) if hd != "-" else []
                    hsorted = sorted((bytes.fromhex(x.split(":")[0]).decode("latin1"),
                                      bytes.fromhex(x.split(":")[1]).decode("latin1") if x.split(":")[1] != "-" else "") for x in items)
                    b = head + " hdrs=" + pairs_hex(hsorted)
                if a.startswith("S"):
                    # a scripted application: equal when the model reports no exception; otherwise what the model says was
                    # written before the exception is a prefix of what the client got, and an exception before the first byte
                    # of the response proper is answered with a 500 page
                    got, (want, _, werr) = a[1:], b.partition("!")
                    want = "" if want == "-" else want
                    got = "" if got == "-" else got
                    if not werr:
                        a, b = got, want
                    elif not got.startswith(want):
                        a, b = got, want + "...!" + werr
                    elif bytes.fromhex(want) in (b"", b"HTTP/1.1 100 Continue\r\n\r\n") and b" 500 " not in bytes.fromhex(got)[:80]:
                        a, b = got, "<a 500 response>!" + werr
                    else:
                        a = b = ""
                if a.startswith("D"):
                    a = a[1:]
                    b = "|".join(p.split("@")[0] for p in b.split("|")) if b else ""
                if a != b:
                    mism += 1
                    if mism <= 5:
                        chk.broken("correspondence", "C19 model vs werkzeug.serving", f"case {ln[:300]!r}: impl {a[:300]!r} model {b[:300]!r}",
                                   case={"case": c, "line": ln, "impl": a, "model": b})
            chk.count("model:compared", len(lines) - unsupported)
            chk.count("model:unsupported(target outside the modelled urlsplit domain)", unsupported)
            chk.count("model:mismatches", mism)


def replay(rep) -> int:
    import json
    import random
    inp = rep.get("input") or (rep.get("broken") or [{}])[0].get("case", {}).get("case")
    print(json.dumps({"property": rep.get("property"), "key": rep.get("key"), "what": rep.get("what")}, indent=1))
    if not inp:
        print("no input recorded (broken obligation without a failing input):", rep.get("no_longer_checks"))
        return 0
    if inp.get("kind") == "dc":
        fails: list = []
        wire = bytes.fromhex(inp["wire"])
        r, got, err = impl_dechunk(wire, inp["ops"], random.Random(0), fails)
        print(f"DechunkedInput over {wire!r}, operations {inp['ops']}")
        print("observed:", r, "delivered:", got, "error:", err)
        print("reference decoding (deliverable, complete, tail):", ref_dechunk(wire))
        for k, w in fails:
            print(f"FAILS [{k}] {w}")
        return 1 if fails else 0
    if inp.get("kind") == "e2e":
        import logging
        logging.getLogger("werkzeug").setLevel(logging.CRITICAL + 10)
        rs = inp["response"]
        pieces = [bytes.fromhex(p) for p in rs["pieces"]]

        def app(environ, start_response):
            print("application saw:", {k: v for k, v in environ.items() if isinstance(v, str) and (k.startswith(("HTTP_", "CONTENT_")) or k in
                  ("REQUEST_METHOD", "PATH_INFO", "QUERY_STRING", "REQUEST_URI"))})
            inp_ = environ["wsgi.input"]
            try:
                print("application read:", inp_.read() if type(inp_).__name__ == "DechunkedInput" else
                      inp_.read(int(environ.get("CONTENT_LENGTH") or 0)))
            except Exception as e:  # noqa: BLE001
                print("application read raised:", type(e).__name__, e)
            w = start_response(rs["status"], [tuple(h) for h in rs["headers"]])
            for p in pieces[:rs["n_write"]]:
                w(p)
            return iter(pieces[rs["n_write"]:])
        print("request:", bytes.fromhex(inp["request"]))
        print("request segments cut at:", inp.get("cuts"))
        print("client received:", drive_handler(bytes.fromhex(inp["request"]), app, rs["proto"], inp.get("cuts")))
        return 0
    print("input:", json.dumps(inp, indent=1))
    return 0


def main(chk: Check) -> None:
    try:
        gen()
    except px.Unsupported as e:
        chk.broken("translator", "C19/Gen.v", str(e))
    chk.forbidden_scan()
    if chk.coq_make(["C19/Proofs.vo", "C19/LimitedProofs.vo", "C19/Extract.vo"]):
        chk.audit_props("C19/Props.v")
    else:
        chk.cov["obligations"] += 1
    chk.trusted += [
        "translator tools/c19.py (T2 of the chunked-framing condition; statement skeletons of DechunkedInput.read_chunk_len / readinto, "
        "run_wsgi.write / execute / prologue and make_environ with comparisons and constants generated at the holes)",
        "statement pins: tools/pins/c19_serving.txt (whole serving.DechunkedInput, _chunk_size_re, WSGIRequestHandler.server_version / make_environ / "
        "run_wsgi incl. write, start_response, execute with its drain loop and the 500 fallback / handle / connection_dropped / __getattr__ / "
        "address_string / port_integer / log_request / log / log_error / log_message (send_response logs before it writes), the methods and class-level statements the handler defines, _internal._wsgi_encoding_dance); validated differentially only, "
        "no pin wanted: BaseWSGIServer and make_server (the harness drives the handler "
        "with a stand-in server object), http.server / email / urllib.parse / io (CPython, not werkzeug code; http.server's response formats are "
        "read from its source on every run)",
        "extraction ExtrOcamlBasic + tools/conv.ml + coq/C19/driver.ml, OCaml 4.13.1",
        "http.server.BaseHTTPRequestHandler request-line / header parsing and send_response / send_header / end_headers byte layout, "
        "email.message header storage, the socket layer and the selectors drain loop: runtime, exercised in process over socket.socketpair()",
        "urllib.parse.urlsplit / unquote hand-modelled on printable-ASCII request targets without brackets in the authority "
        "(validated differentially); UTF-8 errors=replace decoding from coq/lib/Utf8.v",
        "io.RawIOBase.read / readall and io.IOBase.readline on top of DechunkedInput.readinto modelled by hand; the buffered reader "
        "returns fewer bytes than requested only at end of input",
        "str.strip / str.split(None, 1) with the interpreter's 29 white-space code points; int(s, 16) on [0-9A-Fa-f]+; "
        "pattern text and flags of _chunk_size_re pinned by C19/Gen.v",
    ]
    run(chk)
    chk.finish(rule="DechunkedInput directly: corpus of probed defects, exhaustive (every 1..3-way chunking of a 5-byte body x CRLF/LF x every "
                    "pair of read sizes 1..6), random well-framed encodings (hex case, leading zeros, padding, mixed terminators, trailing "
                    "bytes) and malformed streams (truncation at every position, 23 bad size lines, wrong terminators, random framing bytes) "
                    "under random read / readinto(bytearray|memoryview) / read() / readline sequences, compared result-by-result with the cursor; "
                    "whole WSGIRequestHandler in process over socket.socketpair(): random request lines / headers / Content-Length and chunked "
                    "bodies x application responses (status classes, with/without Content-Length, empty pieces, write() callable, HEAD, "
                    "HTTP/1.0 and 1.1), environ / body / raw response bytes compared with the model. Non-trivial: non-empty input; distinct by hash.")
