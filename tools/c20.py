"""C20  Host trust and the debugger's gates cannot be bypassed."""
from __future__ import annotations

import ast
import os

from . import pyextract as px
import functools

from .vlib import COQ, Check, uncps
from .vlib import cps as _cps_uncached

cps = functools.lru_cache(maxsize=200000)(_cps_uncached)

PID = "C20"
CLAIM = dict(
    text="Coq theorems over (a) decision functions regenerated on every run from the source of DebuggedApplication.__call__, "
         "execute_command, display_console, pin_auth, log_pin_request, check_pin_trust and _fail_pin_auth (T2 translator with an "
         "atom table), (b) host functions regenerated from sansio.utils._strip_port / host_is_trusted / get_host, "
         "sansio.request.Request.host and wsgi.get_host over hand-written str primitives and proved equal to a reference reading, "
         "and (c) a hand-written model of the cookie and argument parsing that feeds them: the evaluation gate and the host gate of every debugger endpoint (finite sweep over all abstract "
         "requests, re-proved against the regenerated functions), permanence of the PIN lock-out for every history of requests "
         "with the counter modelled as the unsigned byte it is, and soundness of host trust (port-stripped, IDNA-encoded host equals "
         "a listed name or is a true subdomain of a dot-prefixed entry; no failure other than SecurityError). The model is compared "
         "with the real DebuggedApplication on the full product command x secret x Host x cookie x frame x evalex x PIN on/off "
         "and on PIN attempt histories, and with host_is_trusted / get_host / Request.host on (host, trusted-list) pairs.",
    note="Trusted: Coq kernel; translator tools/c20.py (atom table); extraction + driver; str.encode('idna') on non-ASCII input is a "
         "Section variable with the contract 'ASCII output with non-empty labels, or UnicodeError' (validated against CPython by the "
         "harness; the ASCII fast path of the codec is modelled); sha1 (hash_pin) is an input of the model; parse_cookie is C13's; "
         "int() is modelled on ASCII text; letter case is not folded by the code and either verdict is accepted for case variants.",
    design="6/C20")


# ====================================================================== translator (T1 + T2)

MODULE_INTS: dict[str, int] = {}   # module-level NAME = <non-negative int literal> of debug/__init__.py (filled by _gen)
_ALIAS: dict[str, str] = {}   # local name in the source -> the name the tables use (renamed locals are harmless)


class _Rename(ast.NodeTransformer):
    def visit_Name(self, node):
        return ast.copy_location(ast.Name(id=_ALIAS.get(node.id, node.id), ctx=node.ctx), node)


def norm(node: ast.AST) -> str:
    if _ALIAS:
        import copy
        node = _Rename().visit(copy.deepcopy(node))
    return ast.unparse(node)


class Fn:
    """Symbolic executor for one method: statements -> a nested-if Gallina term.
    Everything not in the tables raises px.Unsupported (fail closed)."""

    name = "?"
    atoms: dict[str, str] = {}        # normalised source text of a boolean expression -> Gallina bool term
    eq_atoms: dict[tuple, str] = {}   # sorted operand texts of ==  -> Gallina bool term
    bindings: dict[str, str] = {}     # local name -> the only right-hand side it may be bound to
    ints: dict[str, str] = {}         # normalised source text of an integer expression -> Gallina N term

    def bad(self, what: str, node: ast.AST | None = None):
        where = f" at line {getattr(node, 'lineno', '?')}: {norm(node)[:120]}" if node is not None else ""
        raise px.Unsupported(f"{self.name}: {what}{where}")

    # ---- expressions
    def intexpr(self, e: ast.expr, env) -> str:
        if isinstance(e, ast.Constant) and type(e.value) is int and e.value >= 0:
            return str(e.value)
        t = norm(e)
        if t in self.ints:
            return self.ints[t]
        if isinstance(e, ast.Name) and e.id in env.get("ints", {}):
            return env["ints"][e.id]
        if isinstance(e, ast.Name) and e.id in MODULE_INTS:
            return str(MODULE_INTS[e.id])     # a module-level integer constant stands for its value
        if isinstance(e, ast.BinOp) and isinstance(e.op, ast.Add):
            return f"({self.intexpr(e.left, env)} + {self.intexpr(e.right, env)})"
        if (isinstance(e, ast.Call) and isinstance(e.func, ast.Name) and e.func.id in ("min", "max")
                and len(e.args) == 2 and not e.keywords):
            return f"(N.{e.func.id} {self.intexpr(e.args[0], env)} {self.intexpr(e.args[1], env)})"
        self.bad("integer expression not in the translated subset", e)

    def cond(self, e: ast.expr, env) -> str:
        if isinstance(e, ast.Constant) and isinstance(e.value, bool):
            return "true" if e.value else "false"
        if isinstance(e, ast.BoolOp):
            parts = [self.cond(v, env) for v in e.values]
            op = " && " if isinstance(e.op, ast.And) else " || "
            return "(" + op.join(parts) + ")"
        if isinstance(e, ast.UnaryOp) and isinstance(e.op, ast.Not):
            return neg(self.cond(e.operand, env))
        if isinstance(e, ast.Compare):
            if len(e.ops) != 1:
                self.bad("chained comparison", e)
            op, a, b = e.ops[0], e.left, e.comparators[0]
            if isinstance(op, (ast.Eq, ast.NotEq)):
                key = tuple(sorted([norm(a), norm(b)]))
                if key not in self.eq_atoms:
                    self.bad("unknown equality atom", e)
                t = self.eq_atoms[key]
                return t if isinstance(op, ast.Eq) else neg(t)
            if isinstance(op, (ast.Is, ast.IsNot)):
                if not (isinstance(b, ast.Constant) and b.value is None):
                    self.bad("identity test against something other than None", e)
                key = norm(a) + " is None"
                if key not in self.atoms:
                    self.bad("unknown None-test atom", e)
                t = self.atoms[key]
                return t if isinstance(op, ast.Is) else neg(t)
            if isinstance(op, (ast.In, ast.NotIn)):
                key = f"{norm(a)} in {norm(b)}"
                if key not in self.atoms:
                    self.bad("unknown membership atom", e)
                t = self.atoms[key]
                return t if isinstance(op, ast.In) else neg(t)
            x, y = self.intexpr(a, env), self.intexpr(b, env)
            if isinstance(op, ast.Gt):
                return f"({y} <? {x})"
            if isinstance(op, ast.GtE):
                return f"({y} <=? {x})"
            if isinstance(op, ast.Lt):
                return f"({x} <? {y})"
            if isinstance(op, ast.LtE):
                return f"({x} <=? {y})"
            self.bad("comparison operator", e)
        if isinstance(e, ast.Name) and e.id in env.get("bools", {}):
            return env["bools"][e.id]
        t = norm(e)
        if t in self.atoms:
            return self.atoms[t]
        self.bad("unknown boolean atom", e)

    # ---- statements
    def run(self, stmts: list[ast.stmt], env: dict) -> str:
        if not stmts:
            return self.fall_off(env)
        s, rest = stmts[0], stmts[1:]
        if isinstance(s, ast.Expr) and isinstance(s.value, ast.Constant) and isinstance(s.value.value, str):
            return self.run(rest, env)  # docstring
        if isinstance(s, ast.If):
            c = self.cond(s.test, env)
            if c == "true":
                return self.run(s.body + rest, env)
            if c == "false":
                return self.run(s.orelse + rest, env)
            return (f"if {c}\n then {self.run(s.body + rest, copyenv(env))}\n"
                    f" else {self.run(s.orelse + rest, copyenv(env))}")
        if isinstance(s, ast.Return):
            return self.ret(s, env)
        if isinstance(s, (ast.Assign, ast.AnnAssign)):
            if isinstance(s, ast.Assign):
                if len(s.targets) != 1:
                    self.bad("multiple assignment targets", s)
                tgt, val = s.targets[0], s.value
            else:
                tgt, val = s.target, s.value
            tt = norm(tgt)
            if (tt not in self.bindings and isinstance(tgt, ast.Name) and val is not None and tt not in _ALIAS.values()):
                # a pinned right-hand side bound to a differently named local: treat the name as an alias
                canon = [k for k, v in self.bindings.items() if v == norm(val) and k.isidentifier()]
                if len(canon) == 1 and not self.knows_name(tt):
                    _ALIAS[tt] = canon[0]
                    tt = canon[0]
            if tt in self.bindings:
                if val is None or norm(val) != self.bindings[tt]:
                    self.bad(f"binding of {tt} changed (expected {self.bindings[tt]})", s)
                wrap = self.on_binding(tt, env)
                k = self.run(rest, env)
                return wrap(k) if wrap else k
            wrap = self.assign(tt, val, s, env)
            k = self.run(rest, env)
            return wrap(k) if wrap else k
        return self.other(s, rest, env)

    def knows_name(self, name: str) -> bool:
        return name in ("response", "exhausted", "auth", "bad_cookie", "count", "ts")

    # hooks
    def fall_off(self, env):
        self.bad("control reaches the end of the function without a recognised return")

    def ret(self, s, env):
        self.bad("return statement", s)

    def on_binding(self, name, env):
        return None

    def assign(self, tt, val, s, env):
        self.bad("assignment", s)

    def other(self, s, rest, env):
        self.bad("statement", s)


def neg(t: str) -> str:
    if t == "true":
        return "false"
    if t == "false":
        return "true"
    if t.startswith("negb (") and t.endswith(")") and t.count("(") == 1:
        return t[6:-1]
    return f"negb ({t})"


def copyenv(env: dict) -> dict:
    return {k: (dict(v) if isinstance(v, dict) and k != "meta" else v) for k, v in env.items()}


HOST_ATOMS = {"self.check_host_trust(request.environ)": "a_host_trusted r"}
SECURITY_RETURN = "SecurityError()"


class CallFn(Fn):
    name = "DebuggedApplication.__call__"
    atoms = {
        "arg": "a_arg r",
        "self.evalex": "a_evalex r",
        "cmd is None": "cmd_is (a_cmd r) CNone",
        "frame is None": "negb (a_frame r)",
        "self.check_pin_trust(environ)": "trust_truthy (a_pin_trust r)",
        "self.console_path is None": "negb (a_console_path_set r)",
    }
    eq_atoms = {
        tuple(sorted(["request.args.get('__debugger__')", "'yes'"])): "a_dbg r",
        tuple(sorted(["cmd", "'resource'"])): "cmd_is (a_cmd r) CResource",
        tuple(sorted(["cmd", "'pinauth'"])): "cmd_is (a_cmd r) CPinauth",
        tuple(sorted(["cmd", "'printpin'"])): "cmd_is (a_cmd r) CPrintpin",
        tuple(sorted(["secret", "self.secret"])): "a_secret_ok r",
        tuple(sorted(["request.path", "self.console_path"])): "a_path_is_console r",
    }
    bindings = {
        "request": "Request(environ)",
        "cmd": "request.args.get('cmd')",
        "arg": "request.args.get('f')",
        "secret": "request.args.get('s')",
        "frame": "self.frames.get(request.args.get('frm', type=int))",
    }
    responses = {
        "self.debug_application": "(OApp, KKeep)",
        "self.get_resource(request, arg)": "(OResource, KKeep)",
        "self.pin_auth(request)": "pin_auth r locked",
        "self.log_pin_request(request)": "(log_pin_request r, KKeep)",
        "self.execute_command(request, cmd, frame)": "(execute_command r, KKeep)",
        "self.display_console(request)": "(display_console r, KKeep)",
    }

    def assign(self, tt, val, s, env):
        if tt != "response":
            self.bad("assignment to an unknown name", s)
        v = norm(val)
        if v not in self.responses:
            self.bad("unknown response handler", s)
        env["response"] = self.responses[v]

    def ret(self, s, env):
        if s.value is None or norm(s.value) != "response(environ, start_response)" or "response" not in env:
            self.bad("return is not response(environ, start_response)", s)
        return env["response"]


class GuardedFn(Fn):
    """method that starts with the host guard and then does one thing."""
    atoms = dict(HOST_ATOMS)

    seen_guard = False

    def ret(self, s, env):
        if s.value is not None and norm(s.value) == SECURITY_RETURN:
            self.seen_guard = True
            return "OSecurityError"
        return self.ret_other(s, env)

    def ret_other(self, s, env):
        self.bad("return statement", s)


class ExecFn(GuardedFn):
    name = "DebuggedApplication.execute_command"
    bindings = {"contexts": "self.frame_contexts.get(id(frame), [])"}

    def other(self, s, rest, env):
        # with ExitStack() as exit_stack: for cm in contexts: exit_stack.enter_context(cm); return Response(frame.eval(command), ...)
        if not (isinstance(s, ast.With) and len(s.items) == 1 and norm(s.items[0].context_expr) == "ExitStack()"):
            self.bad("statement", s)
        body = list(s.body)
        if (body and isinstance(body[0], ast.For) and norm(body[0].iter) == "contexts" and len(body[0].body) == 1
                and norm(body[0].body[0]) == f"exit_stack.enter_context({norm(body[0].target)})" and not body[0].orelse):
            body = body[1:]
        if len(body) != 1 or not isinstance(body[0], ast.Return):
            self.bad("with-block is not (enter contexts; return Response(frame.eval(command)))", s)
        if norm(body[0].value) != "Response(frame.eval(command), mimetype='text/html')":
            self.bad("evaluation return changed", body[0])
        return "OEval"


class ConsoleFn(GuardedFn):
    name = "DebuggedApplication.display_console"
    bindings = {"is_trusted": "bool(self.check_pin_trust(request.environ))"}
    FRAME0 = ("if 0 not in self.frames:\n    if self.console_init_func is None:\n        ns = {}\n    else:\n"
              "        ns = dict(self.console_init_func())\n    ns.setdefault('app', self.app)\n"
              "    self.frames[0] = _ConsoleFrame(ns)")

    def run(self, stmts, env):
        # the block that creates the console frame has no gate in it; it is recognised as a whole
        if stmts and isinstance(stmts[0], ast.If) and norm(stmts[0].test) == "0 not in self.frames":
            if norm(stmts[0]) != self.FRAME0:
                self.bad("console frame creation changed", stmts[0])
            if not self.seen_guard:
                self.bad("the console frame is created before the host guard", stmts[0])
            env["frame0"] = True
            return super().run(stmts[1:], env)
        return super().run(stmts, env)

    def on_binding(self, name, env):
        env["is_trusted"] = True

    def ret_other(self, s, env):
        want = "Response(render_console_html(secret=self.secret, evalex_trusted=is_trusted), mimetype='text/html')"
        if s.value is None or norm(s.value) != want or not env.get("is_trusted") or not env.get("frame0"):
            self.bad("console page return changed", s)
        return "OConsole (trust_truthy (a_pin_trust r))"


class PrintPinFn(GuardedFn):
    name = "DebuggedApplication.log_pin_request"
    atoms = dict(HOST_ATOMS, **{"self.pin_logging": "a_pin_logging r", "self.pin is None": "a_pin_is_none r"})

    def other(self, s, rest, env):
        if isinstance(s, ast.Expr) and isinstance(s.value, ast.Call) and norm(s.value.func) == "_log":
            if any(norm(a) == "self.pin" for a in s.value.args):
                env["logged"] = "true"
            elif any("self.pin" in norm(a) or "self._pin" in norm(a) for a in s.value.args):
                self.bad("log call mentions the pin in an unrecognised way", s)
            return self.run(rest, env)
        self.bad("statement", s)

    def ret_other(self, s, env):
        if s.value is None or norm(s.value) != "Response('')":
            self.bad("return changed", s)
        return f"OPrintPin {env.get('logged', 'false')}"


class PinAuthFn(GuardedFn):
    name = "DebuggedApplication.pin_auth"
    atoms = dict(HOST_ATOMS, **{"trust is None": "trust_is_none (a_pin_trust r)", "trust": "trust_truthy (a_pin_trust r)"})
    eq_atoms = {tuple(sorted(["entered_pin.strip().replace('-', '')", "pin.replace('-', '')"])): "a_pin_matches r"}
    ints = {"self._failed_pin_auth.value": "#COUNT#"}
    bindings = {
        "trust": "self.check_pin_trust(request.environ)",
        "pin": "t.cast(str, self.pin)",
        "entered_pin": "request.args['pin']",
        "rv": "Response(json.dumps({'auth': auth, 'exhausted': exhausted}), mimetype='application/json')",
    }
    SET_COOKIE = ("rv.set_cookie(self.pin_cookie_name, f'{int(time.time())}|{hash_pin(pin)}', httponly=True, "
                  "samesite='Strict', secure=request.is_secure)")
    DEL_COOKIE = "rv.delete_cookie(self.pin_cookie_name)"

    def cond(self, e, env):
        # the only use of the counter in a condition is the lock-out test; it becomes the boolean
        # parameter `locked`, and the test itself is emitted as lock_test (see gen)
        if isinstance(e, ast.Compare) and norm(e.left) == "self._failed_pin_auth.value":
            t = Fn.cond(self, e, env).replace("#COUNT#", "count")
            if env["meta"].setdefault("lock_test", t) != t:
                self.bad("two different tests of the failure counter", e)
            return "locked"
        return super().cond(e, env)

    def security(self, env):
        return "(OSecurityError, KKeep)"

    def ret(self, s, env):
        if s.value is not None and norm(s.value) == SECURITY_RETURN:
            return "(OSecurityError, KKeep)"
        if s.value is None or norm(s.value) != "rv" or "json" not in env:
            self.bad("return is not the JSON response", s)
        auth, exhausted = env["json"]
        return f"(OPinAuth {auth} {exhausted} {env['ck']}, {env['cnt']})"

    def on_binding(self, name, env):
        if name == "entered_pin":
            return lambda k: f"if negb (a_pin_present r)\n then (ORaise KeyError, {env['cnt']})\n else {k}"
        if name == "rv":
            env["json"] = (env["bools"]["auth"], env["bools"]["exhausted"])
        return None

    def assign(self, tt, val, s, env):
        if tt in ("exhausted", "auth", "bad_cookie"):
            if not (isinstance(val, ast.Constant) and isinstance(val.value, bool)):
                self.bad("flag assigned a non-constant", s)
            if "json" in env and tt != "bad_cookie":
                self.bad("flag assigned after the JSON body was built", s)
            env["bools"][tt] = "true" if val.value else "false"
            return None
        if tt == "self._failed_pin_auth.value":
            if not (isinstance(val, ast.Constant) and val.value == 0 and type(val.value) is int):
                self.bad("counter assigned something other than 0", s)
            self.effect("KReset", s, env)
            return None
        self.bad("assignment to an unknown name", s)

    def effect(self, k, s, env):
        if env["cnt"] != "KKeep":
            self.bad("more than one counter effect on a path", s)
        env["cnt"] = k

    def other(self, s, rest, env):
        if isinstance(s, ast.Expr):
            t = norm(s.value)
            if t == "self._fail_pin_auth()":
                self.effect("KFail", s, env)
                return self.run(rest, env)
            if t == self.SET_COOKIE or t == self.DEL_COOKIE:
                if "json" not in env or env["ck"] != "CkNone":
                    self.bad("cookie set before the response exists, or twice", s)
                env["ck"] = "CkSet" if t == self.SET_COOKIE else "CkDelete"
                return self.run(rest, env)
        self.bad("statement", s)


class PinTrustFn(Fn):
    name = "DebuggedApplication.check_pin_trust"
    atoms = {"self.pin is None": "p_pin_is_none p", "val": "p_val_truthy p", "'|' in val": "p_bar_in_val p"}
    eq_atoms = {tuple(sorted(["pin_hash", "hash_pin(self.pin)"])): "p_hash_eq p"}
    bindings = {
        "val": "parse_cookie(environ).get(self.pin_cookie_name)",
        "(ts_str, pin_hash)": "val.split('|', 1)",
    }
    RET = {"True": "TTrue", "False": "TFalse", "None": "TNone"}

    def zexpr(self, e, env):
        if isinstance(e, ast.Name) and e.id == "ts" and env.get("ts"):
            return "ts"
        if isinstance(e, ast.Name) and e.id == "PIN_TIME":
            return "PIN_TIME"
        if norm(e) == "time.time()":
            return "p_now p"
        if isinstance(e, ast.BinOp) and isinstance(e.op, (ast.Sub, ast.Add)):
            op = "-" if isinstance(e.op, ast.Sub) else "+"
            return f"({self.zexpr(e.left, env)} {op} {self.zexpr(e.right, env)})"
        self.bad("time expression not in the translated subset", e)

    def ret(self, s, env):
        v = s.value
        if v is None:
            return "TNone"
        if isinstance(v, ast.Constant) and norm(v) in self.RET:
            return self.RET[norm(v)]
        if isinstance(v, ast.Compare) and len(v.ops) == 1:
            a, b = self.zexpr(v.left, env), self.zexpr(v.comparators[0], env)
            op = v.ops[0]
            table = {ast.Lt: f"({a} <? {b})", ast.LtE: f"({a} <=? {b})", ast.Gt: f"({b} <? {a})", ast.GtE: f"({b} <=? {a})"}
            if type(op) in table:
                return f"trust_of_bool {table[type(op)]}%Z"
        self.bad("return value", s)

    def other(self, s, rest, env):
        # try: ts = int(ts_str)  except ValueError: <handler>
        if (isinstance(s, ast.Try) and len(s.body) == 1 and norm(s.body[0]) == "ts = int(ts_str)" and len(s.handlers) == 1
                and s.handlers[0].type is not None and norm(s.handlers[0].type) == "ValueError"
                and s.handlers[0].name is None and not s.orelse and not s.finalbody):
            h = self.run(list(s.handlers[0].body) + rest, copyenv(env))
            env2 = copyenv(env)
            env2["ts"] = True
            k = self.run(rest, env2)
            return f"match p_ts p with\n | None => {h}\n | Some ts => {k}\n end"
        self.bad("statement", s)


# ---------------------------------------------------------------------- T2 for the host functions

CATCHES_UNICODE_ERROR = ("UnicodeError", "ValueError", "Exception", "BaseException")


class HostTr:
    """Translates sansio.utils._strip_port / host_is_trusted / get_host (str programs: if / return / assignment /
    one for loop / try around an IDNA step / raise) into Gallina over the primitives of C20/Str.v.
    Types: str, int (Z), bool, optstr, optlist, optpair (server), pair, list.  Everything else: Unsupported."""

    def __init__(self, fname: str, params: dict, rettype: str):
        self.fname = fname
        self.params = params          # python name -> type
        self.rettype = rettype        # "str" | "res bool" | "res str"
        self.aux: list[str] = []      # auxiliary definitions (the loop) emitted before the function
        self.uses_idna = False

    def bad(self, what, node=None):
        where = f" at line {getattr(node, 'lineno', '?')}: {ast.unparse(node)[:120]}" if node is not None else ""
        raise px.Unsupported(f"{self.fname}: {what}{where}")

    @staticmethod
    def v(name: str) -> str:
        return "v_" + name

    @staticmethod
    def lit(s: str) -> str:
        return "([] : str)" if s == "" else "[" + "; ".join(str(ord(c)) for c in s) + "]"

    def char(self, e) -> str:
        if isinstance(e, ast.Constant) and isinstance(e.value, str) and len(e.value) == 1:
            return str(ord(e.value))
        self.bad("a one-character literal is expected here", e)

    def typeof(self, e, env) -> str:
        if isinstance(e, ast.Name):
            if e.id in env["ty"]:
                return env["ty"][e.id]
            self.bad("unknown name", e)
        if isinstance(e, ast.Constant):
            if isinstance(e.value, bool):
                return "bool"
            if isinstance(e.value, int):
                return "int"
            if isinstance(e.value, str):
                return "str"
        if isinstance(e, ast.UnaryOp) and isinstance(e.op, ast.USub):
            return "int"
        if isinstance(e, ast.BinOp):
            return self.typeof(e.left, env)
        if isinstance(e, ast.Call) and isinstance(e.func, ast.Attribute) and e.func.attr == "find":
            return "int"
        if isinstance(e, ast.Subscript) and ast.unparse(e) in env["sub"]:
            return env["sub"][ast.unparse(e)][1]
        if isinstance(e, ast.Subscript) and isinstance(e.value, ast.Name) and env["ty"].get(e.value.id) == "pair":
            return "str" if ast.unparse(e.slice) == "0" else "optstr"
        return "str"

    # ---- expressions
    def tint(self, e, env) -> str:
        if isinstance(e, ast.Constant) and type(e.value) is int:
            return f"({e.value})%Z"
        if isinstance(e, ast.UnaryOp) and isinstance(e.op, ast.USub) and isinstance(e.operand, ast.Constant) and type(e.operand.value) is int:
            return f"(-{e.operand.value})%Z"
        if isinstance(e, ast.Name) and env["ty"].get(e.id) == "int":
            return self.v(e.id)
        if isinstance(e, ast.BinOp) and isinstance(e.op, (ast.Add, ast.Sub)):
            op = "+" if isinstance(e.op, ast.Add) else "-"
            return f"({self.tint(e.left, env)} {op} {self.tint(e.right, env)})%Z"
        if (isinstance(e, ast.Call) and isinstance(e.func, ast.Attribute) and e.func.attr == "find" and len(e.args) == 1
                and not e.keywords):
            return f"(py_find {self.tstr(e.func.value, env)} {self.char(e.args[0])})"
        self.bad("integer expression", e)

    def tstr(self, e, env) -> str:
        t = ast.unparse(e)
        if t in env["sub"]:
            return env["sub"][t][0]
        if isinstance(e, ast.Constant) and isinstance(e.value, str):
            return self.lit(e.value)
        if isinstance(e, ast.Name):
            if env["ty"].get(e.id) == "str":
                return self.v(e.id)
            self.bad(f"name of type {env['ty'].get(e.id)} used as a str", e)
        if isinstance(e, ast.JoinedStr):
            parts = []
            for p in e.values:
                if isinstance(p, ast.Constant):
                    parts.append(self.lit(p.value))
                elif isinstance(p, ast.FormattedValue) and p.conversion == -1 and p.format_spec is None:
                    parts.append(self.tstr(p.value, env))
                else:
                    self.bad("f-string part", e)
            return "(" + " ++ ".join(parts) + ")"
        if isinstance(e, ast.Subscript):
            if isinstance(e.value, ast.Name) and env["ty"].get(e.value.id) == "pair" and ast.unparse(e.slice) == "0":
                return f"(fst {self.v(e.value.id)})"
            if (isinstance(e.value, ast.Call) and isinstance(e.value.func, ast.Attribute) and e.value.func.attr == "partition"
                    and len(e.value.args) == 1 and ast.unparse(e.slice) == "0"):
                return f"(py_partition0 {self.tstr(e.value.func.value, env)} {self.char(e.value.args[0])})"
            base = self.tstr(e.value, env)
            if isinstance(e.slice, ast.Slice):
                if e.slice.step is not None:
                    self.bad("slice step", e)
                lo = f"(Some {self.tint(e.slice.lower, env)})" if e.slice.lower is not None else "None"
                hi = f"(Some {self.tint(e.slice.upper, env)})" if e.slice.upper is not None else "None"
                return f"(py_slice {base} {lo} {hi})"
            if isinstance(e.slice, ast.Constant) and type(e.slice.value) is int and e.slice.value >= 0:
                # s[i] used only in comparisons guarded by a membership test: the one-character slice
                i = e.slice.value
                return f"(py_slice {base} (Some ({i})%Z) (Some ({i + 1})%Z))"
            self.bad("subscript", e)
        if isinstance(e, ast.Call):
            f = e.func
            if isinstance(f, ast.Name) and f.id == "_strip_port" and len(e.args) == 1 and not e.keywords:
                return f"(strip_port {self.tstr(e.args[0], env)})"
            # X.encode("idna").decode("ascii"): a step that can fail; bound by the enclosing statement
            if (isinstance(f, ast.Attribute) and f.attr == "decode" and [ast.unparse(a) for a in e.args] == ["'ascii'"]
                    and isinstance(f.value, ast.Call) and isinstance(f.value.func, ast.Attribute) and f.value.func.attr == "encode"
                    and [ast.unparse(a) for a in f.value.args] == ["'idna'"] and not e.keywords and not f.value.keywords):
                inner = self.tstr(f.value.func.value, env)
                name = f"idna{len(env['pending']) + env['nidna'][0]}"
                env["nidna"][0] += 1
                env["pending"].append((name, inner))
                self.uses_idna = True
                return name
        self.bad("str expression", e)

    def tbool(self, e, env) -> str:
        if isinstance(e, ast.Constant) and isinstance(e.value, bool):
            return "true" if e.value else "false"
        if isinstance(e, ast.BoolOp):
            op = " && " if isinstance(e.op, ast.And) else " || "
            return "(" + op.join(self.tbool(x, env) for x in e.values) + ")"
        if isinstance(e, ast.UnaryOp) and isinstance(e.op, ast.Not):
            return f"negb {self.tbool(e.operand, env)}" if not isinstance(e.operand, ast.Name) else f"negb ({self.tbool(e.operand, env)})"
        if isinstance(e, ast.Name):
            ty = env["ty"].get(e.id)
            if ty == "bool":
                return self.v(e.id)
            if ty == "str":
                return f"(str_truthy {self.v(e.id)})"
            self.bad(f"truth value of a {ty}", e)
        if isinstance(e, ast.Call) and isinstance(e.func, ast.Attribute) and e.func.attr in ("startswith", "endswith") \
                and len(e.args) == 1 and not e.keywords:
            return f"(py_{e.func.attr} {self.tstr(e.func.value, env)} {self.tstr(e.args[0], env)})"
        if isinstance(e, ast.Compare) and len(e.ops) == 1:
            op, a, b = e.ops[0], e.left, e.comparators[0]
            if isinstance(op, (ast.Eq, ast.NotEq)):
                if "int" in (self.typeof(a, env), self.typeof(b, env)):
                    t = f"({self.tint(a, env)} =? {self.tint(b, env)})%Z"
                else:
                    t = f"(list_eqb {self.tstr(a, env)} {self.tstr(b, env)})"
                return t if isinstance(op, ast.Eq) else f"negb {t}"
            if isinstance(op, (ast.In, ast.NotIn)):
                if isinstance(b, ast.Set) and all(isinstance(x, ast.Constant) and isinstance(x.value, str) for x in b.elts):
                    # a set literal is unordered: its elements are emitted sorted
                    t = f"(str_in {self.tstr(a, env)} [{'; '.join(self.lit(v) for v in sorted(x.value for x in b.elts))}])"
                elif isinstance(a, ast.Constant):
                    t = f"(py_contains {self.tstr(b, env)} {self.char(a)})"
                else:
                    self.bad("membership test", e)
                return t if isinstance(op, ast.In) else f"negb {t}"
        self.bad("boolean expression", e)

    # ---- statements
    def newenv(self):
        return {"ty": dict(self.params), "sub": {}, "pending": [], "nidna": [0], "handler": None, "cont": None}

    @staticmethod
    def cp(env):
        return {"ty": dict(env["ty"]), "sub": dict(env["sub"]), "pending": [], "nidna": env["nidna"], "handler": env["handler"],
                "cont": env["cont"], "joining": env.get("joining", False)}

    def ret_ok(self, term: str) -> str:
        return term if self.rettype == "str" else f"Ok {term}"

    def bind_pending(self, env, body: str, on_fail: str | None) -> str:
        """wrap `body` in the matches for the IDNA steps collected while translating one statement."""
        pend, env["pending"] = env["pending"], []
        for name, inner in reversed(pend):
            if on_fail is None:
                if not self.rettype.startswith("res"):
                    self.bad("an IDNA step outside a function that can fail")
                fail = "Err UnicodeError"
            else:
                fail = on_fail
            body = f"match idna_encode idna_u {inner} with\n | None => {fail}\n | Some {name} => {body}\n end"
        return body

    def option_test(self, test, env):
        """(expr-node, positive?) when the test is `X is None` / `X is not None` for an option-typed X."""
        if (isinstance(test, ast.Compare) and len(test.ops) == 1 and isinstance(test.ops[0], (ast.Is, ast.IsNot))
                and isinstance(test.comparators[0], ast.Constant) and test.comparators[0].value is None):
            x = test.left
            ty = self.typeof(x, env)
            if ty.startswith("opt"):
                return x, isinstance(test.ops[0], ast.IsNot), ty
            self.bad("None test on something that is not optional in the model", test)
        return None

    def run(self, stmts, env) -> str:
        if not stmts:
            if env["cont"] is not None:
                return env["cont"]
            self.bad("control reaches the end of the function without a return")
        s, rest = stmts[0], stmts[1:]
        if isinstance(s, ast.Expr) and isinstance(s.value, ast.Constant) and isinstance(s.value.value, str):
            return self.run(rest, env)
        if isinstance(s, ast.Return):
            if s.value is None:
                self.bad("bare return", s)
            if self.rettype == "res bool":
                t = self.tbool(s.value, env)
            else:
                t = self.tstr(s.value, env)
            return self.bind_pending(env, self.ret_ok(t), None)
        if isinstance(s, ast.Raise):
            name = ast.unparse(s.exc.func) if isinstance(s.exc, ast.Call) else ast.unparse(s.exc)
            if name not in ("SecurityError", "UnicodeError", "KeyError") or not self.rettype.startswith("res"):
                self.bad("raise of an exception class the model does not know", s)
            return f"Err {name}"
        if isinstance(s, ast.Assign) and len(s.targets) == 1 and isinstance(s.targets[0], ast.Name):
            name = s.targets[0].id
            # trusted_list = [trusted_list] under isinstance(..., str) is handled by the caller of the model
            ty = self.typeof(s.value, env)
            if ty == "bool" or (isinstance(s.value, ast.Constant) and isinstance(s.value.value, bool)):
                term, ty = self.tbool(s.value, env), "bool"
            elif ty == "int":
                term = self.tint(s.value, env)
            elif ty == "str":
                term = self.tstr(s.value, env)
            else:
                self.bad(f"assignment of a {ty}", s)
            env["ty"][name] = ty
            env["sub"] = {k: v for k, v in env["sub"].items() if not k.startswith(name + "[")}
            pend_env = {"pending": env["pending"]}
            env["pending"] = []
            k = self.run(rest, env)
            env["pending"] = pend_env["pending"]
            colon = {"str": "str", "int": "Z", "bool": "bool"}[ty]
            return self.bind_pending(env, f"let {self.v(name)} : {colon} := {term} in\n {k}", env["handler"])
        if isinstance(s, ast.If):
            return self.run_if(s, rest, env)
        if isinstance(s, ast.Try):
            if not (len(s.handlers) == 1 and not s.orelse and not s.finalbody and len(s.body) == 1
                    and isinstance(s.body[0], ast.Assign) and s.handlers[0].name is None):
                self.bad("try statement shape", s)
            h = s.handlers[0]
            names = ([ast.unparse(x) for x in h.type.elts] if isinstance(h.type, ast.Tuple) else
                     [ast.unparse(h.type)] if h.type is not None else ["BaseException"])
            if any(n in CATCHES_UNICODE_ERROR for n in names):
                henv = self.cp(env)
                henv["cont"] = None
                on_fail = self.run(list(h.body), henv)
            else:
                # str.encode("idna") raises a plain UnicodeError: a handler for a subclass does not catch it
                on_fail = "Err UnicodeError"
            env2 = self.cp(env)
            env2["handler"] = on_fail
            # the assignment is translated with the handler in force, the rest without it
            a = s.body[0]
            name = a.targets[0].id if isinstance(a.targets[0], ast.Name) else self.bad("try target", a)
            if self.typeof(a.value, env2) != "str":
                self.bad("try body is not a str assignment", a)
            term = self.tstr(a.value, env2)
            env3 = self.cp(env)
            env3["ty"][name] = "str"
            k = self.run(rest, env3)
            env2["pending"] = env2["pending"]
            return self.bind_pending(env2, f"let {self.v(name)} : str := {term} in\n {k}", on_fail)
        if isinstance(s, ast.For):
            return self.run_for(s, rest, env)
        self.bad("statement", s)

    @staticmethod
    def only_assigns(stmts) -> set | None:
        """names assigned by a block that contains nothing but (nested if of) plain assignments; None otherwise."""
        names: set = set()
        for st in stmts:
            if isinstance(st, ast.Assign) and len(st.targets) == 1 and isinstance(st.targets[0], ast.Name):
                for n in ast.walk(st.value):
                    if isinstance(n, ast.Attribute) and n.attr in ("encode", "decode"):
                        return None
                    if isinstance(n, ast.Name) and n.id == "host_is_trusted":
                        return None
                names.add(st.targets[0].id)
            elif isinstance(st, ast.If):
                for n in ast.walk(st.test):
                    if isinstance(n, ast.Name) and n.id in ("host_is_trusted", "isinstance"):
                        return None
                a, b = HostTr.only_assigns(st.body), HostTr.only_assigns(st.orelse)
                if a is None or b is None:
                    return None
                names |= a | b
            else:
                return None
        return names

    def run_if(self, s, rest, env) -> str:
        # an if that only assigns: its value is the tuple of the assigned variables, the rest is not duplicated
        w = self.only_assigns([s])
        if w and not env.get("joining"):
            ws = sorted(w)
            tys = {}
            for n in ws:
                t = env["ty"].get(n) or self.assigned_type(s, n, env)
                tys[n] = t
            tup = self.v(ws[0]) if len(ws) == 1 else "(" + ", ".join(self.v(n) for n in ws) + ")"
            jenv = self.cp(env)
            jenv["cont"] = tup
            jenv["joining"] = True
            for n in ws:
                if n not in jenv["ty"]:
                    jenv["undef"] = jenv.get("undef", set()) | {n}
            val = self.run_if_core(s, [], jenv)
            for n in ws:
                env["ty"][n] = tys[n]
            colon = {"str": "str", "int": "Z", "bool": "bool"}
            pat = f"{self.v(ws[0])} : {colon[tys[ws[0]]]}" if len(ws) == 1 else "'" + tup
            return f"let {pat} :=\n{_indent('(' + val + ')', 3)} in\n {self.run(rest, env)}"
        return self.run_if_core(s, rest, env)

    def assigned_type(self, s, name, env) -> str:
        for n in ast.walk(s):
            if isinstance(n, ast.Assign) and isinstance(n.targets[0], ast.Name) and n.targets[0].id == name:
                if isinstance(n.value, ast.Constant) and isinstance(n.value.value, bool):
                    return "bool"
                return "str" if isinstance(n.value, (ast.JoinedStr, ast.Subscript)) or (
                    isinstance(n.value, ast.Constant) and isinstance(n.value.value, str)) else self.typeof(n.value, env)
        self.bad(f"type of {name}", s)

    def run_if_core(self, s, rest, env) -> str:
        test = s.test
        # isinstance(trusted_list, str): the model receives a list; a str is wrapped by the harness
        if ast.unparse(test) == "isinstance(trusted_list, str)" and [ast.unparse(x) for x in s.body] == ["trusted_list = [trusted_list]"] \
                and not s.orelse:
            return self.run(rest, env)
        # `not X` / `X` on an optional str: None and "" are both falsy
        if isinstance(test, ast.UnaryOp) and isinstance(test.op, ast.Not) and isinstance(test.operand, ast.Name) \
                and env["ty"].get(test.operand.id) == "optstr":
            x = test.operand.id
            e_none = self.cp(env)
            falsy = self.run(list(s.body) + rest, e_none) if False else self.run(list(s.body), self.cp(env))
            e_some = self.cp(env)
            e_some["ty"][x] = "str"
            other = self.run(list(s.orelse) + rest, e_some)
            return (f"match {self.v(x)} with\n | None => {falsy}\n | Some {self.v(x)} =>\n if negb (str_truthy {self.v(x)})\n"
                    f" then {self.run(list(s.body), self.cp(e_some))}\n else {other}\n end")
        ot = self.option_test(test, env)
        if ot is not None:
            x, positive, ty = ot
            key = ast.unparse(x)
            inner_ty = {"optstr": "str", "optlist": "list", "optpair": "pair"}[ty]
            e_some, e_none = self.cp(env), self.cp(env)
            if isinstance(x, ast.Name):
                scrut, bound = self.v(x.id), self.v(x.id)
                e_some["ty"][x.id] = inner_ty
            elif isinstance(x, ast.Subscript) and isinstance(x.value, ast.Name) and env["ty"].get(x.value.id) == "pair" \
                    and ast.unparse(x.slice) == "1":
                scrut, bound = f"snd {self.v(x.value.id)}", self.v(x.value.id) + "_1"
                e_some["sub"][key] = (bound, inner_ty)
            else:
                self.bad("None test", test)
            yes, no = (list(s.body), list(s.orelse)) if positive else (list(s.orelse), list(s.body))
            return (f"match {scrut} with\n | Some {bound} => {self.run(yes + rest, e_some)}\n"
                    f" | None => {self.run(no + rest, e_none)}\n end")
        # not host_is_trusted(a, b): a call that can itself fail
        if (isinstance(test, ast.UnaryOp) and isinstance(test.op, ast.Not) and isinstance(test.operand, ast.Call)
                and ast.unparse(test.operand.func) == "host_is_trusted" and len(test.operand.args) == 2 and not test.operand.keywords):
            a, b = test.operand.args
            if not (isinstance(b, ast.Name) and env["ty"].get(b.id) == "list"):
                self.bad("second argument of host_is_trusted is not a list here", test)
            self.uses_idna = True
            return (f"match host_is_trusted idna_u (Some {self.tstr(a, env)}) {self.v(b.id)} with\n | Err e => Err e\n"
                    f" | Ok trusted => if negb trusted\n then {self.run(list(s.body) + rest, self.cp(env))}\n"
                    f" else {self.run(list(s.orelse) + rest, self.cp(env))}\n end")
        c = self.tbool(test, env)
        if env["pending"]:
            self.bad("IDNA step inside a condition", test)
        return (f"if {c}\n then {self.run(list(s.body) + rest, self.cp(env))}\n"
                f" else {self.run(list(s.orelse) + rest, self.cp(env))}")

    def run_for(self, s, rest, env) -> str:
        if not (isinstance(s.target, ast.Name) and isinstance(s.iter, ast.Name) and env["ty"].get(s.iter.id) == "list" and not s.orelse):
            self.bad("for loop shape", s)
        if self.aux:
            self.bad("more than one loop", s)
        loop = f"{self.fname}_loop"
        free = [n for n, t in env["ty"].items() if t in ("str", "bool", "int") and n != s.target.id]
        colon = {"str": "str", "int": "Z", "bool": "bool"}
        benv = self.cp(env)
        benv["ty"][s.target.id] = "str"
        benv["cont"] = f"{loop} idna_u {' '.join(self.v(n) for n in free)} rest"
        body = self.run(list(s.body), benv)
        aenv = self.cp(env)
        aenv["cont"] = None
        after = self.run(rest, aenv)
        self.uses_idna = True
        params = " ".join(f"({self.v(n)} : {colon[env['ty'][n]]})" for n in free)
        self.aux.append(
            f"Fixpoint {loop} (idna_u : str -> option str) {params} (l : list str) {{struct l}} : {self.rettype} :=\n"
            f"  match l with\n  | [] => {after}\n  | {self.v(s.target.id)} :: rest =>\n{_indent(body, 4)}\n  end.\n")
        return f"{loop} idna_u {' '.join(self.v(n) for n in free)} {self.v(s.iter.id)}"


COQ_TY = {"str": "str", "optstr": "option str", "optlist": "option (list str)", "list": "list str",
          "optpair": "option (str * option str)", "bool": "bool"}


def translate_host_fn(fn: ast.FunctionDef, coqname: str, params: dict, rettype: str) -> str:
    got = [a.arg for a in fn.args.args]
    if got != list(params) or fn.args.vararg or fn.args.kwarg or fn.args.kwonlyargs:
        raise px.Unsupported(f"{fn.name}: parameters {got} are not {list(params)}")
    tr = HostTr(coqname, params, rettype)
    term = tr.run(list(fn.body), tr.newenv())
    sig = " ".join(f"({tr.v(n)} : {COQ_TY[t]})" for n, t in params.items())
    idna = "(idna_u : str -> option str) " if tr.uses_idna else ""
    return "".join(tr.aux) + f"Definition {coqname} {idna}{sig} : {rettype} :=\n{_indent(term)}.\n"


def translate_get_host_caller(fn: ast.FunctionDef, coqname: str, table: dict, callee: str) -> str:
    """a one-statement wrapper `return get_host(a, b, c, d)`: each argument must be in the table."""
    body = [x for x in fn.body if not (isinstance(x, ast.Expr) and isinstance(x.value, ast.Constant))]
    if not (len(body) == 1 and isinstance(body[0], ast.Return) and isinstance(body[0].value, ast.Call)
            and ast.unparse(body[0].value.func) == callee and len(body[0].value.args) == 4 and not body[0].value.keywords):
        raise px.Unsupported(f"{fn.name} is no longer `return {callee}(scheme, host header, server, trusted hosts)`")
    args = []
    for a in body[0].value.args:
        t = ast.unparse(a)
        if t not in table:
            raise px.Unsupported(f"{fn.name}: argument {t} is not in the table")
        args.append(table[t])
    return (f"Definition {coqname} (idna_u : str -> option str) (v_scheme : str) (v_host_header : option str) "
            f"(v_server : option (str * option str)) (v_trusted_hosts : option (list str)) : res str :=\n"
            f"  get_host idna_u {' '.join(args)}.\n")



def _method(cls: ast.ClassDef, name: str) -> ast.FunctionDef:
    found = [n for n in cls.body if isinstance(n, ast.FunctionDef) and n.name == name]
    if len(found) != 1:
        raise px.Unsupported(f"expected exactly one method {name}, found {len(found)}")
    return found[0]


def _indent(term: str, n: int = 2) -> str:
    out, depth = [], 0
    for line in term.split("\n"):
        out.append(" " * n + line)
    return "\n".join(out)


VALUE_MODULUS = {"B": 2 ** 8, "H": 2 ** 16, "I": 2 ** 32, "L": 2 ** 64, "Q": 2 ** 64}


def gen() -> dict:
    """regenerate coq/C20/Gen.v.  When the translator stops (Unsupported) the file is replaced by one that fails to
    compile with the translator's message, so that no theorem can be discharged against a stale Gen.v."""
    try:
        return _gen()
    except px.Unsupported as e:
        msg = " ".join(str(e).replace('"', "'").split())
        text = ("(* GENERATED by tools/c20.py: the translator stopped (Unsupported).  This file fails to compile on purpose;\n"
                "   the next run on a source the translator accepts rewrites it. *)\n"
                f'Ltac c20_translator_stopped := fail 0 "tools/c20.py could not translate the source:" "{msg}".\n'
                "Goal True. c20_translator_stopped. Abort.\n")
        px.write_if_changed(os.path.join(COQ, "C20", "Gen.v"), text)
        raise


def _last_def(cls: ast.ClassDef, name: str) -> ast.FunctionDef:
    """the implementation among typing overloads: the last def of that name"""
    found = [n for n in cls.body if isinstance(n, ast.FunctionDef) and n.name == name]
    if not found:
        raise px.Unsupported(f"{cls.name}.{name} not found")
    return found[-1]


def _check_pins(dbg, cls, init, vcode, trusted) -> None:
    """statement pins (tools/pins/c20_*.txt): everything the model or the harness oracles stand for that is NOT translated
    into Gen.v.  Translated parts inside a pinned function are holes.  Fully translated (no pin needed, every statement is
    consumed by the T2 translators, which refuse what they do not know): DebuggedApplication.__call__, execute_command,
    display_console, pin_auth, log_pin_request, check_pin_trust, _fail_pin_auth; sansio.utils._strip_port, host_is_trusted,
    get_host; sansio.request.Request.host; wsgi.get_host."""
    holes = {f"Value({vcode!r})": "<VALUE-TYPECODE>", repr(trusted): "<DEFAULT-TRUSTED-HOSTS>"}
    parts = []

    def add(title, node, h=None):
        import copy
        node = copy.deepcopy(node)
        for sub in ast.walk(node):          # attribute docstrings and other bare string statements are not code
            for field in ("body", "orelse", "finalbody"):
                blk = getattr(sub, field, None)
                if isinstance(blk, list):
                    kept = [x for x in blk if not (isinstance(x, ast.Expr) and isinstance(x.value, ast.Constant) and isinstance(x.value.value, str))]
                    if len(kept) != len(blk):
                        setattr(sub, field, kept or [ast.Pass()])
        parts.append(f"## {title}\n" + px.skeleton(node, h or {}))

    add("hash_pin", px.find_def(dbg, "hash_pin"))
    add("_ConsoleFrame", px.find_class(dbg, "_ConsoleFrame"))
    add("DebuggedApplication.__init__", init, holes)
    for m in cls.body:
        # the pin property, its setter, pin_cookie_name
        if isinstance(m, ast.FunctionDef) and m.name in ("pin", "pin_cookie_name"):
            add(f"DebuggedApplication.{m.name} [{', '.join(ast.unparse(d) for d in m.decorator_list)}]", m)
    for name in ("debug_application", "get_resource", "check_host_trust"):
        add(f"DebuggedApplication.{name}", _method(cls, name))
    # class-level annotations / attributes of DebuggedApplication other than methods
    add("DebuggedApplication [class-level statements]",
        ast.Module(body=[x for x in cls.body if not isinstance(x, ast.FunctionDef)
                         and not (isinstance(x, ast.Expr) and isinstance(x.value, ast.Constant))], type_ignores=[]))
    # what the harness reads off the pages: the flags and the secret in the script block, and the two render functions
    tb = px.load("debug/tbtools.py")
    page = px.const(px.find_assign(tb, "HEADER"))
    marks = [ln.strip() for ln in page.splitlines() if any(k in ln for k in ("CONSOLE_MODE", "EVALEX", "SECRET"))]
    if len(marks) < 4:
        raise px.Unsupported("tbtools.HEADER no longer carries the CONSOLE_MODE / EVALEX / EVALEX_TRUSTED / SECRET lines")
    parts.append("## tbtools.HEADER [lines with CONSOLE_MODE / EVALEX / EVALEX_TRUSTED / SECRET]\n" + "\n".join(marks))
    for nm_ in ("PAGE_HTML", "CONSOLE_HTML"):
        top = px.find_assign(tb, nm_)
        if not (isinstance(top, ast.BinOp) and ast.unparse(top).startswith("HEADER + ")):
            raise px.Unsupported(f"tbtools.{nm_} no longer starts with HEADER")
    add("tbtools.render_console_html", px.find_def(tb, "render_console_html"))
    add("tbtools.DebugTraceback.render_debugger_html", _method(px.find_class(tb, "DebugTraceback"), "render_debugger_html"))
    add("tbtools.DebugTraceback.all_frames", _method(px.find_class(tb, "DebugTraceback"), "all_frames"))
    add("tbtools.DebugFrameSummary.eval", _method(px.find_class(tb, "DebugFrameSummary"), "eval"))
    px.check_pin("C20", "c20_debugger.txt", "\n".join(parts) + "\n",
                 "debugger code the C20 model stands for without translating it (hash_pin, _ConsoleFrame, __init__, pin properties, "
                 "debug_application, get_resource, check_host_trust, page flags)")

    parts.clear()
    add("wsgi._get_server", px.find_def(px.load("wsgi.py"), "_get_server"))
    exc = px.load("exceptions.py")
    add("exceptions.BadRequest", px.find_class(exc, "BadRequest"))
    add("exceptions.SecurityError", px.find_class(exc, "SecurityError"))
    ds = px.load("datastructures/structures.py")
    add("datastructures.TypeConversionDict.get", _last_def(px.find_class(ds, "TypeConversionDict"), "get"))
    add("datastructures.MultiDict.__getitem__", _last_def(px.find_class(ds, "MultiDict"), "__getitem__"))
    req = px.find_class(px.load("sansio/request.py"), "Request")
    add("sansio.request.Request.args", _method(req, "args"))
    px.check_pin("C20", "c20_host_glue.txt", "\n".join(parts) + "\n",
                 "glue the C20 harness and model stand for (server tuple, SecurityError = 400, args.get(type=int), args[...])")


def _gen() -> dict:
    """T1 + T2: regenerate coq/C20/Gen.v from debug/__init__.py and sansio/utils.py."""
    _ALIAS.clear()
    dbg = px.load("debug/__init__.py")
    utils = px.load("sansio/utils.py")
    cls = px.find_class(dbg, "DebuggedApplication")
    MODULE_INTS.clear()
    for node in dbg.body:
        if (isinstance(node, ast.Assign) and len(node.targets) == 1 and isinstance(node.targets[0], ast.Name)
                and isinstance(node.value, ast.Constant) and type(node.value.value) is int and node.value.value >= 0):
            if node.targets[0].id in MODULE_INTS:
                raise px.Unsupported(f"module constant {node.targets[0].id} assigned twice")
            MODULE_INTS[node.targets[0].id] = node.value.value
    out = ["(* GENERATED by tools/c20.py from debug/__init__.py, sansio/utils.py on every run - do not edit *)",
           "From Coq Require Import ZArith.", "From Wz Require Import lib.Bytes C20.Types C20.Str.", "Open Scope N_scope.", ""]

    # ---------------- T1 constants
    pin_time = px.find_assign(dbg, "PIN_TIME")
    for n in ast.walk(pin_time):
        if not isinstance(n, (ast.BinOp, ast.Mult, ast.Add, ast.Constant)) or (isinstance(n, ast.Constant) and type(n.value) is not int):
            raise px.Unsupported(f"PIN_TIME is not a product of integer literals: {norm(pin_time)}")
    out.append(f"Definition PIN_TIME : Z := {eval(compile(ast.Expression(pin_time), '<PIN_TIME>', 'eval'), {'__builtins__': {}})}%Z.")  # noqa: S307

    init = _method(cls, "__init__")
    vcode, trusted = None, None
    for n in ast.walk(init):
        if isinstance(n, (ast.Assign, ast.AnnAssign)):
            tgt = n.targets[0] if isinstance(n, ast.Assign) else n.target
            if norm(tgt) == "self._failed_pin_auth":
                v = n.value
                if not (isinstance(v, ast.Call) and norm(v.func) == "Value" and len(v.args) == 1 and not v.keywords):
                    raise px.Unsupported(f"failure counter is not Value(<typecode>): {norm(n)}")
                vcode = px.const(v.args[0])
            if norm(tgt) == "self.trusted_hosts":
                trusted = px.const(n.value)
    if vcode not in VALUE_MODULUS:
        raise px.Unsupported(f"failure counter type code {vcode!r} is not an unsigned integer type the model knows")
    if not (isinstance(trusted, list) and all(isinstance(x, str) for x in trusted)):
        raise px.Unsupported("default trusted_hosts is not a literal list of strings")
    out.append(f"(* multiprocessing.Value({vcode!r}): stores are reduced modulo this *)")
    out.append(f"Definition value_modulus : N := {VALUE_MODULUS[vcode]}.")
    out.append("Definition default_trusted_hosts : list (list N) := [" + "; ".join(px.coq_string_codes(x) for x in trusted) + "].")

    # hash_pin is an input of the model (sha1 is not modelled): pin its expression, the harness recomputes it with hashlib
    hp = [x for x in px.find_def(dbg, "hash_pin").body if not (isinstance(x, ast.Expr) and isinstance(x.value, ast.Constant))]
    if len(hp) != 1 or norm(hp[0]) != "return hashlib.sha1(f'{pin} added salt'.encode('utf-8', 'replace')).hexdigest()[:12]":
        raise px.Unsupported("hash_pin is no longer sha1(f'{pin} added salt')[:12]")
    out.append("(* hash_pin = first 12 hex digits of sha1(pin + ' added salt'): an input of the model (c_pin_hash) *)")
    out.append("Definition hash_pin_hex_digits : N := 12.")
    out.append(f"Definition hash_pin_salt : list N := {px.coq_string_codes(' added salt')}.")

    # ---- the configuration flags of __init__: every one is an atom (a dimension of the sweeps) or fixed
    want_params = ["self", "app", "evalex", "request_key", "console_path", "console_init_func", "show_hidden_frames",
                   "pin_security", "pin_logging"]
    got_params = [a.arg for a in init.args.args]
    if got_params != want_params or init.args.kwonlyargs or init.args.vararg or init.args.kwarg:
        raise px.Unsupported(f"DebuggedApplication.__init__ parameters are {got_params}: a configuration flag the sweep does not know")
    init_stmts = {norm(x) for x in ast.walk(init) if isinstance(x, (ast.Assign, ast.AnnAssign))}
    for need in ("self.evalex = evalex", "self.console_path = console_path", "self.pin_logging = pin_logging",
                 "self.request_key = request_key", "self.show_hidden_frames = show_hidden_frames",
                 "self.console_init_func = console_init_func"):
        if need not in init_stmts:
            raise px.Unsupported(f"__init__ no longer contains `{need}`")
    pin_if = [x for x in ast.walk(init) if isinstance(x, ast.If) and norm(x.test) == "pin_security"]
    if len(pin_if) != 1 or [norm(x) for x in pin_if[0].orelse] != ["self.pin = None"]:
        raise px.Unsupported("__init__: pin_security=False no longer just sets self.pin = None")
    reads: dict = {"request_key": set(), "show_hidden_frames": set(), "console_init_func": set()}
    stores, frame_assigns, frame_calls = [], [], []
    for m in cls.body:
        if not isinstance(m, ast.FunctionDef):
            continue
        for n in ast.walk(m):
            if isinstance(n, ast.Attribute) and isinstance(n.ctx, ast.Load) and norm(n.value) == "self" and n.attr in reads:
                reads[n.attr].add(m.name)
            if isinstance(n, (ast.Assign, ast.AnnAssign, ast.AugAssign)):
                tgts = n.targets if isinstance(n, ast.Assign) else [n.target]
                for tg in tgts:
                    if isinstance(tg, ast.Subscript) and norm(tg.value) == "self.frames":
                        stores.append((m.name, norm(n)))
                    if norm(tg) == "self.frames":
                        frame_assigns.append((m.name, norm(n.value) if n.value is not None else None))
            if (isinstance(n, ast.Call) and isinstance(n.func, ast.Attribute) and norm(n.func.value) == "self.frames"
                    and n.func.attr != "get"):
                frame_calls.append((m.name, norm(n)))
    if reads["request_key"]:
        raise px.Unsupported(f"request_key is now read in {sorted(reads['request_key'])}")
    if reads["show_hidden_frames"] - {"debug_application"}:
        raise px.Unsupported(f"show_hidden_frames is read in {sorted(reads['show_hidden_frames'])}")
    if reads["console_init_func"] - {"display_console"}:
        raise px.Unsupported(f"console_init_func is read in {sorted(reads['console_init_func'])}")
    # the frames table: created empty, and only two stores - id(frame) keys from a traceback, key 0 for the console
    if sorted(stores) != [("debug_application", "self.frames[id(frame)] = frame"), ("display_console", "self.frames[0] = _ConsoleFrame(ns)")]:
        raise px.Unsupported(f"stores into self.frames are {stores}; the model knows frames[id(frame)] (traceback) and frames[0] (console)")
    if frame_assigns != [("__init__", "{}")] or frame_calls:
        raise px.Unsupported(f"self.frames is rebound or mutated through a method: {frame_assigns} {frame_calls}")
    out.append("(* stores into self.frames: frames[id(frame)] = frame in debug_application, frames[0] = _ConsoleFrame(ns) in display_console *)")
    out.append("Definition frame_store_sites : N := 2.")

    # check_host_trust: one pinned return
    cht = [s for s in _method(cls, "check_host_trust").body if not (isinstance(s, ast.Expr) and isinstance(s.value, ast.Constant))]
    if len(cht) != 1 or norm(cht[0]) != "return host_is_trusted(environ.get('HTTP_HOST'), self.trusted_hosts)":
        raise px.Unsupported("check_host_trust is no longer host_is_trusted(environ.get('HTTP_HOST'), self.trusted_hosts)")

    # ---------------- T2: the host functions (control skeleton regenerated over the primitives of C20/Str.v)
    out.append("")
    out.append(translate_host_fn(px.find_def(utils, "_strip_port"), "strip_port", {"host": "str"}, "str"))
    out.append(translate_host_fn(px.find_def(utils, "host_is_trusted"), "host_is_trusted",
                                 {"hostname": "optstr", "trusted_list": "list"}, "res bool"))
    out.append(translate_host_fn(px.find_def(utils, "get_host"), "get_host",
                                 {"scheme": "str", "host_header": "optstr", "server": "optpair", "trusted_hosts": "optlist"}, "res str"))
    # the request-level callers: sansio.request.Request.host and wsgi.get_host
    req = px.find_class(px.load("sansio/request.py"), "Request")
    dflt = px.const(px.find_assign(req, "trusted_hosts"))
    if dflt is not None:
        raise px.Unsupported(f"Request.trusted_hosts default is {dflt!r}, not None")
    out.append(translate_get_host_caller(_method(req, "host"), "request_host", {
        "self.scheme": "v_scheme", "self.headers.get('host')": "v_host_header", "self.server": "v_server",
        "self.trusted_hosts": "v_trusted_hosts", "self.trusted_hosts or None": "(or_none v_trusted_hosts)"}, "get_host"))
    out.append(translate_get_host_caller(px.find_def(px.load("wsgi.py"), "get_host"), "wsgi_get_host", {
        "environ['wsgi.url_scheme']": "v_scheme", "environ.get('HTTP_HOST')": "v_host_header", "_get_server(environ)": "v_server",
        "trusted_hosts": "v_trusted_hosts", "trusted_hosts or None": "(or_none v_trusted_hosts)"}, "_sansio_utils.get_host"))

    # ---------------- T2 decision functions
    def body(name):
        _ALIAS.clear()
        return list(_method(cls, name).body)

    def env0(**kw):
        e = {"bools": {}, "ints": {}, "cnt": "KKeep", "ck": "CkNone", "meta": {}}
        e.update(kw)
        return e

    out.append("Definition check_pin_trust (p : pinatoms) : trust :=\n" + _indent(PinTrustFn().run(body("check_pin_trust"), env0())) + ".\n")
    out.append("Definition execute_command (r : atoms) : outcome :=\n" + _indent(ExecFn().run(body("execute_command"), env0())) + ".\n")
    out.append("Definition display_console (r : atoms) : outcome :=\n" + _indent(ConsoleFn().run(body("display_console"), env0())) + ".\n")
    out.append("Definition log_pin_request (r : atoms) : outcome :=\n" + _indent(PrintPinFn().run(body("log_pin_request"), env0())) + ".\n")

    # _fail_pin_auth: with lock: count = value; value = <expr> ; time.sleep(<long> if count > k else <short>)
    fb = [s for s in body("_fail_pin_auth") if not (isinstance(s, ast.Expr) and isinstance(s.value, ast.Constant))]
    if not (len(fb) == 2 and isinstance(fb[0], ast.With) and len(fb[0].items) == 1
            and norm(fb[0].items[0].context_expr) == "self._failed_pin_auth.get_lock()" and len(fb[0].body) == 2
            and norm(fb[0].body[0]) == "count = self._failed_pin_auth.value"
            and isinstance(fb[0].body[1], ast.Assign) and norm(fb[0].body[1].targets[0]) == "self._failed_pin_auth.value"):
        raise px.Unsupported("_fail_pin_auth is no longer (lock: count = value; value = f(count)); sleep")
    f = Fn()
    f.name = "DebuggedApplication._fail_pin_auth"
    inc = f.intexpr(fb[0].body[1].value, {"ints": {"count": "count"}})
    out.append("(* the store into the Value is reduced modulo value_modulus (ctypes truncation) *)")
    out.append(f"Definition fail_count (count : N) : N := {inc} mod value_modulus.")
    sl = fb[1]
    if not (isinstance(sl, ast.Expr) and isinstance(sl.value, ast.Call) and norm(sl.value.func) == "time.sleep"
            and len(sl.value.args) == 1 and isinstance(sl.value.args[0], ast.IfExp)):
        raise px.Unsupported("_fail_pin_auth no longer ends with time.sleep(a if test else b)")
    ie = sl.value.args[0]
    long_s, short_s = px.const(ie.body), px.const(ie.orelse)
    out.append(f"Definition fail_sleep_long (count : N) : bool := {f.cond(ie.test, {'ints': {'count': 'count'}})}.")
    out.append(f"Definition sleep_long_ms : N := {int(round(long_s * 1000))}.")
    out.append(f"Definition sleep_short_ms : N := {int(round(short_s * 1000))}.\n")

    pa = PinAuthFn()
    e = env0()
    term = pa.run(body("pin_auth"), e)
    if "lock_test" not in e["meta"]:
        raise px.Unsupported("pin_auth no longer tests the failure counter")
    if "#COUNT#" in term:
        raise px.Unsupported("pin_auth uses the failure counter outside the lock-out test")
    out.append(f"(* the lock-out test of pin_auth; its value is the parameter `locked` below *)")
    out.append(f"Definition lock_test (count : N) : bool := {e['meta']['lock_test']}.\n")
    out.append("Definition pin_auth (r : atoms) (locked : bool) : outcome * cnt_action :=\n" + _indent(term) + ".\n")
    out.append("Definition call (r : atoms) (locked : bool) : outcome * cnt_action :=\n" + _indent(CallFn().run(body("__call__"), env0())) + ".\n")
    _check_pins(dbg, cls, init, vcode, trusted)
    px.write_if_changed(os.path.join(COQ, "C20", "Gen.v"), "\n".join(out))
    return {"PIN_TIME": eval(compile(ast.Expression(pin_time), "<PIN_TIME>", "eval"), {"__builtins__": {}}),  # noqa: S307
            "typecode": vcode, "trusted": trusted, "sleep": (long_s, short_s)}


# ====================================================================== harness

def spec_strip_port(h: str) -> str:
    """port aside (property statement): a bracketed literal ends at its bracket."""
    if h.startswith("["):
        i = h.find("]")
        if i >= 0 and (len(h) == i + 1 or h[i + 1] == ":"):
            return h[:i + 1]
        return h
    return h.split(":", 1)[0]


@functools.lru_cache(maxsize=200000)
def spec_idna(s: str):
    try:
        return s.encode("idna").decode("ascii")
    except UnicodeError:
        return None


def spec_trusted(host, lst) -> bool:
    """the property's own reading: equals a listed name, or is a true subdomain of a dot-prefixed entry."""
    if not host:
        return False
    hn = spec_idna(spec_strip_port(host))
    if hn is None:
        return False
    for ref in ([lst] if isinstance(lst, str) else lst):
        dot = ref.startswith(".")
        r = ref[1:] if dot else ref
        rn = spec_idna(spec_strip_port(r))
        if rn is None:
            continue
        if hn == rn:
            return True
        if dot and hn.endswith("." + rn) and len(hn) > len(rn) + 1:
            return True
    return False


def spec_trusted_anycase(host, lst) -> bool:
    if spec_trusted(host, lst):
        return True
    if host and (host != host.lower() or any(r != r.lower() for r in ([lst] if isinstance(lst, str) else lst))):
        return spec_trusted(host.lower(), [r.lower() for r in ([lst] if isinstance(lst, str) else lst)])
    return False


def host_class(host, lst) -> str:
    """classifies an accepted-but-unlisted host for the failure key."""
    if host is None:
        return "absent"
    if host.startswith("["):
        return "v6-literal"
    names = [r.lstrip(".").split(":")[0] for r in ([lst] if isinstance(lst, str) else lst)]
    bare = host.split(":")[0]
    if any(n and (bare.endswith(n) or bare.startswith(n)) for n in names):
        return "look-alike"
    return "unlisted"


def idna_table(strings) -> str:
    ent = {}
    for s in strings:
        if s is None or s.isascii():
            continue
        out = spec_idna(s)
        ent[s] = out
    if not ent:
        return "_"
    return "|".join(f"{cps(k)}>{'!' if v is None else cps(v)}" for k, v in ent.items())


def idna_keys(host, lst):
    """every text the model may hand to idna_u for this (host, list): port-stripped and whole."""
    ks = []
    for s in [host] + [r for r in ([lst] if isinstance(lst, str) else list(lst or []))]:
        if s is None:
            continue
        for t in (s, s[1:] if s.startswith(".") else s):
            ks += [t, spec_strip_port(t), t.partition(":")[0]]
    return ks


def olist(lst) -> str:
    return "|".join(cps(x) for x in lst) if lst else "_"


def ostr(x) -> str:
    return "~" if x is None else cps(x)


LABELS = ["localhost", "evil", "evillocalhost", "com", "a", "x" * 63, "x" * 64, "", "127", "0", "1", "example",
          "xn--bcher-kva", "b\u00fccher", "LOCALHOST", "Localhost", "lo\u0441alhost", "\u00df", "xn--zz", "-", "a_b", "\u0221"]
PORTS = ["", ":80", ":443", ":8080", ":", ":abc", ":80:90", ":localhost", ":.localhost"]
V6 = ["[::1]", "[::2]", "[::1]:80", "[::2]:5000", "[::1]x", "[::1]evil.com", "[::1", "::1", "[]", "[::1]]", "[[::1]", "[::1]:",
      "[::1].localhost", "[", "]", "[::1]:80]", "[v1.x]", "[::1]\u00e9", "[::\u0661]"]
SPECIAL = ["", None, "..", ".", " localhost", "localhost ", "localhost.", ".localhost", "localhost\x00", "localhost%00",
           "\ud800", "a..b", "localhost\u3002", "sub\u3002localhost", "sub\uff0elocalhost", "\u00e9" * 70, "x" * 300,
           "127.0.0.1", "127.0.0.1.evil.com", "127.0.0.2", "127.0.0.1:5000", "evil.com:localhost", "localhost@evil.com",
           "evil.com/localhost", "localhost\t", "\tlocalhost", "localhost,evil.com", "b\u00fccher.example",
           "xn--bcher-kva.example", "sub.b\u00fccher.example", "B\u00dcCHER.example", "example.org", "www.example.com",
           "example.com", "wwwexample.com", "example.com.evil.org", "example.org:8080"]
TRUSTED_LISTS = [[".localhost", "127.0.0.1"], ["localhost"], [".localhost:8080"], ["[::1]"], ["[::1]:5000", ".localhost"],
                 [".example.com", "example.org"], ["b\u00fccher.example"], [".b\u00fccher.example"], ["xn--bcher-kva.example"],
                 ["a..b", "localhost"], ["localhost", "a..b"], [""], ["."], [], "localhost", ".localhost", ["LOCALHOST"],
                 [".com"], ["x" * 64, "localhost"], ["\ud800", "localhost"], ["::1"], [".[::1]"], ["evil.com:localhost"]]


# first in every run (also among the hosts the quick tier sends through get_host / Request)
PRIORITY_HOSTS = [
    # compatibility characters that IDNA's nameprep (NFKC) folds to ':' '.' '/' '@' ... after a trusted name
    "localhost\uff1aevil.com", "localhost\ufe55evil.com", "127.0.0.1\uff1a.evil.com", "app.localhost\uff1a80.evil.com",
    "localhost\uff1aevil.com:8080", "localhost\ufe13evil.com", "evil.com\uff1a.localhost", "example.org\uff1aevil.com",
    "evil\uff0elocalhost", "evil.com\uff0elocalhost", "evil\uff61localhost", "localhost\uff0eevil.com", "localhost\uff0fevil.com",
    "localhost\uff20evil.com", "localhost\uff03evil.com", "localhost\uff1fevil.com", "\uff4cocalhost", "\uff11\uff12\uff17.0.0.1",
    "localhost\u2024evil.com", "localhost\ufe52evil.com", "\uff3b::1\uff3d", "[::1\uff3d:80", "local\u00adhost", "localhost\u200b.evil.com",
    "localhost\uff1a80", "[::1]\uff1a80",
    # hosts that end in the characters of a default port, with and without that port
    "10.0.0.80:80", "web-0:80", "node8.cluster80:80", "192.168.0.100:80", "10.1.2.34:443", "shard-3.db44:443", "[2001:db8::80]:80",
    "[2001:db8::443]:443", "10.0.0.80:8080", "10.0.0.80", "web-0", "localhost0:80", "localhost8:80", "example.org:8080:80",
    "localhost:80", "localhost:443", "sub.localhost:80", "127.0.0.1:80", "127.0.0.1:443", "example.com:80", "example.org:443",
    "[::1]:80", "[::1]:443", ":80", ":443", "80:80", "0:80", "8:80", "443:443", "4:443", "localhost::80", "localhost:8080",
]


def gen_hosts(rng, n_random: int) -> list:
    hosts = list(PRIORITY_HOSTS) + list(SPECIAL) + list(V6)
    for a in LABELS:
        hosts.append(a)
        for b in ["localhost", "com", "example.com", "evil.com", "b\u00fccher.example", ""]:
            hosts.append(f"{a}.{b}")
    for h in ["localhost", "sub.localhost", "evillocalhost", "localhost.evil.com", "127.0.0.1", "example.com", "[::1]", "[::2]",
              "b\u00fccher.example", ""]:
        for p in PORTS:
            hosts.append(h + p)
    for _ in range(n_random):
        k = rng.randint(1, 4)
        h = ".".join(rng.choice(LABELS) for _ in range(k))
        r = rng.random()
        if r < 0.3:
            h += rng.choice(PORTS)
        elif r < 0.4:
            h = rng.choice(V6) + rng.choice(["", ".localhost", ":80", "x"])
        elif r < 0.5:
            h = "".join(rng.choice(["[", "]", ":", ".", "a", "localhost", "\u00e9", "1"]) for _ in range(rng.randint(1, 6)))
        hosts.append(h)
    seen, out = set(), []
    for h in hosts:
        if h not in seen:
            seen.add(h)
            out.append(h)
    return out


def load_corpus() -> dict:
    import glob
    import json
    from .vlib import VERIF
    out: dict = {}
    for path in sorted(glob.glob(os.path.join(VERIF, "corpus", "C20", "*.json"))):
        with open(path, encoding="utf-8") as f:
            d = json.load(f)
        for k, v in d.items():
            if isinstance(v, list):
                out.setdefault(k, []).extend(v)
    return out


def expand_history(text: str) -> str:
    """'W*11 S*245 R' -> 'WWWWWWWWWWWSSS...R'"""
    out = ""
    for tok in text.split():
        sym, _, n = tok.partition("*")
        out += sym * (int(n) if n else 1)
    return out


CONSOLE_EVALS: list = []   # code handed to the (patched) eval of the real console frame


def _console_eval_spy(self, code):
    CONSOLE_EVALS.append(code)
    return "SPY-OUTPUT"


class FakeTime:
    def __init__(self, now):
        self.now = now
        self.sleeps = []

    def time(self):
        return float(self.now)

    def sleep(self, s):
        self.sleeps.append(s)


class Spy:
    def __init__(self):
        self.calls = []
        self.id = 4242

    def eval(self, code):
        self.calls.append(code)
        return "SPY-OUTPUT"


FID = 4242
NOW = 1_800_000_000
PIN = "314-159-265"
HIST_TRUSTED = [".localhost", "127.0.0.1", "[::1]"]


class Rig:
    """one real DebuggedApplication with a spy frame, a fake clock and a log recorder."""

    def __init__(self, wd, evalex: bool, pin_on: bool, trusted=None, console_path="/console", pin_logging=True,
                 pin_security=None, **kw):
        """pin_on False with pin_security True: the PIN is switched off through WERKZEUG_DEBUG_PIN=off (the caller keeps the
        variable set while this rig is in use)."""
        from werkzeug.test import create_environ
        self.wd = wd
        self.inner_calls = 0
        self.console_path = console_path
        self.pin_logging = pin_logging
        self._tbl: dict = {}
        self.configured = None     # the trusted list this instance was configured with, when it must not be read off the instance

        def inner(environ, start_response):
            self.inner_calls += 1
            start_response("200 OK", [("Content-Type", "text/plain")])
            return [b"INNER-APP"]
        self.app = wd.DebuggedApplication(inner, evalex=evalex, pin_security=pin_on if pin_security is None else pin_security,
                                          console_path=console_path, pin_logging=pin_logging, **kw)
        self.default_trusted = list(self.app.trusted_hosts)
        self.pin_on = pin_on
        if pin_on:
            self.cookie_name = self.app.pin_cookie_name
            self.app.pin = PIN
        else:
            self.cookie_name = "__wzd_unused"
        if trusted is not None:
            self.app.trusted_hosts = list(trusted)
        self.hash = wd.hash_pin(PIN)
        self.pin_value = PIN
        self.spy = Spy()
        self.base = create_environ("/", "http://localhost/")
        self.logs = []
        self.frames_before = None

    def reset(self, count=0):
        self.app._failed_pin_auth.value = count
        self.app.frames.clear()
        self.app.frames[FID] = self.spy
        self.spy.calls.clear()
        self.logs.clear()
        self.wd.time.sleeps.clear()
        if not self.pin_on:
            # pin_auth with the PIN off looks up pin_cookie_name, which (re)computes and stores a PIN
            self.app._pin = None
            self.app.__dict__.pop("_pin_cookie", None)

    def request(self, args: list, path: str, host, cookie):
        """returns (observation string, new count, sleep ms or None, details)"""
        from urllib.parse import urlencode
        e = dict(self.base)
        e["QUERY_STRING"] = urlencode(args)
        e["PATH_INFO"] = path
        if host is None:
            e.pop("HTTP_HOST", None)
        else:
            e["HTTP_HOST"] = host
        if isinstance(cookie, tuple):      # ("raw", header text)
            e["HTTP_COOKIE"] = cookie[1]
        elif cookie is not None:
            e["HTTP_COOKIE"] = f"{self.cookie_name}={cookie}"
        self.spy.calls.clear()
        self.logs.clear()
        self.wd.time.sleeps.clear()
        self.frames_before = list(self.app.frames)
        CONSOLE_EVALS.clear()
        n_inner = self.inner_calls
        sh = []
        det = {}
        try:
            body = b"".join(self.app(e, lambda s, h, x=None: sh.append((s, h))))
        except Exception as ex:  # noqa: BLE001
            from werkzeug.exceptions import BadRequestKeyError
            name = "KeyError" if isinstance(ex, BadRequestKeyError) else type(ex).__name__
            obs = "raise:" + name
            body = b""
            sh = [("exc", [])]
        else:
            status, headers = sh[0]
            ctype = dict(headers).get("Content-Type", "")
            setck = [v for k, v in headers if k == "Set-Cookie" and v.startswith("__wzd")]
            det["set_cookie"] = setck
            if self.spy.calls or CONSOLE_EVALS:
                obs = "eval" if body == b"SPY-OUTPUT" and status.startswith("200") else "eval?"
            elif self.inner_calls > n_inner:
                obs = "app"
            elif status.startswith("400"):
                obs = "secerr"
            elif ctype.startswith("application/json"):
                import json
                j = json.loads(body)
                ck = "none"
                if setck:
                    ck = "delete" if "Max-Age=0" in setck[0] else ("set" if f"={NOW}|{self.hash}" in setck[0] or "|" in setck[0] else "other")
                obs = f"pin:{int(j['auth'])},{int(j['exhausted'])},{ck}"
            elif b"CONSOLE_MODE = true" in body:
                obs = "console:" + ("1" if b"EVALEX_TRUSTED = true" in body else "0")
                det["secret_in_page"] = self.app.secret.encode() in body
            elif "ETag" in dict(headers) or status.startswith("404"):
                obs = "resource"
            elif status.startswith("200") and body == b"":
                obs = "printpin:" + ("1" if any(PIN in str(a) for a in self.logs) else "0")
            else:
                obs = f"other:{status}:{ctype}"
        det["pin_logged"] = any(PIN in str(a) for a in self.logs)
        det["frame0"] = 0 in self.app.frames
        det["evals"] = list(self.spy.calls) + list(CONSOLE_EVALS)
        sl = self.wd.time.sleeps
        ms = int(round(sl[0] * 1000)) if sl else None
        return obs, self.app._failed_pin_auth.value, ms, det

    def model_line(self, args, path, host, cookie, count, evalex) -> str:
        frames = ",".join(str(k) for k in (self.frames_before if self.frames_before is not None else [FID])) or "_"
        cfg = (f"{int(evalex)} {ostr(self.console_path)} {cps(self.app.secret)} {frames} "
               f"{cps(self.pin_value) if self.pin_on else '~'} {cps(self.hash)} {int(self.pin_logging)} "
               f"{olist(self.configured if self.configured is not None else self.app.trusted_hosts)}")
        a = "|".join(f"{cps(k)}={cps(v)}" for k, v in args) if args else "_"
        tkey = (host, tuple(self.app.trusted_hosts), tuple(self.configured or ()))
        tbl = self._tbl.get(tkey)
        if tbl is None:
            tbl = self._tbl[tkey] = idna_table(idna_keys(host, list(self.app.trusted_hosts) + list(self.configured or [])))
        return f"run {cfg} {a} {cps(path)} {ostr(host)} {ostr(cookie)} {NOW} {count} {tbl}"


COOKIES = {
    "valid": lambda h, T: f"{NOW - 5}|{h}",
    "valid-edge": lambda h, T: f"{NOW - T + 1}|{h}",
    "expired-edge": lambda h, T: f"{NOW - T}|{h}",
    "expired": lambda h, T: f"{NOW - T - 1000}|{h}",
    "wrong-hash": lambda h, T: f"{NOW - 5}|{'0' * 12}",
    "wrong-hash-expired": lambda h, T: f"{NOW - T - 1000}|{'f' * 12}",
    "no-bar": lambda h, T: f"{NOW - 5}{h}",
    "non-int": lambda h, T: f"12x|{h}",
    "empty-ts": lambda h, T: f"|{h}",
    "plus-ts": lambda h, T: f"+{NOW - 5}|{h}",
    "underscore-ts": lambda h, T: f"{str(NOW - 5)[:4]}_{str(NOW - 5)[4:]}|{h}",
    "neg-ts": lambda h, T: f"-5|{h}",
    "two-bars": lambda h, T: f"{NOW - 5}|{h}|x",
    "huge-ts": lambda h, T: f"{10 ** 30}|{h}",
    "absent": lambda h, T: None,
}
COOKIE_VALID = {"valid", "valid-edge", "plus-ts", "underscore-ts", "huge-ts"}
QUICK_COOKIES = ["valid", "valid-edge", "expired-edge", "expired", "wrong-hash", "no-bar", "non-int", "two-bars", "absent"]

PRODUCT_HOSTS = ["localhost", "localhost:5000", "sub.localhost", "a.b.localhost:80", "127.0.0.1", "127.0.0.1:5000",
                 "evillocalhost", "localhost.evil.com", "evil.com", "127.0.0.1.evil.com", "127.0.0.2", None, "",
                 "LOCALHOST", "Sub.LocalHost", "b\u00fccher.localhost", "xn--bcher-kva.localhost", "b\u00fccher.example",
                 "[::1]", "[::1]:5000", "[::2]", "[::1]evil.com", "a..localhost", ".localhost", "x" * 64 + ".localhost",
                 "localhost.", "localhost:80:evil", "evil.com:localhost", "lo\u0441alhost", "sub\u3002localhost", "\ud800",
                 "localhost\uff1aevil.com", "127.0.0.1\ufe55.evil.com", "evil.com\uff0elocalhost"]
QUICK_HOSTS = ["localhost:5000", "sub.localhost", "127.0.0.1", "evillocalhost", "localhost.evil.com", "evil.com", None,
               "LOCALHOST", "b\u00fccher.localhost", "[::1]:5000", "[::2]", "a..localhost", ".localhost", "x" * 64 + ".localhost",
               "127.0.0.1.evil.com", "sub\u3002localhost", "localhost\uff1aevil.com"]


def commands(secret_val):
    """(label, args-without-secret, path, needs) ; the secret, frame and pin variants are added by the product."""
    return [
        ("eval", [("__debugger__", "yes"), ("cmd", "1+1")], "/"),
        ("eval-console-frame", [("__debugger__", "yes"), ("cmd", "dir()")], "/console"),
        ("console", [], "/console"),
        ("console-dbg", [("__debugger__", "yes")], "/console"),
        ("pinauth-right", [("__debugger__", "yes"), ("cmd", "pinauth"), ("pin", PIN)], "/"),
        ("pinauth-right-spaced", [("__debugger__", "yes"), ("cmd", "pinauth"), ("pin", "  " + PIN.replace("-", "") + "\t")], "/"),
        ("pinauth-wrong", [("__debugger__", "yes"), ("cmd", "pinauth"), ("pin", "000-000-000")], "/"),
        ("pinauth-nopin", [("__debugger__", "yes"), ("cmd", "pinauth")], "/"),
        ("printpin", [("__debugger__", "yes"), ("cmd", "printpin")], "/"),
        ("resource", [("__debugger__", "yes"), ("cmd", "resource"), ("f", "style.css")], "/"),
        ("resource-noarg", [("__debugger__", "yes"), ("cmd", "resource"), ("f", "")], "/"),
        ("none", [], "/"),
        ("nodebugger", [("__debugger__", "no"), ("cmd", "1+1")], "/"),
        ("nocmd", [("__debugger__", "yes")], "/"),
    ]


def spec_frame_known(frm) -> bool:
    if frm is None:
        return False
    try:
        return int(frm) == FID
    except ValueError:
        return False


def run(chk: Check, consts: dict | None) -> None:
    import werkzeug.debug as wd
    import werkzeug.sansio.utils as su
    import werkzeug.wsgi as wwsgi
    from werkzeug.exceptions import SecurityError
    from werkzeug.test import create_environ
    from werkzeug.wrappers import Request
    from .vlib import with_timeout

    rng = chk.rng
    quick = chk.tier == "quick"
    lines: list[str] = []
    impl_out: list[str] = []
    labels: list[str] = []

    def add(line, impl, label):
        lines.append(line)
        impl_out.append(impl)
        labels.append(label)

    # ------------------------------------------------------------ live constants vs the regenerated ones
    if consts is not None:
        live_app = wd.DebuggedApplication(lambda e, s: [], evalex=True, pin_security=False)
        live = {"PIN_TIME": wd.PIN_TIME, "typecode": live_app._failed_pin_auth.get_obj()._type_,
                "trusted": list(live_app.trusted_hosts)}
        for k, v in live.items():
            if consts.get(k) != v:
                chk.broken("translator", f"C20/Gen.v constant {k}", f"source text gives {consts.get(k)!r}, running code has {v!r}")
    from werkzeug.exceptions import BadRequest
    if not (issubclass(SecurityError, BadRequest) and SecurityError.code == 400):
        chk.fail("securityerror-not-400", "SecurityError is no longer a 400-class error", {"kind": "class", "mro": [c.__name__ for c in SecurityError.__mro__]})
    import hashlib
    for pin_ in [PIN, "", "123-456-789", "p\u00efn", "x" * 100]:
        if wd.hash_pin(pin_) != hashlib.sha1(f"{pin_} added salt".encode("utf-8", "replace")).hexdigest()[:12]:
            chk.broken("contract", "hash_pin", f"hash_pin({pin_!r}) is not the first 12 hex digits of sha1(pin + ' added salt')")
    T = wd.PIN_TIME

    # ------------------------------------------------------------ A. host pairs
    hosts = gen_hosts(rng, 300 if quick else 6000)
    contract_bad = 0
    for h in hosts:
        if h is None or h.isascii():
            continue
        for s in {h, spec_strip_port(h)}:
            if s.isascii():
                continue
            try:
                o = s.encode("idna")
            except UnicodeError:
                chk.count("idna:error")
                continue
            except Exception as e:  # noqa: BLE001
                chk.broken("contract", "str.encode(idna)", f"{s!r} raises {type(e).__name__}, contract says UnicodeError")
                continue
            labs = o.split(b".")
            if not (o.isascii() and all(0 < len(x) < 64 for x in labs[:-1]) and len(labs[-1]) < 64):
                contract_bad += 1
                chk.broken("contract", "str.encode(idna)", f"{s!r} -> {o!r} violates 'ASCII with non-empty labels'")
            chk.count("idna:ok")

    def do_hit(h, lst):
        try:
            r = with_timeout(su.host_is_trusted, 5, h, lst)
            impl = "ok " + ("1" if r else "0")
            if r not in (True, False):
                impl = f"ok-nonbool:{r!r}"
        except Exception as e:  # noqa: BLE001
            r = None
            impl = "exn:" + type(e).__name__
            chk.fail(f"host-raises:{type(e).__name__}", f"host_is_trusted raises {type(e).__name__}: {e}",
                     {"kind": "host", "host": h, "trusted": lst})
        if r is True and not spec_trusted_anycase(h, lst):
            chk.fail(f"host-accepted:{host_class(h, lst)}", "host_is_trusted accepts a host that neither equals a listed name nor "
                     "is a subdomain of a dot-prefixed entry", {"kind": "host", "host": h, "trusted": lst})
        lref = [lst] if isinstance(lst, str) else lst
        add(f"hit {ostr(h)} {olist(lref)} {idna_table(idna_keys(h, lref))}", impl, "hit")
        chk.count("hit:" + impl.split(":")[0])
        chk.case(("hit", h, tuple(lref)), nontrivial=bool(h), sample={"op": "host_is_trusted", "host": h, "trusted": lst, "impl": impl})

    # corpus first (fixed findings)
    corpus = load_corpus()
    for ent in corpus.get("host_pairs", []):
        do_hit(ent["host"], ent["trusted"])
    for lst in TRUSTED_LISTS:
        for h in hosts:
            do_hit(h, lst)

    # strip_port by itself
    for h in hosts:
        if h:
            try:
                impl = cps(su._strip_port(h))
            except Exception as e:  # noqa: BLE001
                impl = "exn:" + type(e).__name__
            add(f"sp {cps(h)}", impl, "sp")

    # get_host / wsgi.get_host / Request.host (+ url, base_url, host_url, url_root) through the real Request wrapper
    gh_hosts = hosts if not quick else hosts[:300]
    servers = [("localhost", 80), ("localhost", 8080), ("::1", 5000), ("[::1]", 443), ("/tmp/sock", None), ("127.0.0.1", 443),
               ("evil.com", 80), ("", 80), ("b\u00fccher.example", 80), ("a..b", 80), None,
               ("10.0.0.80", 80), ("web-0", 80), ("10.1.2.34", 443), ("shard-3.db44", 443), ("2001:db8::80", 80), ("node8", 8080)]
    gh_lists = [None, [".localhost", "127.0.0.1"], ["[::1]"], [".example.com", "example.org:8080"], ["localhost"], [], ()]
    req_attrs = ["host", "url", "base_url", "host_url", "url_root"]
    n_gh = 0

    def outcome(fn):
        try:
            return "ok " + cps(with_timeout(fn, 5))
        except SecurityError:
            return "exn:SecurityError"
        except Exception as e:  # noqa: BLE001
            return "exn:" + type(e).__name__

    for i, h in enumerate(gh_hosts):
        for scheme in (["http", "https"] if quick else ["http", "https", "ws", "wss", "ftp"]):
            for li, tl in enumerate(gh_lists):
                server = servers[(i + len(scheme) + li) % len(servers)] if (h is None or i % 4 == 0) else ("localhost", 80)
                hh = h
                env = create_environ("/p", "http://localhost/")
                env["wsgi.url_scheme"] = scheme
                env.pop("HTTP_HOST", None)
                env.pop("SERVER_NAME", None)
                env.pop("SERVER_PORT", None)
                if hh is not None:
                    env["HTTP_HOST"] = hh
                if server is not None:
                    env["SERVER_NAME"] = server[0]
                    if server[1] is not None:
                        env["SERVER_PORT"] = str(server[1])
                inp = {"kind": "gethost", "scheme": scheme, "host": hh, "server": server, "trusted": tl}
                want = spec_get_host(scheme, hh, server)
                want_refused = tl is not None and not spec_trusted_anycase(want, list(tl))
                entries = [("sansio.get_host", lambda: su.get_host(scheme, hh, server, tl)),
                           ("wsgi.get_host", lambda: wwsgi.get_host(env, tl)),
                           ("Request.host[class attribute]", lambda: _req_attr(Request, env, tl, "host", True))]
                entries += [(f"Request.{a}", (lambda a=a: _req_attr(Request, env, tl, a, False))) for a in req_attrs]
                obs = []
                for name, fn in entries:
                    o = outcome(fn)
                    is_host = name in ("sansio.get_host", "wsgi.get_host", "Request.host", "Request.host[class attribute]")
                    if is_host:
                        obs.append(o)
                        if o.startswith("exn:") and o != "exn:SecurityError":
                            chk.fail(f"gethost-raises:{o[4:]}", f"{name} fails with {o[4:]} instead of SecurityError", dict(inp, entry=name))
                        if o.startswith("ok ") and uncps(o[3:]) != want:
                            chk.fail("gethost-value", f"{name} returns {uncps(o[3:])!r}; the host with only the scheme's default port removed is {want!r}",
                                     dict(inp, entry=name))
                    if want_refused and o.startswith("ok "):
                        empty = tl is not None and len(tl) == 0
                        chk.fail(f"accepted-untrusted:{'empty-trusted-list' if empty else host_class(want, list(tl))}",
                                 f"{name} accepts {uncps(o[3:])!r} although the trusted list {tl!r} does not admit the host", dict(inp, entry=name))
                if len(set(obs)) != 1:
                    chk.broken("correspondence", "get_host entry points disagree", f"{obs} for host {hh!r} server {server!r} trusted {tl!r}",
                               case=inp)
                sn = server[0] if server else None
                sp = str(server[1]) if server and server[1] is not None else None
                # keys idna may be asked about: the assembled host is derived from header / server name
                cand = [hh, sn, f"[{sn}]" if sn else None, f"{sn}:{sp}" if sn else None, f"[{sn}]:{sp}" if sn else None, want]
                cand += [c[:-3] for c in cand if c and c.endswith(":80")] + [c[:-4] for c in cand if c and c.endswith(":443")]
                keys = []
                for c in cand:
                    keys += idna_keys(c, list(tl) if tl else [])
                rest_ = f"{cps(scheme)} {ostr(hh)} {ostr(sn)} {ostr(sp)} {'~~' if tl is None else olist(list(tl))} {idna_table(keys)}"
                add("gh " + rest_, obs[0], "gh")
                add("wgh " + rest_, obs[1], "wsgi.get_host")
                add("rh " + rest_, obs[3], "Request.host")
                n_gh += 1
                chk.case(("gh", scheme, hh, server, tuple(tl) if tl is not None else None), nontrivial=tl is not None)
    chk.count("get_host cases", n_gh)

    # int() model (used for frm and the cookie time stamp)
    for s in ["", " ", "1", " 12 ", "+5", "-5", "--5", "1_0", "_1", "1_", "1__0", "0x10", "007", "1 2", "12x", "\t3\n", "\x1c4", "+", "-",
              "4242", "4242.0", "1e3", "\u0661", "4\u0662", "\u00a05", "5\u2003", "+_5", "0_0", "١٢"] + [
            "".join(rng.choice("0123456789 +-_x\t") for _ in range(rng.randint(0, 6))) for _ in range(400 if quick else 5000)]:
        try:
            impl = "ok " + str(int(s))
        except ValueError:
            impl = "ValueError"
        add(f"int {cps(s)}", impl, "int")

    # ------------------------------------------------------------ B. the debugger
    real_time, real_log, real_ceval = wd.time, wd._log, wd._ConsoleFrame.eval
    fake = FakeTime(NOW)
    try:
        wd.time = fake
        wd._ConsoleFrame.eval = _console_eval_spy
        rigs = {}

        def logrec(*a, **k):
            for r in rigs.values():
                r.logs.append(a)
        wd._log = logrec
        for evalex in (True, False):
            for pin_on in (True, False):
                rigs[(evalex, pin_on)] = Rig(wd, evalex, pin_on, HIST_TRUSTED)
        dflt = Rig(wd, True, True)
        rigs["default"] = dflt

        def judge(rig, label, evalex, pin_on, args, path, host, ckname, cookie, count0, obs, count1, det):
            """impl-level oracles: the property statement on this one request."""
            a = dict(args)
            inp = {"kind": "request", "command": label, "evalex": evalex, "pin_on": pin_on, "args": args, "path": path, "host": host,
                   "cookie": ckname, "trusted": list(rig.app.trusted_hosts), "count": count0, "observed": obs}
            trusted_host = spec_trusted_anycase(host, rig.app.trusted_hosts)
            if det.get("evals"):
                missing = []
                if not evalex:
                    missing.append("evalex")
                if not trusted_host:
                    missing.append("host")
                if a.get("s") != rig.app.secret:
                    missing.append("secret")
                if not spec_frame_known(a.get("frm")):
                    missing.append("frame")
                if pin_on and ckname not in COOKIE_VALID:
                    missing.append("pin-cookie")
                if a.get("__debugger__") != "yes":
                    missing.append("debugger-flag")
                if missing:
                    chk.fail("eval-without:" + "+".join(missing), f"code was evaluated without: {', '.join(missing)}", inp)
            if not trusted_host:
                if obs.startswith(("console", "pin:", "printpin")):
                    chk.fail("answered-untrusted:" + obs.split(":")[0], f"{obs.split(':')[0]} endpoint answered an untrusted Host", inp)
                if det.get("pin_logged"):
                    chk.fail("answered-untrusted:pin-logged", "PIN written to the log for an untrusted Host", inp)
                if det.get("frame0"):
                    chk.fail("answered-untrusted:console-frame", "console frame created for an untrusted Host", inp)
                if det.get("set_cookie"):
                    chk.fail("answered-untrusted:cookie", "PIN cookie set or cleared for an untrusted Host", inp)
                if count1 != count0:
                    chk.fail("answered-untrusted:counter", "failure counter moved by a request from an untrusted Host", inp)
            if obs.startswith("raise:") and obs != "raise:KeyError":
                chk.fail(f"debugger-raises:{obs[6:]}", f"DebuggedApplication fails with {obs[6:]} instead of a 400 SecurityError", inp)
            if obs.startswith(("other", "eval?")):
                chk.broken("correspondence", "unclassified response", f"{obs} for {inp}", case=inp)

        def one(rig, key, label, args, path, host, ckname, count0=0):
            evalex, pin_on = key if isinstance(key, tuple) else (True, True)
            cookie = COOKIES[ckname](rig.hash, T)
            rig.reset(count0)
            obs, count1, ms, det = with_timeout(rig.request, 10, args, path, host, cookie)
            judge(rig, label, evalex, pin_on, args, path, host, ckname, cookie, count0, obs, count1, det)
            add(rig.model_line(args, path, host, cookie, count0, evalex), f"{obs} c={count1} s={'-' if ms is None else ms} f0={int(det['frame0'])}",
                f"run:{label}")
            chk.count("outcome:" + obs.split(":")[0].split(",")[0])
            chk.case(("run", key, label, tuple(args), path, host, ckname, count0), nontrivial=obs != "app",
                     sample={"op": "request", "command": label, "host": host, "cookie": ckname, "evalex": evalex, "pin_on": pin_on,
                             "impl": obs})
            return obs, count1

        # corpus: the fixed findings, through the debugger
        for host in corpus.get("debugger_hosts", []):
            one(dflt, "default", "pinauth-right", [("__debugger__", "yes"), ("cmd", "pinauth"), ("pin", PIN), ("s", dflt.app.secret)], "/", host, "absent")
        one(rigs[(True, True)], (True, True), "eval", [("__debugger__", "yes"), ("cmd", "1+1"), ("frm", str(FID)), ("s", rigs[(True, True)].app.secret)],
            "/", "[::2]", "valid")

        # the full product
        phosts = QUICK_HOSTS if quick else PRODUCT_HOSTS
        pcookies = QUICK_COOKIES if quick else list(COOKIES)
        frames = [str(FID), "777"] if quick else [str(FID), "777", None, "abc", f" {FID} ", "0", f"+{FID}", "4_242"]
        n_prod = 0
        for key in [(True, True), (True, False), (False, True), (False, False)]:
            rig = rigs[key]
            secrets = [rig.app.secret, "wrongsecret0000000000", None]
            for label, base_args, path in commands(rig.app.secret):
                for sec in secrets:
                    for frm in frames:
                        args = list(base_args)
                        if frm is not None:
                            args.append(("frm", frm))
                        if sec is not None:
                            args.append(("s", sec))
                        for host in phosts:
                            for ck in pcookies:
                                one(rig, key, label, args, path, host, ck)
                                n_prod += 1
        chk.count("product cases", n_prod)
        # default trusted list: a smaller product (all hosts, eval + endpoints)
        for label, base_args, path in commands(dflt.app.secret):
            for host in PRODUCT_HOSTS:
                for ck in ["valid", "absent"]:
                    one(dflt, "default", label, list(base_args) + [("frm", str(FID)), ("s", dflt.app.secret)], path, host, ck)
        # every configuration flag of __init__: evalex x PIN (on / pin_security=False / WERKZEUG_DEBUG_PIN=off) x pin_logging x
        # console_path (default / None / another path); show_hidden_frames, console_init_func and request_key (fixed in the model:
        # no gate reads them) alternate over the rigs
        n_cfg = 0
        old_env = os.environ.get("WERKZEUG_DEBUG_PIN")
        try:
            idx = 0
            for evalex in (True, False):
                for pin_mode in ("on", "off", "env-off"):
                    for plog in (True, False):
                        for cpath in ("/console", None, "/c2"):
                            idx += 1
                            extra = {}
                            if idx % 2:
                                extra["show_hidden_frames"] = True
                            if idx % 3 == 0:
                                extra["console_init_func"] = lambda: {"marker": 1}
                            if idx % 5 == 0:
                                extra["request_key"] = "other.key"
                            if pin_mode == "env-off":
                                os.environ["WERKZEUG_DEBUG_PIN"] = "off"
                            elif old_env is None:
                                os.environ.pop("WERKZEUG_DEBUG_PIN", None)
                            rig = Rig(wd, evalex, pin_mode == "on", HIST_TRUSTED, console_path=cpath, pin_logging=plog,
                                      pin_security=(pin_mode != "off"), **extra)
                            rigs[("cfg", idx)] = rig
                            if pin_mode == "env-off" and rig.app.pin is not None:
                                chk.broken("correspondence", "WERKZEUG_DEBUG_PIN=off", "the PIN is not None")
                            cmds = commands(rig.app.secret) + [("console-other-path", [], "/c2"),
                                                               ("eval-other-path", [("__debugger__", "yes"), ("cmd", "1+1")], "/c2")]
                            for label, base_args, path in cmds:
                                if pin_mode == "env-off" and label.startswith("pinauth"):
                                    continue   # pin_cookie_name is None there: set_cookie(None, ...) fails after the gates (observation)
                                for sec in (rig.app.secret, "wrongsecret0000000000"):
                                    for host in ("localhost", "evil.com", None):
                                        for ck in ("valid", "wrong-hash", "absent"):
                                            one(rig, (evalex, pin_mode == "on"), label, list(base_args) + [("frm", str(FID)), ("s", sec)], path, host, ck)
                                            n_cfg += 1
                            del rigs[("cfg", idx)]
        finally:
            if old_env is None:
                os.environ.pop("WERKZEUG_DEBUG_PIN", None)
            else:
                os.environ["WERKZEUG_DEBUG_PIN"] = old_env
        chk.count("configuration sweep cases (36 configurations)", n_cfg)

        # Cookie headers as they arrive (several cookies of the name, quoting, several bars): the value the model gets is
        # what werkzeug's own parse_cookie returns for the name (C13's domain)
        import werkzeug.http as whttp
        rig = rigs[(True, True)]
        v_ok, v_stale = COOKIES["valid"](rig.hash, T), COOKIES["wrong-hash"](rig.hash, T)
        nm = rig.cookie_name
        raw_cases = [(f"x=1; {nm}={v_ok}; {nm}={v_stale}", True), (f"{nm}={v_stale}; {nm}={v_ok}", False), (f'{nm}="{v_ok}"', True),
                     (f"{nm}={v_ok}|x", False), (f"{nm}=", False), (f"y=2;{nm}={v_ok} ;z", True), (f"{nm}x={v_ok}", False),
                     (f"{nm}={v_ok[:-1]}", False), (f"{nm}= {v_ok}", True), (f"{nm}={NOW - T}|{rig.hash}", False)]
        for header, want_trust in raw_cases:
            val = whttp.parse_cookie(header).get(nm)
            for label, args in (("eval", [("__debugger__", "yes"), ("cmd", "1+1"), ("frm", str(FID)), ("s", rig.app.secret)]),
                                ("pinauth-wrong", [("__debugger__", "yes"), ("cmd", "pinauth"), ("pin", "0"), ("s", rig.app.secret)])):
                rig.reset(3)
                obs, c1, ms, det = with_timeout(rig.request, 10, args, "/", "localhost", ("raw", header))
                inp = {"kind": "cookie-header", "header": header.replace(rig.hash, "<hash_pin(pin)>"), "command": label, "observed": obs}
                if label == "eval" and (obs == "eval") != want_trust:
                    chk.fail("pin-cookie:" + ("refused" if want_trust else "trusted"), f"Cookie header gives {obs}, PIN trust expected {want_trust}", inp)
                if label == "pinauth-wrong" and obs.startswith("pin:1") != want_trust:
                    chk.fail("pin-cookie:" + ("refused" if want_trust else "trusted"), f"pinauth with this Cookie header gives {obs}", inp)
                add(rig.model_line(args, "/", "localhost", val, 3, True),
                    f"{obs} c={c1} s={'-' if ms is None else ms} f0={int(det['frame0'])}", "cookie-header")
                chk.case(("cookie-header", header.replace(rig.hash, "H"), label), nontrivial=True)
        chk.count("raw Cookie header cases", 2 * len(raw_cases))

        # real tracebacks: the keys debug_application stores in frames are id(frame), never 0 (the model takes them as positive)
        import io as _io

        def boom(environ, start_response):
            local_marker = 1
            raise RuntimeError(f"boom {local_marker}")
        tb_app = wd.DebuggedApplication(boom, evalex=True, pin_security=False)
        for _ in range(3):
            env = create_environ("/", "http://localhost/")
            env["wsgi.errors"] = _io.StringIO()
            try:
                b"".join(tb_app(env, lambda *a, **k: None))
            except Exception as e:  # noqa: BLE001
                chk.broken("correspondence", "traceback rendering", f"{type(e).__name__}: {e}")
        keys = list(tb_app.frames)
        if not keys or 0 in keys or any(k != id(v) or not isinstance(k, int) or k <= 0 for k, v in tb_app.frames.items()):
            chk.fail("frame-ids", "a traceback stored a frame under a key that is not id(frame) > 0", {"kind": "frames", "keys": keys[:10]})
        chk.count("traceback frames registered", len(keys))

        # instance isolation: trusted_hosts, the failure counter, the frames table and the secret are per DebuggedApplication
        # instance (all created in __init__).  Configuring or using one instance must not open another one.
        pristine = list(consts["trusted"]) if consts else [".localhost", "127.0.0.1"]
        ADDED = ["dev.example.com", "sub.evil.test", "10.9.8.7", "other.example.org"]
        for how in ("append", "extend", "iadd", "insert", "assign"):
            rb = Rig(wd, True, False)            # created before a is configured
            ra = Rig(wd, True, False)
            if how == "append":
                for h_ in ADDED:
                    ra.app.trusted_hosts.append(h_)
            elif how == "extend":
                ra.app.trusted_hosts.extend(ADDED[:1] + [".evil.test"] + ADDED[2:])
            elif how == "iadd":
                ra.app.trusted_hosts += ADDED[:1] + [".evil.test"] + ADDED[2:]
            elif how == "insert":
                for h_ in ADDED:
                    ra.app.trusted_hosts.insert(0, h_)
            else:
                ra.app.trusted_hosts = pristine + ADDED
            rc = Rig(wd, True, False)            # created after
            rigs[("iso", "a")], rigs[("iso", "b")], rigs[("iso", "c")] = ra, rb, rc
            for who, rg in (("created-before", rb), ("created-after", rc)):
                rg.configured = list(pristine)
                if list(rg.app.trusted_hosts) != pristine:
                    chk.fail("instance-isolation:trusted_hosts", f"trusted_hosts of an untouched instance ({who}) is {rg.app.trusted_hosts!r} after "
                             f"another instance was configured by {how}", {"kind": "isolation", "how": how, "instance": who, "added": ADDED})
                for label, base_args, path in commands(rg.app.secret):
                    for host in ADDED + ["dev.example.com:5000", "localhost"]:
                        args = list(base_args) + [("frm", str(FID)), ("s", rg.app.secret)]
                        rg.reset(0)
                        obs, c1, ms, det = with_timeout(rg.request, 10, args, path, host, None)
                        inp = {"kind": "isolation", "how": how, "instance": who, "command": label, "host": host, "observed": obs,
                               "configured": pristine, "other_instance_added": ADDED}
                        if host != "localhost" and (obs.startswith(("eval", "console", "pin:", "printpin")) or det["pin_logged"] or det["frame0"]):
                            chk.fail("instance-isolation:trusted_hosts", f"{label} answered Host {host!r} on an instance whose own trusted list is "
                                     f"{pristine!r}: the host was only added to another instance ({how})", inp)
                        add(rg.model_line(args, path, host, None, 0, True),
                            f"{obs} c={c1} s={'-' if ms is None else ms} f0={int(det['frame0'])}", "isolation")
                        chk.case(("isolation", how, who, label, host), nontrivial=True)
            # the configured instance itself does accept what it was given (the stage is not vacuous)
            ra.reset(0)
            if not with_timeout(ra.request, 10, [], "/console", "dev.example.com", None)[0].startswith("console"):
                chk.broken("correspondence", "instance isolation stage", f"the instance configured by {how} does not accept the added host")
            # counter, frames, secret
            ra.reset(0)
            for _ in range(12):
                with_timeout(ra.request, 10, [("__debugger__", "yes"), ("cmd", "pinauth"), ("pin", "0"), ("s", ra.app.secret)], "/", "localhost", None)
            with_timeout(ra.request, 10, [], "/console", "localhost", None)
            for who, rg in (("created-before", rb), ("created-after", rc)):
                rg.app.frames.clear()
                inp = {"kind": "isolation", "instance": who}
                if rg.app._failed_pin_auth.value != 0 or rg.app._failed_pin_auth is ra.app._failed_pin_auth:
                    chk.fail("instance-isolation:counter", "failed PIN attempts on one instance count on another", inp)
                if 0 in rg.app.frames or rg.app.frames is ra.app.frames:
                    chk.fail("instance-isolation:frames", "the console frame of one instance exists on another", inp)
                if rg.app.secret == ra.app.secret:
                    chk.fail("instance-isolation:secret", "two instances share the secret", inp)
                o1 = with_timeout(rg.request, 10, [("__debugger__", "yes"), ("cmd", "1+1"), ("frm", "0"), ("s", rg.app.secret)], "/", "localhost", None)[0]
                rg.app.frames[FID] = rg.spy     # a known frame, the other instance's secret
                o2 = with_timeout(rg.request, 10, [("__debugger__", "yes"), ("cmd", "1+1"), ("frm", str(FID)), ("s", ra.app.secret)], "/", "localhost", None)[0]
                if o1 == "eval":
                    chk.fail("instance-isolation:frames", "evaluation in a console frame that was created on another instance", inp)
                if o2 == "eval":
                    chk.fail("instance-isolation:secret", "the secret of one instance opens another", inp)
            for k_ in ("a", "b", "c"):
                del rigs[("iso", k_)]
        chk.count("instance isolation stage (5 ways of configuring another instance)", 5)

        # console frame (frames[0]) across requests: every sequence up to length 4 over
        # {console page trusted / untrusted, eval in frame 0 trusted / untrusted, eval in the spy frame};
        # the frames table is carried by the live app and handed to the model step by step
        import itertools as _it
        n_seq = 0
        for key in [(True, False), (False, False), (True, True)]:
            rig = rigs[key]
            sec_ = rig.app.secret
            SEQ = {
                "P": ([], "/console", "localhost"),
                "U": ([], "/console", "evil.com"),
                "E": ([("__debugger__", "yes"), ("cmd", "1+1"), ("frm", "0"), ("s", sec_)], "/", "sub.localhost:5000"),
                "X": ([("__debugger__", "yes"), ("cmd", "1+1"), ("frm", "0"), ("s", sec_)], "/", "evil.com"),
                "K": ([("__debugger__", "yes"), ("cmd", "2+2"), ("frm", str(FID)), ("s", sec_)], "/", "localhost"),
            }
            ck = COOKIES["valid"](rig.hash, T)
            for L in range(1, 5 if key == (True, False) or not quick else 4):
                for seq in _it.product("PUEXK", repeat=L):
                    rig.reset(0)
                    served = False
                    for i_, sym in enumerate(seq):
                        args, path, host = SEQ[sym]
                        obs, c1, ms, det = with_timeout(rig.request, 10, args, path, host, ck)
                        inp = {"kind": "console-sequence", "evalex": key[0], "pin_on": key[1], "sequence": "".join(seq[:i_ + 1]), "observed": obs}
                        if sym in "EX" and det["evals"] and not (served and key[0] and sym == "E"):
                            chk.fail("eval-without:console-page", "evaluation in the console frame (frame 0) although the console page was never "
                                     "served to a trusted host with evalex on", inp)
                        if sym == "U" and (obs.startswith("console") or (det["frame0"] and not served)):
                            chk.fail("answered-untrusted:console-frame", "console page / frame for an untrusted host", inp)
                        if sym == "P" and obs.startswith("console"):
                            served = True
                        if det["frame0"] != (served and key[0]):
                            chk.fail("console-frame-state", f"frames[0] present={det['frame0']} after {''.join(seq[:i_ + 1])}", inp)
                        add(rig.model_line(args, path, host, ck, 0, key[0]),
                            f"{obs} c={c1} s={'-' if ms is None else ms} f0={int(det['frame0'] and obs.startswith('console'))}", "console-seq")
                    n_seq += 1
                    chk.case(("console-seq", key, seq), nontrivial=True)
        chk.count("console-frame sequences", n_seq)

        # -------------------------------------------------------- C. PIN attempt histories
        hrig = rigs[(True, True)]
        sec = hrig.app.secret
        ATT = {
            "R": ([("__debugger__", "yes"), ("cmd", "pinauth"), ("pin", PIN), ("s", sec)], "absent"),
            "W": ([("__debugger__", "yes"), ("cmd", "pinauth"), ("pin", "111-111-111"), ("s", sec)], "absent"),
            "S": ([("__debugger__", "yes"), ("cmd", "pinauth"), ("pin", PIN), ("s", sec)], "wrong-hash"),
            # extras used in the long / random histories
            "C": ([("__debugger__", "yes"), ("cmd", "pinauth"), ("pin", "x"), ("s", sec)], "valid"),
            "U": ([("__debugger__", "yes"), ("cmd", "pinauth"), ("pin", PIN), ("s", sec)], "absent"),   # untrusted host
            "E": ([("__debugger__", "yes"), ("cmd", "1+1"), ("frm", str(FID)), ("s", sec)], "absent"),
        }
        n_steps = [0]

        def attempt(sym, spec_n, hist):
            """one attempt on the live app (state carried by the app), judged by the lock-out oracle.
            spec_n: failures since the last success, unbounded (the property's own counter)."""
            args, ckname = ATT[sym]
            host = "evil.com" if sym == "U" else "localhost"
            cookie = COOKIES[ckname](hrig.hash, T)
            c0 = hrig.app._failed_pin_auth.value
            obs, c1, ms, det = hrig.request(args, "/", host, cookie)
            n_steps[0] += 1
            inp = {"kind": "history", "history": hist + sym, "observed": obs, "counter_before": c0, "counter_after": c1}
            locked = spec_n > 10
            if sym == "R":
                if locked and obs.startswith("pin:1"):
                    chk.fail("lockout-bypassed", f"correct PIN accepted after {spec_n} failed attempts", inp)
                if locked and obs != "pin:0,1,none":
                    chk.fail("lockout-response", f"locked out, but the answer is {obs}", inp) if not obs.startswith("pin:1") else None
                if not locked and obs != "pin:1,0,set":
                    chk.fail("pin-refused", f"correct PIN refused after only {spec_n} failed attempts: {obs}", inp)
                spec_n = spec_n if locked else 0
            elif sym == "W":
                if obs.startswith("pin:1"):
                    chk.fail("wrong-pin-accepted", "a wrong PIN authenticates", inp)
                if locked and obs != "pin:0,1,none":
                    chk.fail("lockout-response", f"locked out, but a wrong PIN is answered {obs}", inp)
                spec_n = spec_n if locked else spec_n + 1
            elif sym == "S":
                if obs != "pin:0,0,delete":
                    chk.fail("stale-cookie", f"stale cookie answered {obs}", inp)
                spec_n += 1
            elif sym == "C":
                if obs != "pin:1,0,set":
                    chk.fail("valid-cookie", f"valid cookie answered {obs}", inp)
            elif sym == "U":
                if obs != "secerr" or c1 != c0:
                    chk.fail("answered-untrusted:pin", f"untrusted host answered {obs}", inp)
            if (ms is not None) != (sym in "WS" and not (sym == "W" and locked)):
                chk.fail("sleep", f"delay {ms} on attempt {sym} (locked={locked})", inp)
            add(hrig.model_line(args, "/", host, cookie, c0, True), f"{obs} c={c1} s={'-' if ms is None else ms} f0={int(det['frame0'])}", "hist")
            return spec_n

        def replay(hist: str):
            hrig.reset(0)
            n = 0
            for i, sym in enumerate(hist):
                n = attempt(sym, n, hist[:i])
            chk.case(("hist", hist), nontrivial=True)
            return n

        # boundary histories first (the fixed wrap: 256 counted failures)
        bound = ["W" * 10 + "R", "W" * 11 + "R", "W" * 12 + "RWR", "S" * 10 + "R", "S" * 11 + "R", "WSWSWSWSWSW" + "R",
                 "W" * 5 + "R" + "W" * 10 + "R", "W" * 5 + "R" + "W" * 11 + "R", "W" * 11 + "C" + "R", "W" * 11 + "URER",
                 "S" * 255 + "R", "S" * 256 + "R", "S" * 257 + "R", "W" * 11 + "S" * 244 + "R", "W" * 11 + "S" * 245 + "R",
                 "W" * 11 + "S" * 246 + "RWR", "S" * 300 + "RC" + "S" * 300 + "R", "W" * 30 + "R", "S" * 511 + "R", "S" * 512 + "R",
                 "W" * 9 + "S" * 247 + "R"]
        for ent in corpus.get("histories", []):
            with_timeout(replay, 120, expand_history(ent["history"]))
        for h in bound:
            with_timeout(replay, 120, h)
        chk.count("history:boundary", len(bound))

        # exhaustive: every history over {R, W, S} up to length L from a fresh counter ...
        full_len = 6 if quick else 9
        import itertools
        nh = 0
        for L in range(0, full_len + 1):
            for tup in itertools.product("RWS", repeat=L):
                replay("".join(tup))
                nh += 1
        chk.count(f"history:replayed-from-scratch(len<={full_len})", nh)
        # ... and up to length 9 by depth-first traversal, restoring the counter (the only state a PIN attempt touches:
        # checked by comparing the rest of the instance) when backing up
        if quick:
            snap = {k: v for k, v in vars(hrig.app).items() if k != "_failed_pin_auth"}
            nodes = [0]

            def dfs(prefix, spec_n, depth):
                if depth == 0:
                    return
                saved = hrig.app._failed_pin_auth.value
                for sym in "RWS":
                    hrig.app._failed_pin_auth.value = saved
                    n2 = attempt(sym, spec_n, prefix)
                    nodes[0] += 1
                    chk.case(("hist", prefix + sym), nontrivial=True)
                    dfs(prefix + sym, n2, depth - 1)
                hrig.app._failed_pin_auth.value = saved
            hrig.reset(0)
            with_timeout(dfs, 300, "", 0, 9)
            now_ = {k: v for k, v in vars(hrig.app).items() if k != "_failed_pin_auth"}
            if set(now_) != set(snap) or any(now_[k] is not snap[k] and now_[k] != snap[k] for k in snap):
                chk.broken("correspondence", "PIN attempts change state other than the counter", str(set(now_) ^ set(snap)))
            chk.count("history:dfs-nodes(len<=9)", nodes[0])
        # random histories of length 10..14 (and longer ones in the thorough tier)
        for _ in range(400 if quick else 6000):
            L = rng.randint(10, 14)
            w = rng.choice([[1, 6, 3], [1, 3, 6], [2, 5, 5], [1, 1, 1]])
            h = "".join(rng.choices("RWS", weights=w)[0] for _ in range(L))
            replay(h)
        for _ in range(6 if quick else 60):
            L = rng.randint(250, 300)
            h = "".join(rng.choices("RWSCUE", weights=[1, 2, 30, 1, 1, 1])[0] for _ in range(L)) + "R"
            replay(h)
        chk.count("history:steps", n_steps[0])

        # server-side PIN assignment between requests (app.pin = value on the running app): '=' assigns the current value,
        # 'N' a new one.  Model step: pin := value, counter unchanged.  Oracle: the assignment does not move the counter;
        # once more than ten attempts failed the correct PIN - new or old - is refused whatever was assigned.
        prig = Rig(wd, True, True, HIST_TRUSTED)
        rigs[("pinassign",)] = prig
        psec = prig.app.secret
        new_pins = ["271-828-182", "161-803-398", "141-421-356", "173-205-080"]

        def p_replay(hist: str):
            prig.reset(0)
            prig.app.pin = PIN
            prig.pin_value, prig.hash = PIN, wd.hash_pin(PIN)
            old_pin, n, k_new = PIN, 0, 0
            for i, sym in enumerate(hist):
                c0 = prig.app._failed_pin_auth.value
                inp = {"kind": "pin-assignment-history", "history": hist[:i + 1], "counter_before": c0,
                       "legend": "W wrong PIN, S stale cookie, R current PIN, O previous PIN, = assign the same PIN, N assign a new PIN"}
                if sym in "=N":
                    if sym == "N":
                        old_pin = prig.pin_value
                        prig.pin_value = new_pins[k_new % len(new_pins)]
                        k_new += 1
                    prig.app.pin = prig.pin_value
                    prig.hash = wd.hash_pin(prig.pin_value)
                    c1 = prig.app._failed_pin_auth.value
                    if c1 != c0:
                        chk.fail("pin-assignment-moves-counter" if n <= 10 else "lockout-bypassed:pin-assigned",
                                 f"app.pin = ... moved the failure counter from {c0} to {c1} after {n} failed attempts",
                                 dict(inp, counter_after=c1))
                    if prig.app.pin != prig.pin_value:
                        chk.fail("pin-assignment-ignored", "app.pin does not return the assigned value", inp)
                    continue
                pin_arg = {"R": prig.pin_value, "O": old_pin, "W": "000-000-001", "S": prig.pin_value}[sym]
                args = [("__debugger__", "yes"), ("cmd", "pinauth"), ("pin", pin_arg), ("s", psec)]
                cookie = COOKIES["wrong-hash" if sym == "S" else "absent"](prig.hash, T)
                obs, c1, ms, det = prig.request(args, "/", "localhost", cookie)
                inp.update(observed=obs, counter_after=c1)
                locked = n > 10
                right = sym == "R" or (sym == "O" and old_pin == prig.pin_value)
                if locked and obs.startswith("pin:1"):
                    chk.fail("lockout-bypassed:pin-assigned", f"PIN accepted after {n} failed attempts and a server-side PIN assignment", inp)
                if not right and sym != "S" and obs.startswith("pin:1"):
                    chk.fail("wrong-pin-accepted", "a PIN that is not the current one authenticates", inp)
                if right and not locked and obs != "pin:1,0,set":
                    chk.fail("pin-refused", f"current PIN refused after only {n} failed attempts: {obs}", inp)
                if sym == "S":
                    n += 1
                elif right:
                    n = n if locked else 0
                else:
                    n = n if locked else n + 1
                add(prig.model_line(args, "/", "localhost", cookie, c0, True),
                    f"{obs} c={c1} s={'-' if ms is None else ms} f0={int(det['frame0'])}", "pin-assign")
            chk.case(("pin-assign", hist), nontrivial=True)

        n_pa = 0
        for base in ["W" * 11, "S" * 11, "WSWSWSWSWSW", "W" * 5 + "R" + "W" * 11, "W" * 10]:
            for pos in range(len(base) + 1):
                for a_ in ("=", "N", "N=", "NN"):
                    for tail in ("R", "OR", "WR"):
                        with_timeout(p_replay, 60, base[:pos] + a_ + base[pos:] + tail)
                        n_pa += 1
        import itertools as _it2
        for L in range(1, 5 if quick else 7):
            for tup in _it2.product("RWO=N", repeat=L):
                with_timeout(p_replay, 60, "".join(tup))
                n_pa += 1
        del rigs[("pinassign",)]
        chk.count("pin-assignment histories", n_pa)
    finally:
        wd.time, wd._log = real_time, real_log
        wd._ConsoleFrame.eval = real_ceval

    # ------------------------------------------------------------ model side
    if consts is None:
        # the translator refused the source: coq/C20/model_extracted.ml is whatever an earlier tree produced, comparing the
        # current code with it would say nothing; the oracles above have run and any concrete failing input is recorded
        chk.notes.append("model comparison skipped: no model of the current source (translator stopped)")
        return
    exe = chk.build_modelrun("C20")
    if exe:
        # the model is fed in chunks (the thorough tier has > 10^6 cases: one 0.5 GB input string and its output made the
        # process peak at 2.6 GB); a chunk whose model process fails for an external reason (killed, out of memory) is
        # tried once more before it counts as a broken obligation
        res: list | None = []
        CH = 100_000
        for i0 in range(0, len(lines), CH):
            part = chk.run_model(exe, lines[i0:i0 + CH])
            if part is None:
                chk.notes.append(f"model run of cases {i0}..{i0 + CH} failed once and was repeated")
                if chk.breaks and chk.breaks[-1]["kind"] == "model-run":
                    chk.breaks.pop()
                part = chk.run_model(exe, lines[i0:i0 + CH])
                if part is None:       # the second failure stays recorded as the broken obligation
                    res = None
                    break
            res.extend(part)
        if res is not None:
            mism = unsupported = 0
            for ln, a, b, lab in zip(lines, impl_out, res, labels):
                if b == "unsupported":
                    unsupported += 1
                    continue
                if a != b:
                    mism += 1
                    if mism <= 5:
                        chk.broken("correspondence", f"C20 model vs werkzeug ({lab})", f"case {ln[:300]!r}: impl {a!r} model {b!r}",
                                   case={"line": ln, "impl": a, "model": b})
            chk.count("model:unsupported(non-ASCII digits in int())", unsupported)
            chk.count("model:compared", len(lines) - unsupported)
            chk.count("model:mismatches", mism)


def _req_attr(Request, env, tl, attr, class_level):
    """one attribute of a fresh werkzeug.wrappers.Request whose trusted_hosts is tl (set on the instance or on a subclass)."""
    if class_level:
        cls = type("ConfiguredRequest", (Request,), {"trusted_hosts": tl})
        r = cls(env)
    else:
        r = Request(env)
        r.trusted_hosts = tl
    return getattr(r, attr)


def spec_get_host(scheme, host_header, server) -> str:
    """documented reading of get_host: Host header, else SERVER_NAME (bracketed when IPv6) + port; only the
    scheme's default port suffix is removed."""
    host = ""
    if host_header is not None:
        host = host_header
    elif server is not None:
        host = server[0]
        if ":" in host and not host.startswith("["):
            host = "[" + host + "]"
        if server[1] is not None:
            host = host + ":" + str(server[1])
    suffix = {"http": ":80", "ws": ":80", "https": ":443", "wss": ":443"}.get(scheme)
    if suffix and host.endswith(suffix):
        host = host[: len(host) - len(suffix)]
    return host


def main(chk: Check) -> None:
    consts = None
    try:
        consts = gen()
    except px.Unsupported as e:
        chk.broken("translator", "C20/Gen.v", str(e))
        chk.notes.append("the translator stopped: Gen.v was replaced by a file that does not compile, no theorem is counted as discharged; "
                         "the differential comparison is skipped (the oracles still run)")
    chk.forbidden_scan()
    built = chk.coq_make(["C20/Proofs.vo", "C20/CookieHeader.vo", "C20/Extract.vo"])
    for _ in range(3):
        # another builder's scratch .v file that vanished between mkproject.sh and make ("No rule to make
        # target 'Cxx/...'") is not a C20 obligation: try again (mkproject.sh regenerates the project)
        if built or not chk.breaks or "No rule to make target" not in chk.breaks[-1]["detail"] or "'C20/" in chk.breaks[-1]["detail"]:
            break
        import time as _t
        chk.breaks.pop()
        _t.sleep(3)
        built = chk.coq_make(["C20/Proofs.vo", "C20/CookieHeader.vo", "C20/Extract.vo"])
    if built:
        chk.audit_props("C20/Props.v")
    else:
        chk.cov["obligations"] += 1
    chk.trusted += [
        "translator tools/c20.py + tools/pyextract.py: T2 symbolic execution of __call__, execute_command, display_console, pin_auth, "
        "log_pin_request, check_pin_trust, _fail_pin_auth through an atom table (normalised source text of each condition -> field of "
        "the abstract request record); T1 for PIN_TIME, the Value type code, the default trusted_hosts, the exception class caught in "
        "host_is_trusted",
        "extraction ExtrOcamlBasic (no Extract Constant) + tools/conv.ml + coq/C20/driver.ml, OCaml 4.13.1",
        "contract of str.encode('idna') on non-ASCII text (Section variable idna_u): ASCII output whose labels are non-empty except "
        "possibly the last, or UnicodeError; validated against CPython on every generated host; the ASCII fast path of the codec is "
        "modelled executably and compared differentially",
        "str primitives of coq/C20/Str.v (startswith, endswith, find, slicing with Python's clamping, partition, membership) in which the "
        "regenerated _strip_port / host_is_trusted / get_host / Request.host / wsgi.get_host are written, and the model of int() on ASCII "
        "text: hand-written, compared differentially; the for loop of host_is_trusted becomes a Fixpoint, try/except around the IDNA step "
        "a match on the codec result (a handler for a subclass of UnicodeError does not catch)",
        "time.sleep (blocking) is outside the model; its argument is a model output compared on every request. Frame ids stored by a "
        "traceback are id(frame) of live objects and are taken as positive numbers (checked on real tracebacks; the two store sites into "
        "self.frames are pinned). C13's model of http.parse_cookie is composed in coq/C20/CookieHeader.v",
        "hash_pin (sha1) and parse_cookie are inputs of the model (expected hash and cookie value are passed in); time.time / time.sleep "
        "and _log are replaced by recorders in the harness",
        "atoms of the abstract request are computed by the model from the concrete query arguments, path, Host and cookie (Model.abstract), "
        "so the comparison with the real DebuggedApplication covers the abstraction as well",
    ]
    chk.trusted += [
        "statement pins tools/pins/c20_debugger.txt, c20_host_glue.txt (normalised source, holes where Gen.v translates): hash_pin, "
        "_ConsoleFrame, DebuggedApplication.__init__ / pin / pin.setter / pin_cookie_name / debug_application / get_resource / "
        "check_host_trust / class-level statements, tbtools page flags + render_console_html + render_debugger_html + all_frames + "
        "DebugFrameSummary.eval, wsgi._get_server, BadRequest / SecurityError, TypeConversionDict.get, MultiDict.__getitem__, "
        "sansio Request.args",
        "validated differentially only, no pin wanted: get_machine_id / get_pin_and_cookie_name (PIN derivation, out of scope; only "
        "'WERKZEUG_DEBUG_PIN=off gives no PIN' is used and is exercised by the configuration sweep); debug.console.Console and the "
        "evaluation itself (the model stops at 'frame.eval is called'); http.parse_cookie / dump_cookie / Response.set_cookie / "
        "delete_cookie (C13's model and pins); werkzeug.test.create_environ (harness input builder); CPython: multiprocessing.Value, "
        "time, hashlib.sha1, urllib.parse.parse_qsl, str.encode('idna'), int()",
    ]
    try:
        run(chk, consts)
    except Exception as e:  # noqa: BLE001  (e.g. a changed signature): report what was found so far instead of crashing
        import traceback
        chk.broken("correspondence", "C20 harness stopped", f"{type(e).__name__}: {e}\n" + traceback.format_exc()[-1500:])
    chk.finish(rule="host pairs: every host of a label grammar (labels incl. look-alikes, IDN/punycode, over-long and empty labels, ports, "
                    "bracketed IPv6 literals, malformed brackets) x 23 trusted lists, exhaustively; get_host through sansio, wsgi and "
                    "Request.host; debugger: exhaustive product command(14) x secret(3) x frame x Host x cookie x evalex x PIN on/off "
                    "against a real DebuggedApplication with a spy frame; PIN histories over {right, wrong, stale}: all up to length 9 "
                    "(quick: from scratch to 6, depth-first to 9), boundary histories (10, 11, 255, 256, 257, 511, 512 failures), random "
                    "10..14 and ~280; 36 configurations (evalex x PIN on / pin_security=False / WERKZEUG_DEBUG_PIN=off x pin_logging x "
                    "console_path) x commands x secret x Host x cookie; console-frame sequences to length 4; raw Cookie headers; real "
                    "tracebacks (frame ids). A case is non-trivial when it does not simply reach the wrapped application; distinct by hash.")


def replay(rep: dict) -> int:
    """re-run one replay file against the implementation and print what is observed."""
    import json as _json
    import werkzeug.debug as wd
    import werkzeug.sansio.utils as su
    inp = rep.get("input") or {}
    print(_json.dumps({k: rep.get(k) for k in ("property", "kind", "key", "what")}, indent=1))
    kind = inp.get("kind")
    if kind == "host":
        try:
            print("host_is_trusted(%r, %r) ->" % (inp["host"], inp["trusted"]), su.host_is_trusted(inp["host"], inp["trusted"]))
        except Exception as e:  # noqa: BLE001
            print("raises", type(e).__name__, e)
        print("property reading:", spec_trusted(inp["host"], inp["trusted"]))
        return 0
    if kind == "gethost":
        try:
            print("get_host ->", su.get_host(inp["scheme"], inp["host"], tuple(inp["server"]) if inp["server"] else None, inp["trusted"]))
        except Exception as e:  # noqa: BLE001
            print("raises", type(e).__name__, e)
        from werkzeug.test import create_environ
        from werkzeug.wrappers import Request
        env = create_environ("/p", "http://localhost/")
        env["wsgi.url_scheme"] = inp["scheme"]
        for k in ("HTTP_HOST", "SERVER_NAME", "SERVER_PORT"):
            env.pop(k, None)
        if inp["host"] is not None:
            env["HTTP_HOST"] = inp["host"]
        if inp["server"]:
            env["SERVER_NAME"] = inp["server"][0]
            if inp["server"][1] is not None:
                env["SERVER_PORT"] = str(inp["server"][1])
        for attr in ("host", "url"):
            try:
                print(f"Request.{attr} with trusted_hosts={inp['trusted']!r} ->", _req_attr(Request, env, inp["trusted"], attr, False))
            except Exception as e:  # noqa: BLE001
                print(f"Request.{attr} raises", type(e).__name__)
        print("documented value:", repr(spec_get_host(inp["scheme"], inp["host"], inp["server"])))
        return 0
    real_time, real_log = wd.time, wd._log
    try:
        wd.time = FakeTime(NOW)
        wd._log = lambda *a, **k: None
        if kind == "request":
            rig = Rig(wd, inp["evalex"], inp["pin_on"], inp["trusted"])
            args = [(k, (rig.app.secret if k == "s" and len(v) == 20 and v != "wrongsecret0000000000"[:20] else v)) for k, v in inp["args"]]
            rig.reset(inp.get("count", 0))
            ck = COOKIES[inp["cookie"]](rig.hash, wd.PIN_TIME)
            print("observed:", rig.request(args, inp["path"], inp["host"], ck)[:3])
        elif kind == "history":
            rig = Rig(wd, True, True, HIST_TRUSTED)
            rig.reset(0)
            sec = rig.app.secret
            for sym in inp["history"]:
                pin = {"R": PIN, "W": "111-111-111", "S": PIN, "C": "x", "U": PIN}.get(sym, PIN)
                ck = {"S": "wrong-hash", "C": "valid"}.get(sym, "absent")
                obs = rig.request([("__debugger__", "yes"), ("cmd", "pinauth"), ("pin", pin), ("s", sec)], "/",
                                  "evil.com" if sym == "U" else "localhost", COOKIES[ck](rig.hash, wd.PIN_TIME))
            print("last attempt observed:", obs[:3], "after", len(inp["history"]), "attempts")
        else:
            print(_json.dumps(rep, indent=1)[:4000])
    finally:
        wd.time, wd._log = real_time, real_log
    return 0
