"""Regenerates /verif/MANIFEST.json from the per-property CLAIMS table below."""
import json
import os

VERIF = os.path.dirname(os.path.dirname(os.path.abspath(__file__)))

CLAIMS = {
    "C13": dict(
        text="Coq theorems over an executable model of dump_cookie / both parse_cookie levels: the escape table (a 256-value "
             "sweep re-proved against the table regenerated from the source's regex and map on every run), value round trip "
             "through both parsers for every token key and every Unicode scalar-value string, and no-injection of the emitted "
             "value. The model is tied to the code by the regenerated tables/pattern pins and by differential execution "
             "(extracted OCaml model vs werkzeug) on ~24k cases per quick run.",
        note="Trusted: Coq kernel; translator tools/c13.py; ExtrOcamlBasic extraction + driver; hand-written matcher for _cookie_re "
             "(validated differentially, header text without LF inside unquoted values); UTF-8 model; Domain/Path/Expires rendering "
             "is an input of the attribute-assembly model; the test client's jar is covered by the harness only.",
        design="6/C13"),
}

NOT_YET = {}


def main():
    props = [json.loads(l) for l in open(os.path.join(VERIF, "properties.jsonl"))]
    checks = []
    na = []
    for p in props:
        pid = p["id"]
        if pid in CLAIMS:
            c = CLAIMS[pid]
            checks.append({
                "property_id": pid,
                "quick_cmd": f"./check {pid} --tier quick",
                "thorough_cmd": f"./check {pid} --tier thorough",
                "evidence_file": f"/verif/evidence/{pid}.json",
                "replay_cmd_template": f"./check {pid} --replay {{path}}",
                "engine": "coq-model+correspondence",
                "level_claimed": {"category": "proof", "text": c["text"], "design_ref": c["design"]},
                "level_note": c["note"],
                "technique": "machine-checked proof in Coq 8.16.1 over an executable Gallina model, tied to the source by a "
                             "regenerating translator and a differential correspondence check (extracted model vs implementation)",
            })
        else:
            na.append({"property_id": pid, "reason": NOT_YET.get(pid, "not claimed yet: model and theorems for this property are not built in this revision (no check registered; see DESIGN.md section 6 for the plan)")})
    man = {
        "version": 1,
        "setup_cmd": "./setup.sh",
        "hooks": {
            "guard": "WERKZEUG_VERIF",
            "enable": "no source hooks are needed: every observation is reachable from outside; checks export WERKZEUG_VERIF=1 for uniformity only",
            "baseline_off_cmd": "cd /repo && /venv/bin/python -m pytest -ra -q -p no:cacheprovider --timeout=900 --continue-on-collection-errors",
            "source_commits": [],
            "add_only": True,
        },
        "engines": [{
            "name": "coq-model+correspondence", "path": "/verif/check",
            "serves_properties": sorted(CLAIMS),
            "kind_free_text": "Coq 8.16.1 theorems over Gallina models (coq/), source->Gallina translator (tools/pyextract.py), "
                              "extracted OCaml model runners compared with the implementation (tools/<id>.py)",
        }],
        "checks": checks,
        "not_applicable": na,
        "notes": "Every check: regenerates coq/<ID>/Gen.v from /repo's working tree, rebuilds the proofs, audits Print Assumptions, "
                 "runs the extracted model against the implementation, runs impl-level oracles; known_findings.txt lists findings and fixes.",
    }
    with open(os.path.join(VERIF, "MANIFEST.json"), "w") as f:
        json.dump(man, f, indent=1)


if __name__ == "__main__":
    main()
