"""Regenerates /verif/MANIFEST.json from the per-property CLAIMS table below."""
import json
import os

VERIF = os.path.dirname(os.path.dirname(os.path.abspath(__file__)))

import glob
import importlib
import sys

sys.path.insert(0, VERIF)
CLAIMS = {}
NOT_APPLICABLE = {}
# properties are claimed only when listed in tools/claimed.txt (reviewed and committed)
_claimed = set(open(os.path.join(VERIF, "tools", "claimed.txt")).read().split())
for _f in sorted(glob.glob(os.path.join(VERIF, "tools", "c[0-9][0-9].py"))):
    if os.path.basename(_f)[:-3].upper() not in _claimed:
        continue
    _pid = os.path.basename(_f)[:-3].upper()
    _m = importlib.import_module(f"tools.{_pid.lower()}")
    if getattr(_m, "CLAIM", None):
        CLAIMS[_pid] = _m.CLAIM
    elif getattr(_m, "NOT_APPLICABLE", None):
        NOT_APPLICABLE[_pid] = _m.NOT_APPLICABLE



def main():
    props = [json.loads(l) for l in open(os.path.join(VERIF, "properties.jsonl"))]
    checks = []
    na = []
    for p in props:
        pid = p["id"]
        if pid in CLAIMS:
            c = CLAIMS[pid]
            checks.append({
                "property_id": pid,
                "quick_cmd": f"./check {pid} --tier quick",
                "thorough_cmd": f"./check {pid} --tier thorough",
                "evidence_file": f"/verif/evidence/{pid}.json",
                "replay_cmd_template": f"./check {pid} --replay {{path}}",
                "engine": "coq-model+correspondence",
                "level_claimed": {"category": "proof", "text": c["text"], "design_ref": c["design"]},
                "level_note": c["note"],
                "technique": "machine-checked proof in Coq 8.16.1 over an executable Gallina model, tied to the source by a "
                             "regenerating translator and a differential correspondence check (extracted model vs implementation)",
            })
        else:
            na.append({"property_id": pid, "reason": NOT_APPLICABLE.get(pid, "not claimed yet: model and theorems for this property are not built in this revision (no check registered; see DESIGN.md section 6 for the plan)")})
    man = {
        "version": 1,
        "setup_cmd": "./setup.sh",
        "hooks": {
            "guard": "WERKZEUG_VERIF",
            "enable": "no source hooks are needed: every observation is reachable from outside; checks export WERKZEUG_VERIF=1 for uniformity only",
            "baseline_off_cmd": "cd /repo && /venv/bin/python -m pytest -ra -q -p no:cacheprovider --timeout=900 --continue-on-collection-errors",
            "source_commits": [],
            "add_only": True,
        },
        "engines": [{
            "name": "coq-model+correspondence", "path": "/verif/check",
            "serves_properties": sorted(CLAIMS),
            "kind_free_text": "Coq 8.16.1 theorems over Gallina models (coq/), source->Gallina translator (tools/pyextract.py), "
                              "extracted OCaml model runners compared with the implementation (tools/<id>.py)",
        }],
        "checks": checks,
        "not_applicable": na,
        "notes": "Every check: regenerates coq/<ID>/Gen.v from /repo's working tree, rebuilds the proofs, audits Print Assumptions, "
                 "runs the extracted model against the implementation, runs impl-level oracles; known_findings.txt lists findings and fixes.",
    }
    with open(os.path.join(VERIF, "MANIFEST.json"), "w") as f:
        json.dump(man, f, indent=1)


if __name__ == "__main__":
    main()
